"""Symbolic interpreter for the supported Python subset (DESIGN 2.2, A.1-A.6).

Every exec_/eval_ method is a *host generator*: object-language `yield` and suspending `await`
surface as host yields of ('Y', value) / ('AWAIT', awaitable) events and are resumed with tokens
('send', v) | ('throw', exc) | ('close',).  Object-language exceptions are host exceptions PyRaise."""
import ast
import collections
import fractions

import z3

from .source import EngineError, ClassInfo, BUILTIN_CLASSES, Program
from .vals import (Sym, Obj, Opaque, Closure, BoundMethod, Builtin, ExternalRef, HostMethod,
                   OpaqueMethod, SuperProxy, MsgVal, ModuleVal, UNBOUND, is_sym, numeric_kind, FSpec)
from .world import World, PathEnd
from . import ops


class PyRaise(Exception):
    def __init__(self, exc):
        self.exc = exc

    def __str__(self):
        return f"PyRaise({self.exc!r})"


class RetSig(Exception):
    def __init__(self, v):
        self.v = v


class BreakSig(Exception):
    pass


class ContinueSig(Exception):
    pass


HOST_ABORT = (GeneratorExit, PathEnd, EngineError)

# decorators dropped by the extraction (DESIGN 2.1): @plan wraps the generator in a Plan object whose
# __iter__/send/throw/close delegate to it (A-PLAN); the others only add logging / tracing / metadata
TRANSPARENT_DECORATORS = {"plan", "wraps", "functools.wraps", "tracer.start_as_current_span", "_state_locked",
                          "staticmethod", "classmethod"}


# ----------------------------------------------------------------------------- scopes
def _collect_locals(node):
    """names bound in the function body (excluding nested scopes)"""
    names, glob, nonloc = set(), set(), set()

    def targets(t):
        if isinstance(t, ast.Name):
            names.add(t.id)
        elif isinstance(t, (ast.Tuple, ast.List)):
            for e in t.elts:
                targets(e)
        elif isinstance(t, ast.Starred):
            targets(t.value)

    def visit(n):
        if isinstance(n, (ast.FunctionDef, ast.AsyncFunctionDef, ast.ClassDef)):
            names.add(n.name)
            return
        if isinstance(n, ast.Lambda):
            return
        if isinstance(n, (ast.ListComp, ast.SetComp, ast.DictComp, ast.GeneratorExp)):
            # only walrus targets leak; the first iterable is evaluated in the enclosing scope
            for sub in ast.walk(n):
                if isinstance(sub, ast.NamedExpr):
                    targets(sub.target)
            return
        if isinstance(n, ast.Assign):
            for t in n.targets:
                targets(t)
        elif isinstance(n, (ast.AugAssign, ast.AnnAssign)):
            targets(n.target)
        elif isinstance(n, (ast.For, ast.AsyncFor)):
            targets(n.target)
        elif isinstance(n, (ast.With, ast.AsyncWith)):
            for it in n.items:
                if it.optional_vars is not None:
                    targets(it.optional_vars)
        elif isinstance(n, ast.ExceptHandler):
            if n.name:
                names.add(n.name)
        elif isinstance(n, ast.NamedExpr):
            targets(n.target)
        elif isinstance(n, ast.Import):
            for a in n.names:
                names.add(a.asname or a.name.split(".")[0])
        elif isinstance(n, ast.ImportFrom):
            for a in n.names:
                names.add(a.asname or a.name)
        elif isinstance(n, ast.Global):
            glob.update(n.names)
        elif isinstance(n, ast.Nonlocal):
            nonloc.update(n.names)
        elif isinstance(n, ast.Delete):
            for t in n.targets:
                targets(t)
        for c in ast.iter_child_nodes(n):
            visit(c)

    body = node.body if isinstance(node.body, list) else [node.body]
    for st in body:
        visit(st)
    a = node.args
    for p in a.posonlyargs + a.args + a.kwonlyargs:
        names.add(p.arg)
    if a.vararg:
        names.add(a.vararg.arg)
    if a.kwarg:
        names.add(a.kwarg.arg)
    return names - glob - nonloc, glob, nonloc


def _has_yield(node):
    body = node.body if isinstance(node.body, list) else [node.body]
    stack = list(body)
    while stack:
        n = stack.pop()
        if isinstance(n, (ast.Yield, ast.YieldFrom)):
            return True
        if isinstance(n, (ast.FunctionDef, ast.AsyncFunctionDef, ast.Lambda, ast.ClassDef)):
            continue
        stack.extend(ast.iter_child_nodes(n))
    return False


_scope_cache = {}


def scope_info(node):
    k = id(node)
    if k not in _scope_cache:
        loc, glob, nonloc = _collect_locals(node)
        _scope_cache[k] = (loc, glob, nonloc, _has_yield(node), node)
    return _scope_cache[k]


class Frame:
    def __init__(self, closure, parent, locals_set, interp):
        self.closure = closure
        self.parent = parent
        self.locals_set = locals_set
        self.vars = {}
        self.cur_exc = None
        self.ctx = []              # dynamic context: active except-handlers / finally-blocks (part of cut keys)
        self.loc = None            # control location (last yield) for cut keys
        self.module = closure.module if closure else None
        self.cls = closure.cls if closure else None

    def lookup_frame(self, name):
        f = self
        while f is not None:
            if name in f.locals_set:
                return f
            f = f.parent
        return None


class GenObj:
    """object-language generator / coroutine around a host generator running a Frame"""

    def __init__(self, interp, frame, body_factory, name="gen", is_coro=False):
        self.interp = interp
        self.frame = frame
        self.factory = body_factory
        self.it = None
        self.started = False
        self.done = False
        self.running = False
        self.name = name
        self.is_coro = is_coro

    def __repr__(self):
        return f"<{'coroutine' if self.is_coro else 'generator'} {self.name}>"

    # resume protocol: returns ('yield', v) | ('return', v); raises PyRaise
    def resume(self, tok):
        I = self.interp
        if self.running:
            raise PyRaise(I.mkexc("ValueError", "generator already executing"))
        if self.done:
            if tok[0] == "send":
                raise PyRaise(I.mkexc("StopIteration"))
            if tok[0] == "throw":
                raise PyRaise(tok[1])
            return ("return", None)
        if not self.started:
            if tok[0] == "send":
                if tok[1] is not None:
                    raise PyRaise(I.mkexc("TypeError", "can't send non-None value to a just-started generator"))
            elif tok[0] == "throw":
                self.done = True
                raise PyRaise(tok[1])
            else:  # close of an unstarted generator: nothing runs
                self.done = True
                return ("return", None)
            self.started = True
            self.it = self.factory()
            return self._step(lambda: next(self.it), closing=False)
        if tok[0] == "close":
            try:
                out = self._step(lambda: self.it.send(("close",)), closing=True)
            except PyRaise as pr:
                if I.exc_isinstance(pr.exc, "GeneratorExit") or I.exc_isinstance(pr.exc, "StopIteration"):
                    return ("return", None)
                raise
            if out[0] == "yield":
                self.done = True
                raise PyRaise(I.mkexc("RuntimeError", "generator ignored GeneratorExit"))
            return ("return", None)
        return self._step(lambda: self.it.send(tok), closing=False)

    def _step(self, f, closing):
        I = self.interp
        self.running = True
        try:
            ev = f()
        except StopIteration as si:
            self.done = True
            return ("return", si.value)
        except PyRaise as pr:
            self.done = True
            if not self.is_coro and I.exc_isinstance(pr.exc, "StopIteration") and not closing:
                # PEP 479
                e = I.mkexc("RuntimeError", "generator raised StopIteration")
                e.attrs["__cause__"] = pr.exc
                raise PyRaise(e)
            raise
        except RetSig as r:   # pragma: no cover - run_body converts
            self.done = True
            return ("return", r.v)
        finally:
            self.running = False
        if ev[0] == "Y":
            return ("yield", ev[1])
        if ev[0] == "AWAIT":
            return ("await", ev[1])
        raise EngineError(f"unexpected host event {ev!r}")


class AbsGen:
    """abstract (uninterpreted) sub-generator; outcomes come from the shared oracle (DESIGN 2.5)"""

    def __init__(self, name, oracle, w, well_behaved_close=True):
        self.name = name
        self.oracle = oracle
        self.w = w
        self.k = 0
        self.done = False
        self.started = False
        self.well_behaved_close = well_behaved_close
        self.frame = None

    def __repr__(self):
        return f"<absgen {self.name}>"

    def resume(self, tok):
        return self.oracle.step(self, tok)


class Interp:
    def __init__(self, program: Program, world: World):
        self.P = program
        self.w = world
        self.module_globals = {}
        from . import builtins_ as B
        self.builtins = B.make_builtins(self)
        from . import stdstubs
        stdstubs.install(world)
        self.loop_specs = {}     # (func qualname, loop ordinal) -> LoopSpec
        self.noop_roots = {"logger", "doc_logger", "msg_logger", "state_logger", "warnings", "logging"}
        self.noop_calls = {"print", "warn"}
        self.inline_depth = 0
        self.nyields = 0
        self.frame_stack = []
        self.call_hooks = {}     # qualname -> contract object used instead of the body
        self.trace_calls = None

    # ------------------------------------------------------------------ exceptions
    def exc_class(self, name):
        if isinstance(name, ClassInfo):
            return name
        if name in BUILTIN_CLASSES:
            return BUILTIN_CLASSES[name]
        raise EngineError(f"unknown exception class {name}")

    def mkexc(self, clsname, *args):
        cls = self.exc_class(clsname)
        return Obj(cls, {"args": tuple(args), "__cause__": None})

    def exc_isinstance(self, exc, clsname):
        cls = self.exc_class(clsname)
        return isinstance(exc, Obj) and exc.cls.issubclass(cls)

    def raise_(self, clsname, *args):
        raise PyRaise(self.mkexc(clsname, *args))

    # ------------------------------------------------------------------ driving
    def run(self, gen):
        """drive a host generator that must not produce events; returns its value"""
        try:
            ev = next(gen)
        except StopIteration as si:
            return si.value
        raise EngineError(f"unexpected event outside generator/coroutine context: {ev!r}")

    def call_value(self, f, *args, **kwargs):
        return self.run(self.call(f, list(args), dict(kwargs)))

    # ------------------------------------------------------------------ module globals
    def global_lookup(self, modinfo, name, node=None):
        g = self.module_globals.setdefault(modinfo.name, {})
        if name in g:
            return g[name]
        key = (modinfo.name, name)
        if key in self.w.stubs:
            v = self.w.stubs[key]
            g[name] = v
            return v
        d = modinfo.defs.get(name)
        if d is None:
            if name in self.builtins:
                return self.builtins[name]
            if name in BUILTIN_CLASSES:
                return BUILTIN_CLASSES[name]
            raise PyRaise(self.mkexc("NameError", f"name '{name}' is not defined"))
        kind = d[0]
        if kind == "func":
            for dec in d[1].decorator_list:
                src = ast.unparse(dec)
                if not (src in TRANSPARENT_DECORATORS or src.split("(")[0] in TRANSPARENT_DECORATORS):
                    raise EngineError(f"module-level decorator @{src} on {modinfo.name}:{name} is not in the transparent list")
            v = self.make_closure(d[1], modinfo, None, None, f"{modinfo.name}:{d[1].name}")
        elif kind == "class":
            v = self.P.class_info(modinfo.name, name)
        elif kind == "assign":
            fr = Frame(None, None, set(), self)
            fr.module = modinfo
            v = self.run(self.ev(d[1], fr))
        elif kind == "assign_unpack":
            fr = Frame(None, None, set(), self)
            fr.module = modinfo
            v = self.run(self.ev(d[1], fr))[d[2]]
        elif kind == "import":
            v = self.import_module(d[1])
        elif kind == "from":
            tgt = self.P.resolve_relative(modinfo.name, modinfo.path, d[1], d[3])
            v = self.import_from(tgt, d[2])
        else:
            raise EngineError(kind)
        g[name] = v
        return v

    def import_module(self, dotted):
        if self.P.is_repo_module(dotted):
            return ModuleVal(self.P.module(dotted))
        return ExternalRef(dotted)

    def import_from(self, modname, name):
        if self.P.is_repo_module(modname):
            sub = f"{modname}.{name}"
            m = self.P.module(modname)
            if name in m.defs:
                return self.global_lookup(m, name)
            if self.P.is_repo_module(sub):
                return ModuleVal(self.P.module(sub))
            raise EngineError(f"cannot import {name} from {modname}")
        return ExternalRef(f"{modname}.{name}")

    def make_closure(self, node, modinfo, defframe, cls, qualname):
        return Closure(node, modinfo, defframe, cls, qualname)

    def get_function(self, qual):
        """closure for a module-level function or a method ('mod:Class.meth'); nested functions are
        obtained by executing their enclosing function"""
        modname, path = qual.split(":")
        m = self.P.module(modname)
        parts = path.split(".")
        if len(parts) == 1:
            return self.global_lookup(m, parts[0])
        if len(parts) == 2:
            ci = self.P.class_info(modname, parts[0])
            r = ci.lookup(parts[1])
            if r is None:
                raise EngineError(f"no method {qual}")
            owner, kind, payload = r
            if kind == "method":
                return self.method_closure(owner, payload)
            if kind == "property":
                return self.method_closure(owner, payload["get"])
        raise EngineError(f"get_function: unsupported path {qual}")

    def method_closure(self, owner, node):
        mi = self.P.module(owner.module)
        return Closure(node, mi, None, owner, f"{owner.qualname}.{node.name}")

    # ------------------------------------------------------------------ truthiness & equality
    def truth(self, v, label=None):
        """host bool, forking on symbolic values"""
        if v is None or v is False:
            return False
        if v is True:
            return True
        if isinstance(v, Sym):
            k = v.kind
            if k == "bool":
                return self.w.branch(v, label)
            if k == "int":
                return self.w.branch(ops.mk(v.t != 0), label)
            if k == "real":
                return self.w.branch(ops.mk(v.t != 0), label)
            if k == "str":
                return self.w.branch(ops.mk(z3.Length(v.t) > 0), label)
            raise EngineError(f"truth of {v!r}")
        if isinstance(v, (int, float, str, tuple, list, dict, set, frozenset, collections.deque, fractions.Fraction, range, bytes)):
            return bool(v)
        if isinstance(v, FSpec):
            return True
        from .vals import RLESeq
        if isinstance(v, RLESeq):
            from . import builtins_ as B
            return self.truth(ops.compare("!=", B.rle_len(self, v), 0), label)
        if isinstance(v, Obj):
            r = v.cls.lookup("__bool__")
            if r and r[1] == "method":
                return self.truth(self.call_value(BoundMethod(self.method_closure(r[0], r[2]), v)))
            r = v.cls.lookup("__len__")
            if r and r[1] == "method":
                n = self.call_value(BoundMethod(self.method_closure(r[0], r[2]), v))
                return self.truth(ops.compare("!=", n, 0))
            return True
        if isinstance(v, Opaque):
            t = v.spec.get("truth")
            if t is None:
                return True
            if t == "sym":
                if "__truth__" not in v.attrs:
                    v.attrs["__truth__"] = self.w.bool(f"truth({v.name})", fresh=True)
                return self.w.branch(v.attrs["__truth__"], label)
            return bool(t)
        return True

    def eq(self, a, b):
        """object-language ==, honouring user-defined __eq__"""
        for x, y in ((a, b), (b, a)):
            if isinstance(x, Obj):
                r = x.cls.lookup("__eq__")
                if r and r[1] == "method":
                    return self.call_value(BoundMethod(self.method_closure(r[0], r[2]), x), y)
        if isinstance(a, (tuple, list)) and isinstance(b, (tuple, list)) and type(a) is type(b):
            if len(a) != len(b):
                return False
            return ops.and_(*[self.eq(x, y) for x, y in zip(a, b)])
        return ops.eq(a, b)

    def contains(self, container, item):
        """`item in container` -> host bool or Sym"""
        from .vals import SymSet
        if isinstance(container, SymSet):
            container = container.items
        if isinstance(container, (list, tuple, collections.deque)):
            res = False
            for x in container:
                res = ops.or_(res, self.eq(x, item))
                if res is True:
                    return True
            return res
        if isinstance(container, (set, frozenset, dict)) or hasattr(container, "keys") and isinstance(container, dict):
            if isinstance(item, Sym):
                res = False
                for x in container:
                    res = ops.or_(res, self.eq(x, item))
                return res
            try:
                return item in container
            except TypeError:
                self.raise_("TypeError", "unhashable type")
        if isinstance(container, str) and isinstance(item, str):
            return item in container
        if isinstance(container, Sym) and container.kind == "str" or isinstance(item, Sym) and item.kind == "str":
            from .vals import to_str_term
            return ops.mk(z3.Contains(to_str_term(container), to_str_term(item)))
        if isinstance(container, range) and not isinstance(item, Sym):
            return item in container
        if isinstance(container, range) and isinstance(item, Sym) and container.step == 1:
            return ops.and_(ops.compare(">=", item, container.start), ops.compare("<", item, container.stop))
        if isinstance(container, Obj):
            r = container.cls.lookup("__contains__")
            if r and r[1] == "method":
                return self.call_value(BoundMethod(self.method_closure(r[0], r[2]), container), item)
            r = container.cls.lookup("__iter__")
            if r and r[1] == "method":
                items = self.run(self.iterate(container))
                return self.contains(list(items), item)
        from . import builtins_ as B
        h = B.special_contains(self, container, item)
        if h is not NotImplemented:
            return h
        raise EngineError(f"'in' on {container!r}")

    # ------------------------------------------------------------------ attribute access
    def mangle(self, name, fr):
        if name.startswith("__") and not name.endswith("__") and fr is not None and fr.cls is not None:
            return "_" + fr.cls.name.lstrip("_") + name
        return name

    def getattr(self, obj, name, fr=None):
        if isinstance(obj, Obj):
            if name in obj.attrs:
                return obj.attrs[name]
            r = obj.cls.lookup(name)
            if r is not None:
                owner, kind, payload = r
                if kind == "method":
                    decs = owner.decorators.get(name, [])
                    clo = self.method_closure(owner, payload)
                    if "staticmethod" in decs:
                        return clo
                    if "classmethod" in decs:
                        return BoundMethod(clo, obj.cls)
                    return BoundMethod(clo, obj)
                if kind == "property":
                    if "get" not in payload:
                        self.raise_("AttributeError", name)
                    return self.call_value(BoundMethod(self.method_closure(owner, payload["get"]), obj))
                if kind == "static":
                    return payload
                if kind == "attr":
                    v = self.class_attr(owner, name)
                    if isinstance(v, Obj):
                        g = v.cls.lookup("__get__")
                        if g is not None and g[1] == "method":       # descriptor protocol
                            return self.call_value(BoundMethod(self.method_closure(g[0], g[2]), v), obj, obj.cls)
                    return v
            if name == "__class__":
                return obj.cls
            if name == "__dict__":
                return obj.attrs
            from . import builtins_ as B
            r = B.obj_special_attr(self, obj, name)
            if r is not NotImplemented:
                return r
            g = obj.cls.lookup("__getattr__")
            if g and g[1] == "method":
                return self.call_value(BoundMethod(self.method_closure(g[0], g[2]), obj), name)
            raise PyRaise(self.mkexc("AttributeError", f"'{obj.cls.name}' object has no attribute '{name}'"))
        if isinstance(obj, Opaque):
            from . import builtins_ as B
            return B.opaque_getattr(self, obj, name)
        if isinstance(obj, ClassInfo):
            if name == "__name__":
                return obj.name
            if name == "__qualname__":
                return obj.name
            r = obj.lookup(name)
            if r is not None:
                owner, kind, payload = r
                if kind == "method":
                    decs = owner.decorators.get(name, [])
                    clo = self.method_closure(owner, payload)
                    if "classmethod" in decs:
                        return BoundMethod(clo, obj)
                    return clo
                if kind == "static":
                    return payload
                if kind == "attr":
                    return self.class_attr(owner, name)
            if name == "__mro__":
                return tuple(obj.mro())
            raise PyRaise(self.mkexc("AttributeError", f"type object '{obj.name}' has no attribute '{name}'"))
        if isinstance(obj, MsgVal):
            if name in MsgVal.FIELDS:
                return getattr(obj, name)
            if name in ("_replace", "_asdict", "_fields", "count", "index"):
                return HostMethod(obj, name)
            raise PyRaise(self.mkexc("AttributeError", name))
        if isinstance(obj, ExternalRef):
            h = self.w.stubs.get("extattr")
            if h is not None:
                r = h(self, obj, name)
                if r is not NotImplemented:
                    return r
            return ExternalRef(obj.dotted + "." + name)
        if isinstance(obj, ModuleVal):
            return self.global_lookup(obj.info, name)
        if isinstance(obj, SuperProxy):
            mro = obj.obj.cls.mro() if isinstance(obj.obj, Obj) else obj.obj.mro()
            idx = mro.index(obj.cls)
            for c in mro[idx + 1:]:
                if name in c.methods:
                    return BoundMethod(self.method_closure(c, c.methods[name]), obj.obj)
                if name in c.properties:
                    return self.call_value(BoundMethod(self.method_closure(c, c.properties[name]["get"]), obj.obj))
            from . import builtins_ as B
            r = B.super_fallback(self, obj, name)
            if r is not NotImplemented:
                return r
            raise PyRaise(self.mkexc("AttributeError", f"super: {name}"))
        if isinstance(obj, (GenObj, AbsGen)):
            if name in ("send", "throw", "close", "__next__", "__iter__"):
                return HostMethod(obj, name)
            if name == "gi_frame" or name == "__name__":
                return None if name == "gi_frame" else obj.name
        if isinstance(obj, Closure):
            if name in obj.attrs:
                return obj.attrs[name]
            if name == "__name__":
                return obj.node.name if hasattr(obj.node, "name") else "<lambda>"
            if name == "__qualname__":
                return obj.qualname
            if name in ("__doc__",):
                return None
            raise PyRaise(self.mkexc("AttributeError", name))
        if isinstance(obj, BoundMethod):
            if name == "__self__":
                return obj.self_obj
            if name == "__func__":
                return obj.func
            if name == "__name__":
                return self.getattr(obj.func, "__name__")
        from . import builtins_ as B
        r = B.host_getattr(self, obj, name)
        if r is not NotImplemented:
            return r
        raise PyRaise(self.mkexc("AttributeError", f"{type(obj).__name__} has no attribute {name}"))

    def class_attr(self, owner, name):
        key = ("classattr", owner.qualname, name)
        g = self.module_globals.setdefault("$classattrs", {})
        if key not in g:
            node = owner.class_attrs[name]
            if isinstance(node, ast.ClassDef):
                ci = ClassInfo(node.name, module=owner.module, node=node, bases=[BUILTIN_CLASSES["object"]])
                ci.qualname = owner.qualname + "." + node.name
                self.P._fill_class(ci, node)
                g[key] = ci
            else:
                fr = Frame(None, None, set(), self)
                fr.module = self.P.module(owner.module)
                fr.cls = owner
                g[key] = self.run(self.ev(node, fr))
        return g[key]

    def setattr(self, obj, name, value):
        if isinstance(obj, Obj):
            r = obj.cls.lookup(name)
            if r is not None and r[1] == "property":
                payload = r[2]
                if "set" not in payload:
                    self.raise_("AttributeError", f"can't set attribute '{name}'")
                self.call_value(BoundMethod(self.method_closure(r[0], payload["set"]), obj), value)
                return
            if r is not None and r[1] == "static":
                from . import builtins_ as B
                if B.descriptor_set(self, obj, name, r[2], value):
                    return
            if r is not None and r[1] == "attr":
                desc = self.class_attr(r[0], name)
                from . import builtins_ as B
                if B.descriptor_set(self, obj, name, desc, value):
                    return
            s = obj.cls.lookup("__setattr__")
            if s and s[1] == "method":
                self.call_value(BoundMethod(self.method_closure(s[0], s[2]), obj), name, value)
                return
            self.note_write(obj, name)
            obj.attrs[name] = value
            return
        if isinstance(obj, Opaque):
            self.note_write(obj, name)
            obj.attrs[name] = value
            return
        if isinstance(obj, Closure):
            obj.attrs[name] = value
            return
        raise EngineError(f"setattr on {obj!r}.{name}")

    def note_write(self, obj, name):
        fr = self.w.ghost.get("$frame_writes")
        if fr is not None:
            fr.append((obj, name))

    # ------------------------------------------------------------------ calls
    def bind_args(self, clo, args, kwargs, fr):
        a = clo.node.args
        params = a.posonlyargs + a.args
        nparams = len(params)
        kwargs = dict(kwargs)
        vals = {}
        if len(args) > nparams and not a.vararg:
            self.raise_("TypeError", f"{clo.qualname}() takes {nparams} positional arguments but {len(args)} were given")
        for p, v in zip(params, args):
            vals[p.arg] = v
        if a.vararg:
            vals[a.vararg.arg] = tuple(args[nparams:])
        defaults = a.defaults
        first_default = nparams - len(defaults)
        for i, p in enumerate(params):
            if p.arg in vals:
                if p.arg in kwargs and p not in a.posonlyargs:
                    self.raise_("TypeError", f"{clo.qualname}() got multiple values for argument '{p.arg}'")
                continue
            if p.arg in kwargs and p not in a.posonlyargs:
                vals[p.arg] = kwargs.pop(p.arg)
            elif i >= first_default:
                vals[p.arg] = self.run(self.ev(defaults[i - first_default], self.default_frame(clo)))
            else:
                self.raise_("TypeError", f"{clo.qualname}() missing required positional argument: '{p.arg}'")
        for p, d in zip(a.kwonlyargs, a.kw_defaults):
            if p.arg in kwargs:
                vals[p.arg] = kwargs.pop(p.arg)
            elif d is not None:
                vals[p.arg] = self.run(self.ev(d, self.default_frame(clo)))
            else:
                self.raise_("TypeError", f"{clo.qualname}() missing required keyword-only argument: '{p.arg}'")
        if a.kwarg:
            vals[a.kwarg.arg] = kwargs
        elif kwargs:
            self.raise_("TypeError", f"{clo.qualname}() got an unexpected keyword argument '{next(iter(kwargs))}'")
        fr.vars.update(vals)

    def default_frame(self, clo):
        if clo.defframe is not None:
            return clo.defframe
        f = Frame(None, None, set(), self)
        f.module = clo.module
        f.cls = clo.cls
        return f

    def call(self, f, args, kwargs):
        """host generator; returns the call's value"""
        if isinstance(f, BoundMethod):
            return (yield from self.call(f.func, [f.self_obj] + list(args), kwargs))
        if isinstance(f, Closure):
            hook = self.call_hooks.get(f.qualname)
            if hook is not None:
                return (yield from hook(self, f, args, kwargs))
            return (yield from self.call_closure(f, args, kwargs))
        if isinstance(f, Builtin):
            if f.gen:
                return (yield from f.impl(self, args, kwargs))
            return f.impl(self, args, kwargs)
        if isinstance(f, ClassInfo):
            return (yield from self.instantiate(f, args, kwargs))
        if isinstance(f, ExternalRef):
            stub = self.w.stubs.get(f.dotted)
            if stub is None:
                root = f.dotted.split(".")[0]
                last = f.dotted.split(".")[-1]
                if root in self.noop_roots or f.dotted in self.noop_calls:
                    if last in ("getLogger", "LoggerAdapter"):
                        # a logger object: every method call on it is effect-free (A-LOG)
                        return Opaque("logger", {"noop": True, "default_attr": "method", "isinstance_default": False})
                    return None
                raise EngineError(f"no assumed contract (stub) for external call {f.dotted}")
            r = stub(self, args, kwargs)
            if hasattr(r, "__next__") and hasattr(r, "send"):
                return (yield from r)
            return r
        if isinstance(f, HostMethod):
            from . import builtins_ as B
            r = B.call_host_method(self, f.obj, f.name, args, kwargs)
            if hasattr(r, "__next__") and hasattr(r, "send"):
                return (yield from r)
            return r
        if isinstance(f, OpaqueMethod):
            if f.obj.spec.get("noop"):
                return None
            m = f.obj.spec.get("methods", {}).get(f.name)
            if m is not None:
                r = m(self, f.obj, args, kwargs)
            else:
                h = self.w.opaque_call
                if h is None:
                    raise EngineError(f"call of opaque method {f!r} without a harness contract")
                r = h(self, f.obj, f.name, args, kwargs)
            if hasattr(r, "__next__") and hasattr(r, "send"):
                return (yield from r)
            return r
        if isinstance(f, Obj):
            r = f.cls.lookup("__call__")
            if r and r[1] == "method":
                return (yield from self.call(BoundMethod(self.method_closure(r[0], r[2]), f), args, kwargs))
            self.raise_("TypeError", f"'{f.cls.name}' object is not callable")
        if isinstance(f, Opaque):
            return (yield from self.call(OpaqueMethod(f, "__call__"), args, kwargs))
        if callable(f) and getattr(f, "_pyvc_native", False):
            r = f(self, args, kwargs)
            if hasattr(r, "__next__") and hasattr(r, "send"):
                return (yield from r)
            return r
        if f is None:
            self.raise_("TypeError", "'NoneType' object is not callable")
        raise EngineError(f"call of unsupported value {f!r}")

    def call_closure(self, f, args, kwargs):
        node = f.node
        if isinstance(node, ast.Lambda):
            fr = Frame(f, f.defframe, scope_info(node)[0], self)
            self.bind_args(f, args, kwargs, fr)
            return (yield from self.ev(node.body, fr))
        loc, glob, nonloc, is_gen, _ = scope_info(node)
        fr = Frame(f, f.defframe, loc, self)
        fr.globals_decl = glob
        self.bind_args(f, args, kwargs, fr)
        if self.trace_calls is not None:
            self.trace_calls.append(f.qualname)
        if isinstance(node, ast.AsyncFunctionDef):
            return GenObj(self, fr, lambda: self.run_body(node, fr), f.qualname, is_coro=True)
        if is_gen:
            return GenObj(self, fr, lambda: self.run_body(node, fr), f.qualname)
        self.frame_stack.append(fr)          # plain (non-generator) activations, innermost last
        try:
            return (yield from self.run_body(node, fr))
        finally:
            self.frame_stack.pop()

    def run_body(self, node, fr):
        try:
            yield from self.ex_block(node.body, fr)
        except RetSig as r:
            return r.v
        return None

    def instantiate(self, cls, args, kwargs):
        from . import builtins_ as B
        r = B.special_instantiate(self, cls, args, kwargs)
        if r is not NotImplemented:
            if hasattr(r, "__next__") and hasattr(r, "send"):
                return (yield from r)
            return r
        if getattr(cls, "external", False) and cls.issubclass(BUILTIN_CLASSES["BaseException"]):
            return Obj(cls, {"args": tuple(args), "__cause__": None})
        if getattr(cls, "external", False):
            stub = self.w.stubs.get(cls.qualname)
            if stub is None:
                raise EngineError(f"instantiation of external class {cls.qualname} without a stub")
            return stub(self, args, kwargs)
        obj = Obj(cls)
        new = cls.lookup("__new__")
        if new and new[1] == "method":
            obj = yield from self.call(self.method_closure(new[0], new[2]), [cls] + list(args), kwargs)
            if not (isinstance(obj, Obj) and obj.cls.issubclass(cls)):
                return obj
        init = cls.lookup("__init__")
        if init and init[1] == "method":
            yield from self.call(BoundMethod(self.method_closure(init[0], init[2]), obj), args, kwargs)
        elif cls.issubclass(BUILTIN_CLASSES["BaseException"]):
            obj.attrs["args"] = tuple(args)
            obj.attrs.setdefault("__cause__", None)
        elif args or kwargs:
            if not (new and new[1] == "method"):
                self.raise_("TypeError", f"{cls.name}() takes no arguments")
        if cls.issubclass(BUILTIN_CLASSES["BaseException"]):
            obj.attrs.setdefault("args", tuple(args))
            obj.attrs.setdefault("__cause__", None)
        return obj

    # ------------------------------------------------------------------ statements
    def ex_block(self, stmts, fr):
        for st in stmts:
            yield from self.ex(st, fr)

    def ex(self, st, fr):
        m = getattr(self, "ex_" + type(st).__name__, None)
        if m is None:
            raise EngineError(f"unsupported statement {type(st).__name__} at line {st.lineno}")
        fr.lineno = st.lineno
        yield from m(st, fr)

    def ex_Expr(self, st, fr):
        if isinstance(st.value, ast.Constant):
            return
        yield from self.ev(st.value, fr)

    def ex_Pass(self, st, fr):
        return
        yield

    def ex_Assign(self, st, fr):
        v = yield from self.ev(st.value, fr)
        for t in st.targets:
            yield from self.assign(t, v, fr)

    def ex_AnnAssign(self, st, fr):
        if st.value is not None:
            v = yield from self.ev(st.value, fr)
            yield from self.assign(st.target, v, fr)

    def ex_AugAssign(self, st, fr):
        t = st.target
        opname = _BINOPS[type(st.op)]
        if isinstance(t, ast.Name):
            cur = self.load_name(t.id, fr)
            rhs = yield from self.ev(st.value, fr)
            new = yield from self.aug(opname, cur, rhs)
            self.store_name(t.id, new, fr)
        elif isinstance(t, ast.Attribute):
            o = yield from self.ev(t.value, fr)
            name = self.mangle(t.attr, fr)
            cur = self.getattr(o, name, fr)
            rhs = yield from self.ev(st.value, fr)
            new = yield from self.aug(opname, cur, rhs)
            self.setattr(o, name, new)
        elif isinstance(t, ast.Subscript):
            o = yield from self.ev(t.value, fr)
            k = yield from self.ev_index(t.slice, fr)
            cur = yield from self.getitem(o, k)
            rhs = yield from self.ev(st.value, fr)
            new = yield from self.aug(opname, cur, rhs)
            yield from self.setitem(o, k, new)
        else:
            raise EngineError("augassign target")

    def aug(self, opname, cur, rhs):
        if opname == "+" and isinstance(cur, list):
            items = yield from self.iterate(rhs)
            cur.extend(items)
            return cur
        if opname == "|" and isinstance(cur, set):
            items = yield from self.iterate(rhs)
            cur.update(items)
            return cur
        if opname == "|" and isinstance(cur, dict):
            cur.update(rhs)
            return cur
        return (yield from self.binop(opname, cur, rhs))

    def assign(self, t, v, fr):
        if isinstance(t, ast.Name):
            self.store_name(t.id, v, fr)
        elif isinstance(t, ast.Attribute):
            o = yield from self.ev(t.value, fr)
            self.setattr(o, self.mangle(t.attr, fr), v)
        elif isinstance(t, ast.Subscript):
            o = yield from self.ev(t.value, fr)
            k = yield from self.ev_index(t.slice, fr)
            yield from self.setitem(o, k, v)
        elif isinstance(t, (ast.Tuple, ast.List)):
            items = yield from self.iterate(v)
            star = [i for i, e in enumerate(t.elts) if isinstance(e, ast.Starred)]
            if star:
                i = star[0]
                n_after = len(t.elts) - i - 1
                if len(items) < len(t.elts) - 1:
                    self.raise_("ValueError", "not enough values to unpack")
                for e, x in zip(t.elts[:i], items[:i]):
                    yield from self.assign(e, x, fr)
                yield from self.assign(t.elts[i].value, list(items[i:len(items) - n_after]), fr)
                for e, x in zip(t.elts[i + 1:], items[len(items) - n_after:]):
                    yield from self.assign(e, x, fr)
            else:
                if len(items) != len(t.elts):
                    self.raise_("ValueError", f"unpack: expected {len(t.elts)} values, got {len(items)}")
                for e, x in zip(t.elts, items):
                    yield from self.assign(e, x, fr)
        else:
            raise EngineError(f"assign target {type(t).__name__}")

    def ex_Delete(self, st, fr):
        for t in st.targets:
            if isinstance(t, ast.Name):
                f = fr.lookup_frame(t.id)
                if f is None or t.id not in f.vars:
                    self.raise_("NameError", t.id)
                del f.vars[t.id]
            elif isinstance(t, ast.Subscript):
                o = yield from self.ev(t.value, fr)
                k = yield from self.ev_index(t.slice, fr)
                yield from self.delitem(o, k)
            elif isinstance(t, ast.Attribute):
                o = yield from self.ev(t.value, fr)
                name = self.mangle(t.attr, fr)
                if isinstance(o, (Obj, Opaque)) and name in o.attrs:
                    self.note_write(o, name)
                    del o.attrs[name]
                else:
                    self.raise_("AttributeError", name)
            else:
                raise EngineError("del target")

    def ex_If(self, st, fr):
        c = yield from self.ev(st.test, fr)
        if self.truth(c, f"if@L{st.lineno}"):
            yield from self.ex_block(st.body, fr)
        else:
            yield from self.ex_block(st.orelse, fr)

    def ex_While(self, st, fr):
        spec = self.loop_spec_for(st, fr)
        if spec is not None:
            yield from spec.run_while(self, st, fr)
            return
        n = 0
        ny = self.nyields
        while True:
            if self.nyields != ny:      # the loop made observable progress (yielded): not a candidate for an invariant
                ny = self.nyields
                n = 0
            c = yield from self.ev(st.test, fr)
            if not self.truth(c, f"while@L{st.lineno}"):
                yield from self.ex_block(st.orelse, fr)
                return
            try:
                yield from self.ex_block(st.body, fr)
            except BreakSig:
                return
            except ContinueSig:
                pass
            n += 1
            if n > self.max_unroll:
                raise EngineError(f"loop at line {st.lineno} needs an invariant (unrolled {n} times)")

    max_unroll = 64

    def loop_spec_for(self, st, fr):
        if not self.loop_specs:
            return None
        q = fr.closure.qualname if fr.closure else None
        for key, spec in self.loop_specs.items():
            if key[0] == q and key[1] == st.lineno:
                return spec
        return None

    def ex_For(self, st, fr):
        spec = self.loop_spec_for(st, fr)
        if spec is not None:
            yield from spec.run_for(self, st, fr)
            return
        it = yield from self.ev(st.iter, fr)
        itr = yield from self.get_iter(it)
        fr.ctx.append(("for", st.lineno, itr))     # the iterator position is part of the control state (cut keys)
        if type(itr).__name__ == "SymRangeIter" and isinstance(st.target, ast.Name):
            itr.owner = (fr, st.target.id)
        mark = getattr(itr, "pyvc_loop_head", None)
        try:
            while True:
                if mark is not None:
                    # loop over a collection of arbitrary length (harness iterable): the loop head is an observable
                    # synchronisation point of a bisimulation (joint cut point = loop invariant), never a real yield:
                    # it is only ever resumed with send(None)
                    fr.loc = ("loop-head", st.lineno, st.col_offset)
                    self.nyields += 1
                    tok = yield ("Y", mark)
                    if tok != ("send", None):
                        raise EngineError("loop-head marker resumed with something other than send(None)")
                try:
                    x = yield from self.iter_next(itr)
                except _IterStop:
                    yield from self.ex_block(st.orelse, fr)
                    return
                yield from self.assign(st.target, x, fr)
                try:
                    yield from self.ex_block(st.body, fr)
                except BreakSig:
                    return
                except ContinueSig:
                    pass
        finally:
            fr.ctx.pop()

    def ex_AsyncFor(self, st, fr):
        """`async for` over a *synchronous* collection (list / tuple / deque ... as handed out by a harness stub standing for an
        asynchronous iterator that does not suspend - the same reading comprehensions with `async for` clauses get);
        anything else needs a contract"""
        it = yield from self.ev(st.iter, fr)
        if not isinstance(it, (list, tuple, collections.deque)):
            raise EngineError(f"async for over {type(it).__name__} at line {st.lineno}: only harness-provided sequences are modelled")
        items = list(it)
        pos = _ListIter(items)
        fr.ctx.append(("for", st.lineno, pos))
        try:
            for x in items:
                pos.i += 1
                yield from self.assign(st.target, x, fr)
                try:
                    yield from self.ex_block(st.body, fr)
                except BreakSig:
                    return
                except ContinueSig:
                    pass
            yield from self.ex_block(st.orelse, fr)
        finally:
            fr.ctx.pop()

    def ex_Break(self, st, fr):
        raise BreakSig()
        yield

    def ex_Continue(self, st, fr):
        raise ContinueSig()
        yield

    def ex_Return(self, st, fr):
        v = None
        if st.value is not None:
            v = yield from self.ev(st.value, fr)
        raise RetSig(v)

    def ex_Raise(self, st, fr):
        if st.exc is None:
            if fr.cur_exc is None:
                self.raise_("RuntimeError", "No active exception to reraise")
            raise PyRaise(fr.cur_exc)
        e = yield from self.ev(st.exc, fr)
        if isinstance(e, ClassInfo):
            e = yield from self.instantiate(e, [], {})
        if not (isinstance(e, Obj) and e.cls.issubclass(BUILTIN_CLASSES["BaseException"])):
            if isinstance(e, Opaque) and e.spec.get("exception"):
                pass
            else:
                self.raise_("TypeError", "exceptions must derive from BaseException")
        if st.cause is not None:
            c = yield from self.ev(st.cause, fr)
            e.attrs["__cause__"] = c
        raise PyRaise(e)

    def exc_matches(self, exc, h, fr):
        if h.type is None:
            return True
        t = yield from self.ev(h.type, fr)
        ts = t if isinstance(t, tuple) else (t,)
        for c in ts:
            if isinstance(c, ExternalRef):
                c = self.P.external_class(c.dotted)
            if not isinstance(c, ClassInfo):
                raise EngineError(f"except clause with non-class {c!r}")
            if self.isinstance_exc(exc, c):
                return True
        return False

    def isinstance_exc(self, exc, c):
        if isinstance(exc, Obj):
            return exc.cls.issubclass(c)
        if isinstance(exc, Opaque):
            from . import builtins_ as B
            return self.truth(B.opaque_isinstance(self, exc, c))
        raise EngineError(f"non-exception raised {exc!r}")

    def ex_Try(self, st, fr):
        host_exit = False
        pending = None
        try:
            try:
                yield from self.ex_block(st.body, fr)
            except PyRaise as pr:
                handled = False
                for h in st.handlers:
                    if (yield from self.exc_matches(pr.exc, h, fr)):
                        handled = True
                        saved = fr.cur_exc
                        fr.cur_exc = pr.exc
                        if h.name:
                            self.store_name(h.name, pr.exc, fr)
                        fr.ctx.append(("handler", h.lineno, pr.exc))
                        try:
                            yield from self.ex_block(h.body, fr)
                        finally:
                            fr.ctx.pop()
                            fr.cur_exc = saved
                            if h.name:
                                f = fr.lookup_frame(h.name)
                                if f is not None:
                                    f.vars.pop(h.name, None)
                        break
                if not handled:
                    raise
            else:
                yield from self.ex_block(st.orelse, fr)
        except HOST_ABORT:
            host_exit = True
            raise
        except BaseException as sig:       # PyRaise / RetSig / BreakSig / ContinueSig travelling through
            pending = sig
            raise
        finally:
            if st.finalbody and not host_exit:
                if isinstance(pending, PyRaise):
                    c = ("finally-exc", st.lineno, pending.exc)
                elif isinstance(pending, RetSig):
                    c = ("finally-ret", st.lineno, pending.v)
                elif pending is not None:
                    c = ("finally-" + type(pending).__name__, st.lineno, None)
                else:
                    c = ("finally", st.lineno, None)
                fr.ctx.append(c)
                try:
                    yield from self.ex_block(st.finalbody, fr)
                finally:
                    fr.ctx.pop()

    def ex_With(self, st, fr):
        yield from self._with(st, fr, 0, False)

    def ex_AsyncWith(self, st, fr):
        yield from self._with(st, fr, 0, True)

    def _with(self, st, fr, i, is_async):
        if i == len(st.items):
            yield from self.ex_block(st.body, fr)
            return
        item = st.items[i]
        cm = yield from self.ev(item.context_expr, fr)
        transparent = isinstance(cm, Opaque) and cm.spec.get("ctx") == "transparent"
        if transparent:
            if item.optional_vars is not None:
                yield from self.assign(item.optional_vars, cm, fr)
            yield from self._with(st, fr, i + 1, is_async)
            return
        enter = self.getattr(cm, "__aenter__" if is_async else "__enter__")
        exit_ = self.getattr(cm, "__aexit__" if is_async else "__exit__")
        v = yield from self.call(enter, [], {})
        if is_async:
            v = yield from self.await_value(v)
        if item.optional_vars is not None:
            yield from self.assign(item.optional_vars, v, fr)
        try:
            yield from self._with(st, fr, i + 1, is_async)
        except PyRaise as pr:
            r = yield from self.call(exit_, [pr.exc.cls if isinstance(pr.exc, Obj) else None, pr.exc, None], {})
            if is_async:
                r = yield from self.await_value(r)
            if not self.truth(r):
                raise
        except HOST_ABORT:
            raise
        except (RetSig, BreakSig, ContinueSig):
            r = yield from self.call(exit_, [None, None, None], {})
            if is_async:
                yield from self.await_value(r)
            raise
        else:
            r = yield from self.call(exit_, [None, None, None], {})
            if is_async:
                yield from self.await_value(r)

    def ex_Assert(self, st, fr):
        c = yield from self.ev(st.test, fr)
        if not self.truth(c, f"assert@L{st.lineno}"):
            msg = None
            if st.msg is not None:
                msg = yield from self.ev(st.msg, fr)
            e = self.mkexc("AssertionError", *([msg] if msg is not None else []))
            e.attrs["$lineno"] = st.lineno
            raise PyRaise(e)

    def ex_FunctionDef(self, st, fr):
        q = (fr.closure.qualname + "." if fr.closure else "") + st.name
        clo = Closure(st, fr.module, fr, fr.cls, q)
        v = clo
        for d in reversed(st.decorator_list):
            v = yield from self.apply_decorator(d, v, fr)
        self.store_name(st.name, v, fr)

    ex_AsyncFunctionDef = ex_FunctionDef

    def apply_decorator(self, d, v, fr):
        src = ast.unparse(d)
        if src.startswith(("functools.wraps", "wraps(")):
            return v
        dv = yield from self.ev(d, fr)
        return (yield from self.call(dv, [v], {}))

    def ex_Global(self, st, fr):
        return
        yield

    def ex_Nonlocal(self, st, fr):
        return
        yield

    def ex_Import(self, st, fr):
        for a in st.names:
            self.store_name(a.asname or a.name.split(".")[0], self.import_module(a.name if a.asname else a.name.split(".")[0]), fr)
        return
        yield

    def ex_ImportFrom(self, st, fr):
        tgt = self.P.resolve_relative(fr.module.name, fr.module.path, st.module or "", st.level)
        for a in st.names:
            self.store_name(a.asname or a.name, self.import_from(tgt, a.name), fr)
        return
        yield

    # ------------------------------------------------------------------ names
    def load_name(self, name, fr):
        f = fr.lookup_frame(name)
        if f is not None:
            v = f.vars.get(name, UNBOUND)
            if v is UNBOUND:
                if f is fr:
                    raise PyRaise(self.mkexc("UnboundLocalError", f"local variable '{name}' referenced before assignment"))
                raise PyRaise(self.mkexc("NameError", f"free variable '{name}' referenced before assignment"))
            return v
        key = ("$local", name)
        if fr.module is None:
            raise EngineError(f"name {name} without module context")
        if name == "__class__" and fr.cls is not None:
            return fr.cls
        return self.global_lookup(fr.module, name)

    def store_name(self, name, v, fr):
        f = fr.lookup_frame(name)
        if f is None:
            glob = getattr(fr, "globals_decl", set())
            if name in glob:
                self.module_globals.setdefault(fr.module.name, {})[name] = v
                return
            # comprehension / harness frames: bind locally
            fr.locals_set = set(fr.locals_set) | {name}
            f = fr
        f.vars[name] = v

    # ------------------------------------------------------------------ expressions
    def ev(self, e, fr):
        m = getattr(self, "ev_" + type(e).__name__, None)
        if m is None:
            raise EngineError(f"unsupported expression {type(e).__name__} at line {getattr(e, 'lineno', '?')}")
        return (yield from m(e, fr))

    def ev_Constant(self, e, fr):
        return e.value
        yield

    def ev_Name(self, e, fr):
        return self.load_name(e.id, fr)
        yield

    def ev_Attribute(self, e, fr):
        o = yield from self.ev(e.value, fr)
        return self.getattr(o, self.mangle(e.attr, fr), fr)

    def ev_Tuple(self, e, fr):
        out = []
        for x in e.elts:
            if isinstance(x, ast.Starred):
                v = yield from self.ev(x.value, fr)
                out.extend((yield from self.iterate(v)))
            else:
                out.append((yield from self.ev(x, fr)))
        return tuple(out)

    def ev_List(self, e, fr):
        return list((yield from self.ev_Tuple(e, fr)))

    def ev_Set(self, e, fr):
        items = yield from self.ev_Tuple(e, fr)
        return self.make_set(items)

    def make_set(self, items):
        from .vals import SymSet
        items = list(items)
        if any(isinstance(x, Sym) for x in items):
            # symbolic elements: canonical list of representatives, forking on equality
            reps = []
            for x in items:
                if isinstance(x, (list, dict, set)):
                    self.raise_("TypeError", "unhashable type")
                dup = False
                for y in reps:
                    if self.truth(self.eq(x, y), "set-dedupe"):
                        dup = True
                        break
                if not dup:
                    reps.append(x)
            return SymSet(reps)
        s = set()
        for x in items:
            self.check_hashable(x)
            s.add(x)
        return s

    def check_hashable(self, x):
        if isinstance(x, Sym):
            raise EngineError("symbolic value used as a set element / dict key (needs a symbolic-map model)")
        if isinstance(x, (list, dict, set)):
            self.raise_("TypeError", f"unhashable type: '{type(x).__name__}'")
        if isinstance(x, tuple):
            for y in x:
                self.check_hashable(y)

    def ev_Dict(self, e, fr):
        d = {}
        for k, v in zip(e.keys, e.values):
            if k is None:
                m = yield from self.ev(v, fr)
                if isinstance(m, dict):
                    d.update(m)
                else:
                    for kk in (yield from self.iterate(m)):
                        d[kk] = yield from self.getitem(m, kk)
            else:
                kk = yield from self.ev(k, fr)
                vv = yield from self.ev(v, fr)
                self.check_hashable(kk)
                d[kk] = vv
        return d

    def ev_BoolOp(self, e, fr):
        is_and = isinstance(e.op, ast.And)
        v = None
        for i, x in enumerate(e.values):
            v = yield from self.ev(x, fr)
            if i == len(e.values) - 1:
                return v
            t = self.truth(v, f"boolop@L{e.lineno}")
            if is_and and not t:
                return v
            if not is_and and t:
                return v
        return v

    def ev_UnaryOp(self, e, fr):
        v = yield from self.ev(e.operand, fr)
        if isinstance(e.op, ast.Not):
            if isinstance(v, Sym) and v.kind == "bool":
                return ops.not_(v)
            return not self.truth(v, f"not@L{e.lineno}")
        op = {ast.USub: "-", ast.UAdd: "+", ast.Invert: "~"}[type(e.op)]
        return ops.unop(op, v)

    def ev_BinOp(self, e, fr):
        a = yield from self.ev(e.left, fr)
        b = yield from self.ev(e.right, fr)
        return (yield from self.binop(_BINOPS[type(e.op)], a, b))

    def binop(self, op, a, b):
        from . import builtins_ as B
        r = B.special_binop(self, op, a, b)
        if r is not NotImplemented:
            if hasattr(r, "__next__") and hasattr(r, "send"):
                return (yield from r)
            return r
        if op in ("/", "//", "%") and numeric_kind(b) and numeric_kind(a):
            z = ops.eq(b, 0)
            if z is True or (z is not False and self.w.branch(z, "divisor==0")):
                self.raise_("ZeroDivisionError", "division by zero")
            if op in ("//", "%") and isinstance(b, Sym) and numeric_kind(a) == "int" and numeric_kind(b) == "int":
                q, r = self.divmod_sym(a, b)
                return q if op == "//" else r
        try:
            return ops.binop(op, a, b)
        except TypeError as ex:
            self.raise_("TypeError", str(ex))
        except ZeroDivisionError:
            self.raise_("ZeroDivisionError", "division by zero")
        yield

    def divmod_sym(self, a, b):
        """floor division by a *symbolic* divisor: fresh q, r with the defining property of Python's // and %
        (a == b*q + r, 0 <= r < b for b > 0, b < r <= 0 for b < 0); avoids non-linear div/mod terms"""
        from .vals import to_int_term
        memo = self.w.ghost.setdefault("$divmod", {})
        key = (to_int_term(a).sexpr(), to_int_term(b).sexpr())
        if key not in memo:
            q = self.w.int("q", fresh=True)
            r = self.w.int("r", fresh=True)
            at, bt = to_int_term(a), to_int_term(b)
            self.w.add(ops.mk(at == bt * q.t + r.t))
            self.w.add(ops.mk(z3.If(bt > 0, z3.And(r.t >= 0, r.t < bt), z3.And(r.t <= 0, r.t > bt))))
            memo[key] = (q, r)
        return memo[key]

    def ev_Compare(self, e, fr):
        left = yield from self.ev(e.left, fr)
        result = True
        for i, (op, rn) in enumerate(zip(e.ops, e.comparators)):
            right = yield from self.ev(rn, fr)
            r = yield from self.compare_op(op, left, right)
            if i == len(e.ops) - 1 and result is True:
                return r
            # chained comparison: short-circuit semantics
            if not self.truth(r, f"cmp@L{e.lineno}"):
                return False
            left = right
        return result

    def compare_op(self, op, a, b):
        if isinstance(op, ast.Is):
            return self.is_(a, b)
        if isinstance(op, ast.IsNot):
            return ops.not_(self.is_(a, b))
        if isinstance(op, ast.In):
            return self.contains(b, a)
        if isinstance(op, ast.NotIn):
            return ops.not_(self.contains(b, a))
        if isinstance(op, ast.Eq):
            return self.eq(a, b)
        if isinstance(op, ast.NotEq):
            return ops.not_(self.eq(a, b))
        sym = {ast.Lt: "<", ast.LtE: "<=", ast.Gt: ">", ast.GtE: ">="}[type(op)]
        from . import builtins_ as B
        r = B.special_compare(self, sym, a, b)
        if r is not NotImplemented:
            return r
        try:
            return ops.compare(sym, a, b)
        except TypeError as ex:
            self.raise_("TypeError", str(ex))
        yield

    def is_(self, a, b):
        if a is None or b is None:
            if isinstance(a, Sym) or isinstance(b, Sym):
                return False
            return a is b
        if isinstance(a, bool) and isinstance(b, bool):
            return a is b
        if isinstance(a, Sym) and isinstance(b, Sym) and a.kind == "bool" and b.kind == "bool":
            return ops.eq(a, b)
        if isinstance(a, (bool,)) and isinstance(b, Sym) and b.kind == "bool":
            return ops.eq(a, b)
        if isinstance(b, (bool,)) and isinstance(a, Sym) and a.kind == "bool":
            return ops.eq(a, b)
        if isinstance(a, (Sym, int, float, str)) or isinstance(b, (Sym, int, float, str)):
            if a is b:
                return True
            if isinstance(a, (int, str)) and isinstance(b, (int, str)) and type(a) is type(b):
                return a == b  # small ints / interned strings: identity taken as equality (A-IDENTITY)
            if isinstance(a, Sym) and isinstance(b, Sym):
                raise EngineError("identity of two symbolic scalars")
            return False
        return a is b

    def ev_IfExp(self, e, fr):
        c = yield from self.ev(e.test, fr)
        if self.truth(c, f"ifexp@L{e.lineno}"):
            return (yield from self.ev(e.body, fr))
        return (yield from self.ev(e.orelse, fr))

    def ev_NamedExpr(self, e, fr):
        v = yield from self.ev(e.value, fr)
        self.store_name(e.target.id, v, fr)
        return v

    def ev_Lambda(self, e, fr):
        return Closure(e, fr.module, fr, fr.cls, (fr.closure.qualname + "." if fr.closure else "") + "<lambda>")
        yield

    def ev_JoinedStr(self, e, fr):
        parts = []
        for v in e.values:
            if isinstance(v, ast.Constant):
                parts.append(v.value)
            else:
                x = yield from self.ev(v.value, fr)
                from . import builtins_ as B
                conv = {-1: None, 115: "s", 114: "r", 97: "a"}[v.conversion]
                spec = None
                if v.format_spec is not None:
                    spec = yield from self.ev(v.format_spec, fr)
                parts.append(B.format_value(self, x, conv, spec))
        out = ""
        for p in parts:
            out = ops.binop("+", out, p) if (isinstance(p, Sym) or isinstance(out, Sym)) else out + p
        return out

    def ev_Subscript(self, e, fr):
        o = yield from self.ev(e.value, fr)
        k = yield from self.ev_index(e.slice, fr)
        return (yield from self.getitem(o, k))

    def ev_index(self, s, fr):
        if isinstance(s, ast.Slice):
            lo = (yield from self.ev(s.lower, fr)) if s.lower is not None else None
            hi = (yield from self.ev(s.upper, fr)) if s.upper is not None else None
            st = (yield from self.ev(s.step, fr)) if s.step is not None else None
            return slice(lo, hi, st)
        return (yield from self.ev(s, fr))

    def ev_Slice(self, e, fr):
        return (yield from self.ev_index(e, fr))

    def getitem(self, o, k):
        from . import builtins_ as B
        r = B.getitem(self, o, k)
        if hasattr(r, "__next__") and hasattr(r, "send"):
            return (yield from r)
        return r
        yield

    def setitem(self, o, k, v):
        from . import builtins_ as B
        r = B.setitem(self, o, k, v)
        if hasattr(r, "__next__") and hasattr(r, "send"):
            yield from r
        return
        yield

    def delitem(self, o, k):
        from . import builtins_ as B
        r = B.delitem(self, o, k)
        if hasattr(r, "__next__") and hasattr(r, "send"):
            yield from r
        return
        yield

    def ev_Call(self, e, fr):
        # super() without arguments
        if isinstance(e.func, ast.Name) and e.func.id == "super" and fr.lookup_frame("super") is None:
            if not e.args:
                if fr.cls is None:
                    raise EngineError("super() outside a method")
                first = fr.closure.node.args.args[0].arg
                return SuperProxy(fr.cls, fr.vars[first])
            c = yield from self.ev(e.args[0], fr)
            o = yield from self.ev(e.args[1], fr)
            return SuperProxy(c, o)
        f = yield from self.ev(e.func, fr)
        args = []
        for a in e.args:
            if isinstance(a, ast.Starred):
                v = yield from self.ev(a.value, fr)
                args.extend((yield from self.iterate(v)))
            else:
                args.append((yield from self.ev(a, fr)))
        kwargs = {}
        for kw in e.keywords:
            v = yield from self.ev(kw.value, fr)
            if kw.arg is None:
                if isinstance(v, dict):
                    for kk, vv in v.items():
                        if kk in kwargs:
                            self.raise_("TypeError", f"got multiple values for keyword argument '{kk}'")
                        kwargs[kk] = vv
                else:
                    for kk in (yield from self.iterate(v)):
                        kwargs[kk] = yield from self.getitem(v, kk)
            else:
                kwargs[kw.arg] = v
        self.cur_call_node = e
        return (yield from self.call(f, args, kwargs))

    def ev_Starred(self, e, fr):
        raise EngineError("starred expression outside call/display")
        yield

    # comprehensions (evaluated eagerly; generator expressions too - stated assumption A-GENEXP)
    def _comp(self, gens, fr, emit, i=0):
        if i == len(gens):
            yield from emit(fr)
            return
        g = gens[i]
        if i == 0 and hasattr(fr, "first_iter_value"):
            it = fr.first_iter_value
        else:
            it = yield from self.ev(g.iter, fr if i else fr.parent_for_first_iter)
        items = yield from self.iterate(it)
        pos = _ListIter(items)
        fr.ctx.append(("for", getattr(g.iter, "lineno", 0), pos))
        try:
            for x in items:
                pos.i += 1
                yield from self.assign(g.target, x, fr)
                ok = True
                for c in g.ifs:
                    cv = yield from self.ev(c, fr)
                    if not self.truth(cv, f"comp-if@L{c.lineno}"):
                        ok = False
                        break
                if ok:
                    yield from self._comp(gens, fr, emit, i + 1)
        finally:
            fr.ctx.pop()

    def _comp_frame(self, e, fr):
        loc = set()
        for g in e.generators:
            for n in ast.walk(g.target):
                if isinstance(n, ast.Name):
                    loc.add(n.id)
        cf = Frame(fr.closure, fr, loc, self)
        cf.module = fr.module
        cf.cls = fr.cls
        cf.cur_exc = fr.cur_exc
        cf.parent_for_first_iter = fr
        return cf

    def _generic_source(self, e, fr, cf):
        """evaluates the first iterable once; returns a GenericColl when the comprehension ranges over a
        collection of *arbitrary length* (one generic element stands for all of them), else None"""
        from .vals import GenericColl
        it = yield from self.ev(e.generators[0].iter, fr)
        if isinstance(it, Opaque) and it.spec.get("iter_generic") is not None:
            it = it.spec["iter_generic"](self, it)
        cf.first_iter_value = it
        if isinstance(it, GenericColl):
            if len(e.generators) != 1 or e.generators[0].ifs:
                raise EngineError("generic comprehension with filters / nested loops needs a contract")
            return it
        return None

    def ev_ListComp(self, e, fr):
        from .vals import GenericColl
        out = []
        cf = self._comp_frame(e, fr)
        gsrc = yield from self._generic_source(e, fr, cf)
        if gsrc is not None:
            yield from self.assign(e.generators[0].target, gsrc.elem, cf)
            v = yield from self.ev(e.elt, cf)
            return GenericColl("list", v, gsrc.source, gsrc)

        def emit(f):
            out.append((yield from self.ev(e.elt, f)))
        yield from self._comp(e.generators, cf, emit)
        return out

    def ev_GeneratorExp(self, e, fr):
        """a generator expression is a real (lazy) generator object; its first iterable is evaluated now"""
        cf = self._comp_frame(e, fr)
        first = yield from self.ev(e.generators[0].iter, fr)
        if isinstance(first, Opaque) and first.spec.get("iter_generic") is not None:
            return _ListIter((yield from self.ev_ListComp(e, fr)))
        cf.first_iter_value = first

        def body():
            def emit(f):
                v = yield from self.ev(e.elt, f)
                cf.loc = (e.lineno, e.col_offset)
                self.nyields += 1
                tok = yield ("Y", v)
                if tok[0] == "throw":
                    raise PyRaise(tok[1])
                if tok[0] == "close":
                    raise PyRaise(self.mkexc("GeneratorExit"))
            yield from self._comp(e.generators, cf, emit)
            return None
        return GenObj(self, cf, body, "<genexpr>")

    def ev_SetComp(self, e, fr):
        return self.make_set((yield from self.ev_ListComp(e, fr)))

    def ev_DictComp(self, e, fr):
        from .vals import GenericColl
        out = {}
        cf = self._comp_frame(e, fr)
        gsrc = yield from self._generic_source(e, fr, cf)
        if gsrc is not None:
            yield from self.assign(e.generators[0].target, gsrc.elem, cf)
            k = yield from self.ev(e.key, cf)
            v = yield from self.ev(e.value, cf)
            return GenericColl("dict", (k, v), gsrc.source, gsrc)

        def emit(f):
            k = yield from self.ev(e.key, f)
            v = yield from self.ev(e.value, f)
            self.check_hashable(k)
            out[k] = v
        yield from self._comp(e.generators, cf, emit)
        return out

    # ------------------------------------------------------------------ generators
    def ev_Yield(self, e, fr):
        v = None
        if e.value is not None:
            v = yield from self.ev(e.value, fr)
        fr.loc = (e.lineno, e.col_offset)
        self.nyields += 1
        tok = yield ("Y", v)
        return self.token_value(tok)

    def token_value(self, tok):
        if tok[0] == "send":
            return tok[1]
        if tok[0] == "throw":
            raise PyRaise(tok[1])
        if tok[0] == "close":
            raise PyRaise(self.mkexc("GeneratorExit"))
        raise EngineError(f"bad resume token {tok!r}")

    def ev_YieldFrom(self, e, fr):
        it = yield from self.ev(e.value, fr)
        fr.loc = (e.lineno, e.col_offset)
        return (yield from self.yield_from(it, fr))

    def yield_from(self, it, fr=None, event="Y"):
        """PEP 380.  While a frame is suspended in `yield from <sub-iterator>` the sub-iterator is recorded on the frame
        (`yf_delegate`): a sub-generator that is not bound to any variable (`yield from inner()`) is otherwise invisible to
        the canonical cut keys of a bisimulation (opt-in there: Bisim.deep_keys)"""
        g = yield from self.get_iter(it)
        if fr is None:
            return (yield from self._yield_from(g, event))
        saved = getattr(fr, "yf_delegate", None)
        fr.yf_delegate = g
        try:
            return (yield from self._yield_from(g, event))
        finally:
            fr.yf_delegate = saved

    def _yield_from(self, g, event):
        if not isinstance(g, (GenObj, AbsGen)):
            # plain iterator: yield each item, sends must be None
            while True:
                try:
                    x = yield from self.iter_next(g)
                except _IterStop:
                    return None
                self.nyields += 1
                tok = yield (event, x)
                if tok[0] == "throw":
                    raise PyRaise(tok[1])
                if tok[0] == "close":
                    raise PyRaise(self.mkexc("GeneratorExit"))
                if tok[1] is not None:
                    self.raise_("AttributeError", "'list_iterator' object has no attribute 'send'")
        out = self.gen_resume(g, ("send", None))
        while True:
            if out[0] == "return":
                return out[1]
            self.nyields += 1
            if out[0] == "await":
                tok = yield ("AWAIT", out[1])
            else:
                tok = yield (event, out[1])
            if tok[0] == "send":
                out = self.gen_resume(g, tok)
            elif tok[0] == "throw" and not self.exc_isinstance(tok[1], "GeneratorExit"):
                out = self.gen_resume(g, tok)
            else:
                # GeneratorExit (or subclass) thrown in, or close(): close the sub-iterator, then raise
                self.gen_resume(g, ("close",))
                if tok[0] == "throw":
                    raise PyRaise(tok[1])
                raise PyRaise(self.mkexc("GeneratorExit"))

    def gen_resume(self, g, tok):
        """send/throw/close on a generator object; StopIteration becomes ('return', v)"""
        return g.resume(tok)

    def ev_Await(self, e, fr):
        v = yield from self.ev(e.value, fr)
        fr.loc = (e.lineno, e.col_offset)
        saved = getattr(fr, "delegate", None)
        fr.delegate = v if isinstance(v, (GenObj, AbsGen)) else None      # visible to canonical keys of suspended tasks
        try:
            return (yield from self.await_value(v, e))
        finally:
            fr.delegate = saved

    def await_value(self, v, node=None):
        if isinstance(v, GenObj) and v.is_coro:
            if v.started:
                self.raise_("RuntimeError", "cannot reuse already awaited coroutine")
            return (yield from self.yield_from(v, None, event="AWAIT"))
        from .vals import Ready
        if isinstance(v, Ready):
            # an awaitable whose contract says `suspends: never`: completes at once (DESIGN 2.6 item 1)
            if v.exc is not None:
                raise PyRaise(v.exc)
            return v.value
        # anything else is an abstract awaitable: the scheduler (harness) decides the outcome
        self.nyields += 1
        tok = yield ("AWAIT", (v, getattr(node, "lineno", None)))
        return self.token_value(tok)

    # ------------------------------------------------------------------ iteration
    def get_iter(self, v):
        if isinstance(v, (GenObj, AbsGen, _ListIter, _LiveIter)):
            return v
        from .vals import SymRange, SymRangeIter
        if isinstance(v, SymRangeIter):
            return v
        if isinstance(v, SymRange):
            it = SymRangeIter(v)
            self.w.ghost.setdefault("$symiters", []).append(it)
            return it
        if hasattr(v, "pyvc_next"):
            return v
        from .builtins_ import _KeysView, _DictView
        if isinstance(v, (_KeysView, _DictView)):
            return _DictIter(v.d, getattr(v, "kind", "keys"))
        if isinstance(v, (list, tuple, collections.deque)):
            return _LiveIter(v)
        if isinstance(v, dict):
            return _DictIter(v, "keys")
        if isinstance(v, set):
            return _DictIter(v, "set")
        if isinstance(v, (frozenset, range, str, bytes)):
            return _ListIter(list(v))
        from .vals import SymSet
        if isinstance(v, SymSet):
            return _ListIter(list(v.items))
        if isinstance(v, MsgVal):
            return _ListIter(list(v.astuple()))
        if isinstance(v, Obj):
            r = v.cls.lookup("__iter__")
            if r and r[1] == "method":
                it = yield from self.call(BoundMethod(self.method_closure(r[0], r[2]), v), [], {})
                return (yield from self.get_iter(it)) if not isinstance(it, Obj) else it
            r = v.cls.lookup("__next__")
            if r:
                return v
        from . import builtins_ as B
        r = B.special_iter(self, v)
        if r is not NotImplemented:
            return r
        self.raise_("TypeError", f"'{type(v).__name__}' object is not iterable")
        yield

    def iter_next(self, itr):
        """next(itr) -> value; raises _IterStop at exhaustion (host-level, not object-level)"""
        if isinstance(itr, (_ListIter, _LiveIter)):
            return itr.next()
        from .vals import SymRangeIter
        if isinstance(itr, SymRangeIter):
            if itr.exhausted:
                raise _IterStop()
            if itr.rng.stop is not None:
                more = ops.compare("<", itr.pos, itr.rng.stop)
                if not self.truth(more, "range has a next element"):
                    itr.exhausted = True
                    raise _IterStop()
            v = itr.pos
            itr.pos = ops.binop("+", itr.pos, 1)
            return v
        if hasattr(itr, "pyvc_next"):
            return itr.pyvc_next(self)
        if isinstance(itr, (GenObj, AbsGen)):
            out = itr.resume(("send", None))
            if out[0] == "yield":
                return out[1]
            if out[0] == "return":
                raise _IterStop(out[1])
            raise EngineError("await event while iterating a generator")
        if isinstance(itr, Obj):
            r = itr.cls.lookup("__next__")
            try:
                return (yield from self.call(BoundMethod(self.method_closure(r[0], r[2]), itr), [], {}))
            except PyRaise as pr:
                if self.exc_isinstance(pr.exc, "StopIteration"):
                    raise _IterStop(None)
                raise
        raise EngineError(f"iter_next on {itr!r}")
        yield

    def iterate(self, v):
        """list of all items (host generator)"""
        if isinstance(v, (list, tuple)):
            return list(v)
        itr = yield from self.get_iter(v)
        out = []
        while True:
            try:
                out.append((yield from self.iter_next(itr)))
            except _IterStop:
                return out
            if len(out) > 100000:
                raise EngineError("unbounded iteration")


class _IterStop(Exception):
    def __init__(self, value=None):
        self.value = value


class _ListIter:
    def __init__(self, items):
        self.items = list(items)
        self.i = 0

    def next(self):
        if self.i >= len(self.items):
            raise _IterStop()
        self.i += 1
        return self.items[self.i - 1]


class _DictIter(_ListIter):
    """iterator over a live dict (its keys / values / items view) or set.  Like CPython's it follows the container and raises
    RuntimeError at the first next() after the container's size has changed - the check comes before the exhaustion test, so
    a change made while the last element is being processed is reported too.  A change of the key set that keeps the size is
    not modelled (CPython's behaviour then depends on the hash table's layout): EngineError."""

    def __init__(self, d, kind):
        self.d, self.kind = d, kind
        self.items = list(d)
        self.i = 0
        self.n0 = len(d)
        self.done = False

    def next(self):
        if self.done:
            raise _IterStop()
        if len(self.d) != self.n0:
            self.n0 = -1
            what = "Set" if self.kind == "set" else "dictionary"
            raise PyRaise(Obj(BUILTIN_CLASSES["RuntimeError"], {"args": (f"{what} changed size during iteration",), "__cause__": None}))
        if self.i >= len(self.items):
            self.done = True
            raise _IterStop()
        k = self.items[self.i]
        if k not in self.d:
            raise EngineError("the keys of a dict / set changed during its iteration while its size did not: not modelled")
        self.i += 1
        if self.kind == "values":
            return self.d[k]
        if self.kind == "items":
            return (k, self.d[k])
        return k

    def canon(self, cn):
        return ("iter", self.i, len(self.items))


class _LiveIter:
    """iterator over a live list/deque (sees mutations, like CPython's list iterator)"""

    def __init__(self, seq):
        self.seq = seq
        self.i = 0
        self.n0 = len(seq)

    def next(self):
        if isinstance(self.seq, collections.deque) and len(self.seq) != self.n0:
            raise PyRaise(_DEQUE_MUT)
        if self.i >= len(self.seq):
            raise _IterStop()
        self.i += 1
        return self.seq[self.i - 1]


_DEQUE_MUT = Obj(BUILTIN_CLASSES["RuntimeError"], {"args": ("deque mutated during iteration",), "__cause__": None})

_BINOPS = {ast.Add: "+", ast.Sub: "-", ast.Mult: "*", ast.Div: "/", ast.FloorDiv: "//", ast.Mod: "%",
           ast.Pow: "**", ast.BitOr: "|", ast.BitAnd: "&", ast.BitXor: "^", ast.LShift: "<<", ast.RShift: ">>",
           ast.MatMult: "@"}
