"""Trace contracts for generators by lock-step bisimulation (DESIGN 2.5, A.6, A.7).

The real generator function and a reference generator (plain Python in the contract file, run by the same
interpreter) are driven by the same symbolic driver script; abstract sub-generators answer from one shared
oracle.  Obligations: equal sub-generator call logs and equal outcomes at every step.  Paths are closed
co-inductively at joint yield points whose canonical state has been seen before (only beyond the replayed
prefix of the decision vector - see DESIGN A.11 lesson 1)."""
import ast
import collections
import os
import sys

from .source import EngineError, BUILTIN_CLASSES, ClassInfo, ModuleInfo
from .vals import Sym, Obj, Opaque, MsgVal, Closure, BoundMethod, Builtin, ExternalRef, HostMethod
from .interp import GenObj, AbsGen, PyRaise, Frame, RetSig, BreakSig, ContinueSig
from .world import PathEnd
from . import ops

ABS_EXC = ClassInfo("SomeException", bases=[BUILTIN_CLASSES["Exception"]], builtin=True)
ABS_GEN_EXIT = ClassInfo("SomeGeneratorExitSubclass", bases=[BUILTIN_CLASSES["GeneratorExit"]], builtin=True)
# a BaseException that is neither an Exception nor a GeneratorExit (KeyboardInterrupt, SystemExit, asyncio.CancelledError - the RunEngine
# does throw the latter into plans); opt-in per bisimulation through throw_classes
ABS_BASE_EXC = ClassInfo("SomeNonExceptionBaseException", bases=[BUILTIN_CLASSES["BaseException"]], builtin=True)


class LoopHead:
    """marker yielded at the head of a `for` loop over a harness collection of arbitrary length (the iterator carries it
    as `pyvc_loop_head`); both sides of a bisimulation must reach the same marker object"""

    def __init__(self, name):
        self.name = name

    def __repr__(self):
        return f"<loop head {self.name}>"

    def canon(self, cn):
        return ("loop-head", self.name)


class Oracle:
    """outcomes of abstract sub-generators, keyed by (generator name, interaction index); shared by both sides"""

    def __init__(self, w, msg_factory=None, value_factory=None, allow_reyield=True, exc_classes=None):
        self.w = w
        self.table = {}
        self.msg_factory = msg_factory
        self.value_factory = value_factory
        self.allow_reyield = allow_reyield
        self.exc_classes = exc_classes or [ABS_EXC]

    def new_gen(self, name, side):
        g = AbsGen(name, self, self.w)
        g.side = side
        g.log = side.log
        g.last_msg = None
        return g

    def step(self, g, tok):
        w = self.w
        I = g.side.interp
        payload = tok[1] if len(tok) > 1 else None
        if not g.started and not g.done and tok[0] != "send":
            # throw()/close() on a generator that never started runs none of its code: unobservable, not logged
            g.done = True
            if tok[0] == "throw":
                raise PyRaise(payload)
            return ("return", None)
        g.log.append((g.name, g.k, tok[0], payload))
        if g.done:
            if tok[0] == "send":
                raise PyRaise(I.mkexc("StopIteration"))
            if tok[0] == "throw":
                raise PyRaise(payload)
            return ("return", None)
        closing = tok[0] == "close" or (tok[0] == "throw" and isinstance(payload, Obj) and payload.cls.issubclass(BUILTIN_CLASSES["GeneratorExit"]))
        if tok[0] == "send" and not g.started and payload is not None:
            raise PyRaise(I.mkexc("TypeError", "can't send non-None value to a just-started generator"))
        key = (g.name, g.k)
        g.k += 1
        if key not in self.table:
            if not g.started and tok[0] != "send":
                opts = ["raise_same"]           # throw()/close() on an unstarted generator runs no code
            elif closing:
                # does not yield while being closed (precondition); it may re-raise, finish, or raise something else
                # from its own cleanup code
                opts = ["raise_same", "return", "raise"]
            else:
                opts = ["yield", "return", "raise"]
                if tok[0] == "throw":
                    opts.append("raise_same")
                if self.allow_reyield and g.last_msg is not None:
                    opts.append("reyield")
            flt = getattr(self, "opt_filter", None)
            if flt is not None:
                opts = flt(g, tok, opts)       # preconditions on the abstract generators (stated in the contract)
            kind = w.choose(opts, f"{g.name}#{key[1]} on {tok[0]}")
            val = None
            if kind == "yield":
                val = self.msg_factory(w, g.name, key[1]) if self.msg_factory else Opaque(w.fresh(f"m_{g.name}"), {"token": "msg"})
            elif kind == "return":
                val = self.value_factory(w, g.name, key[1]) if self.value_factory else Opaque(w.fresh(f"r_{g.name}"), {"token": "ret"})
            elif kind == "raise":
                cls = self.exc_classes[0] if len(self.exc_classes) == 1 else w.choose(self.exc_classes, f"{g.name}#{key[1]} exception class")
                val = Obj(cls, {"args": (), "__cause__": None}, label=w.fresh(f"e_{g.name}"))
            self.table[key] = (kind, val)
        kind, val = self.table[key]
        g.started = True
        if kind == "yield":
            g.last_msg = val
            return ("yield", val)
        if kind == "reyield":
            return ("yield", g.last_msg)
        g.done = True
        if kind == "return":
            if tok[0] == "close":
                return ("return", None)
            return ("return", val)
        if kind == "raise":
            raise PyRaise(val)
        # raise_same
        if tok[0] == "throw":
            raise PyRaise(payload)
        if tok[0] == "close":
            return ("return", None)
        # the other side threw/closed at this interaction while this side sends: the call logs already differ here
        # (reported by the trace obligation); finish the generator so that the comparison can be made
        return ("return", None)


class Side:
    def __init__(self, interp, name):
        self.interp = interp
        self.name = name
        self.log = []
        self.gen = None
        self.counters = {}


# ------------------------------------------------------------------------------------------- canonical forms
class Canon:
    def __init__(self, w):
        self.ren = {}
        self.w = w
        self.stack = set()
        self.exclude = set()
        self.filters = {}

    def name(self, obj, prefix):
        k = id(obj)
        if k not in self.ren:
            self.ren[k] = f"{prefix}#{len(self.ren)}"
        return self.ren[k]

    def c(self, v):
        if v is None or isinstance(v, (bool, int, float, str, bytes)):
            return v
        if isinstance(v, Sym):
            import z3
            if z3.is_const(v.t) and v.t.decl().kind() == z3.Z3_OP_UNINTERPRETED:
                k = ("symconst", v.t.sexpr())        # fresh symbols are renamed by first occurrence, like tokens
                if k not in self.ren:
                    self.ren[k] = f"sym#{len(self.ren)}"
                return self.ren[k]
            # compound term: rename the uninterpreted constants inside it by first occurrence
            consts = []

            def walk(t):
                if z3.is_const(t) and t.decl().kind() == z3.Z3_OP_UNINTERPRETED:
                    if all(not c.eq(t) for c in consts):
                        consts.append(t)
                for ch in t.children():
                    walk(ch)
            walk(v.t)
            subs = []
            for c in consts:
                kk = ("symconst", c.sexpr())
                if kk not in self.ren:
                    self.ren[kk] = f"sym#{len(self.ren)}"
                subs.append((c, z3.Const(self.ren[kk], c.sort())))
            return ("sym", z3.substitute(v.t, *subs).sexpr() if subs else v.t.sexpr())
        if isinstance(v, tuple):
            if len(v) == 2 and v[0] == "$id":
                obj = self.w.ghost.get("$ids", {}).get(v[1])
                return ("id", self.c(obj) if obj is not None else v[1])
            return ("t",) + tuple(self.c(x) for x in v)
        if isinstance(v, (list, collections.deque)):
            return ("l",) + tuple(self.c(x) for x in v)
        if isinstance(v, dict):
            return ("d",) + tuple((self.c(k), self.c(x)) for k, x in v.items())
        if isinstance(v, (set, frozenset)):
            return ("s",) + tuple(sorted((repr(self.c(x)) for x in v)))
        if isinstance(v, MsgVal):
            return ("msg", self.c(v.astuple()))
        if isinstance(v, Opaque):
            if "$model" in v.attrs:
                return v.attrs["$model"].canon(self)
            if v.spec.get("token"):
                return self.name(v, v.spec["token"])
            return ("opaque", v.name)
        if isinstance(v, AbsGen):
            return ("absgen", getattr(v, "canon_name", v.name), v.started, v.done, self.c(v.last_msg) if v.last_msg is not None else None)
        if isinstance(v, GenObj):
            if id(v) in self.stack:
                return ("gen-cycle", v.name)
            self.stack.add(id(v))
            try:
                return ("gen", v.name, v.started, v.done, self.frame(v.frame) if v.started and not v.done else None)
            finally:
                self.stack.discard(id(v))
        if isinstance(v, Obj):
            if id(v) in self.stack:
                return ("obj-cycle", v.cls.name)
            if v.cls.issubclass(BUILTIN_CLASSES["BaseException"]) and v.label:
                return self.name(v, "exc:" + v.cls.name)
            if getattr(self, "share", False) and not v.cls.issubclass(BUILTIN_CLASSES["BaseException"]):
                # whole-configuration keys: an object is described at its first occurrence and referred to by name afterwards
                if id(v) in self.ren:
                    return self.ren[id(v)]
                nm = self.name(v, "obj:" + v.cls.name)
                ex = getattr(self, "obj_exclude", ())
                flt = getattr(self, "attr_filters", {})
                return (nm, tuple((k, self.c(flt[k](x) if k in flt else x)) for k, x in sorted(v.attrs.items())
                                  if not k.startswith("$") and k not in ex))
            self.stack.add(id(v))
            try:
                ex = getattr(self, "obj_exclude", ())
                flt = getattr(self, "attr_filters", {})
                return ("obj", v.cls.name, tuple((k, self.c(flt[k](x) if k in flt else x)) for k, x in sorted(v.attrs.items())
                                                 if not k.startswith("$") and k not in ex))
            finally:
                self.stack.discard(id(v))
        if isinstance(v, Closure):
            return ("fn", v.qualname)
        if isinstance(v, BoundMethod):
            return ("bm", self.c(v.func), self.c(v.self_obj))
        if isinstance(v, (Builtin, ExternalRef, ClassInfo)):
            return ("glob", repr(v))
        if isinstance(v, HostMethod):
            return ("hm", v.name, self.c(v.obj))
        if hasattr(v, "canon"):
            return v.canon(self)
        if type(v).__name__ == "SymRangeIter":
            return ("symiter", self.c(v.pos), self.c(v.rng.stop), v.exhausted)
        if type(v).__name__ == "SymRange":
            return ("symrange", self.c(v.start), self.c(v.stop))
        if type(v).__name__ in ("_ListIter", "_LiveIter"):
            return ("iter", v.i, len(v.items) if hasattr(v, "items") else len(v.seq))
        if callable(v) and getattr(v, "_pyvc_native", False):
            return ("native", getattr(v, "_canon_label", getattr(v, "__name__", "?")))
        if type(v).__name__ == "OpaqueMethod":
            return ("om", v.name, self.c(v.obj))
        if type(v).__name__ == "method" and hasattr(v, "__self__"):       # bound method of a host-side model object
            return ("hostbm", v.__func__.__qualname__, self.c(v.__self__))
        if type(v).__name__ == "function":
            cells = []
            for cell in (v.__closure__ or ()):
                try:
                    x = cell.cell_contents
                except ValueError:
                    continue
                if hasattr(x, "canon") or isinstance(x, (Obj, Opaque, GenObj, AbsGen, str, int, bool, type(None))):
                    cells.append(self.c(x))
            return ("hostfn", getattr(v, "_canon_label", v.__qualname__), tuple(cells))
        if type(v).__name__ == "object":
            return self.name(v, "sentinel")
        return ("host", type(v).__name__, repr(v))

    def frame(self, fr, exclude=()):
        if fr is None:
            return None
        loc = fr.loc
        items = []
        qn = fr.closure.qualname if fr.closure else None
        for k in sorted(fr.vars):
            if k in exclude or k in getattr(fr, "canon_exclude", ()) or (qn, k) in self.exclude:
                continue
            val = fr.vars[k]
            flt = self.filters.get((qn, k))
            if flt is not None:
                val = flt(self, val)
            items.append((k, self.c(val)))
        ctx = tuple(self.ctx(x) for x in getattr(fr, "ctx", []))
        dl = getattr(fr, "delegate", None)
        if dl is not None:
            ctx = ctx + (("delegate", self.c(dl)),)
        if getattr(self, "deep", False):
            # the sub-iterator a frame is suspended on in `yield from` (interp.yield_from): without it the state of a
            # sub-generator that no variable refers to (`yield from inner()`) is not part of the cut key
            yf = getattr(fr, "yf_delegate", None)
            if yf is not None:
                ctx = ctx + (("yield-from", self.c(yf)),)
        return ("frame", fr.closure.qualname if fr.closure else None, loc, tuple(items), ctx)

    def ctx(self, x):
        return (x[0], x[1], self.c(x[2]))


def same(I, a, b):
    """are two outcome payloads the same object-language value?  identity for tokens / exceptions / generators,
    structure for messages and containers built independently by the two sides"""
    if a is b:
        return True
    if isinstance(a, MsgVal) and isinstance(b, MsgVal):
        return same(I, a.astuple(), b.astuple())
    if isinstance(a, (tuple, list)) and isinstance(b, (tuple, list)) and type(a) is type(b):
        if len(a) != len(b):
            return False
        return ops.and_(*[same(I, x, y) for x, y in zip(a, b)])
    if isinstance(a, dict) and isinstance(b, dict):
        if list(a.keys()) != list(b.keys()):
            if set(map(repr, a.keys())) != set(map(repr, b.keys())):
                return False
        return ops.and_(*[same(I, a[k], b[k]) for k in a if k in b]) if all(k in b for k in a) else False
    if isinstance(a, (Opaque, AbsGen, GenObj, Closure)) or isinstance(b, (Opaque, AbsGen, GenObj, Closure)):
        return False
    if isinstance(a, Obj) and isinstance(b, Obj):
        if a.cls.issubclass(BUILTIN_CLASSES["BaseException"]) and a.cls is b.cls and not a.label and not b.label:
            # exceptions constructed by the code itself on both sides: same class (message texts are not part
            # of a trace contract, so that rewording a message is not reported)
            return True
        return False
    if isinstance(a, (Sym, int, float, str, bool)) and isinstance(b, (Sym, int, float, str, bool)):
        return ops.eq(a, b)
    if isinstance(a, (set, frozenset)) and isinstance(b, (set, frozenset)):
        return a == b
    return a == b if type(a) is type(b) else False


def describe(v):
    if isinstance(v, Obj) and v.cls.issubclass(BUILTIN_CLASSES["BaseException"]):
        return f"{v.cls.name}({v.label or ', '.join(map(repr, v.attrs.get('args', ())))})"
    return repr(v)


def log_same(I, la, lb):
    if len(la) != len(lb):
        return False
    res = True
    for x, y in zip(la, lb):
        if x[0] != y[0] or x[1] != y[1] or x[2] != y[2]:
            return False
        res = ops.and_(res, same(I, x[3], y[3]))
    return res


_SEEN = {}


class Bisim:
    """cfg: name (obligation prefix), driver (list of token kinds), throw_classes, max_steps"""

    def __init__(self, I, name, driver=("send", "send_falsy", "throw", "close", "throw_genexit"), throw_classes=None,
                 value_factory=None, msg_factory=None, max_steps=60, allow_reyield=True, exc_classes=None,
                 canon_exclude=(), replay=None, first_send_none=True, cfg=None):
        self.I = I
        self.w = I.w
        self.name = name
        self.driver = list(driver)
        self.throw_classes = throw_classes or [ABS_EXC]
        self.max_steps = max_steps
        self.oracle = Oracle(I.w, msg_factory=msg_factory, value_factory=value_factory, allow_reyield=allow_reyield,
                             exc_classes=exc_classes)
        self.impl = Side(I, "impl")
        self.ref = Side(I, "ref")
        self.canon_exclude = tuple(canon_exclude)
        self.replay = replay
        self.cfg = cfg
        self.script = []
        self.current = self.impl
        self.shared_values = {}
        self.send_factory = None      # (w, last yielded value) -> value to send (default: a fresh opaque token)
        I.w.stubs["uuid.uuid4"] = lambda I_, a, k: self.fresh_shared("uuid", lambda n: Opaque(f"uuid{n}", {"token": "uuid", "isinstance_default": False}))

        def mk_time(n):
            t = I.w.real("time", fresh=True)          # A-TIME: arbitrary but monotone wall clock, same on both sides
            prev = self.shared_values.get("time", [])
            if prev:
                I.w.add(ops.compare(">=", t, prev[-1]))
            I.w.assumptions.add("A-TIME: wall clock arbitrary but monotone")
            return t
        I.w.stubs["time.time"] = lambda I_, a, k: self.fresh_shared("time", mk_time)

    def absgen_pair(self, name):
        """the 'same' abstract generator as seen by the implementation and by the reference"""
        return self.oracle.new_gen(name, self.impl), self.oracle.new_gen(name, self.ref)

    def info(self, why):
        d = self._info(why)
        d["messages"] = {f"{k[0]}#{k[1]}": [v[1].command, getattr(v[1].obj, "name", None)]
                         for k, v in self.oracle.table.items() if isinstance(v[1], MsgVal)}
        extra = getattr(self, "extra", None)
        if extra is not None:
            d.update(extra())
        return d

    def _info(self, why):
        return {"replay": self.replay, "why": why, "script": list(self.script), "cfg": self.cfg,
                "oracle": {f"{k[0]}#{k[1]}": v[0] for k, v in self.oracle.table.items()}}

    def fresh_shared(self, kind, make):
        """k-th value of `kind` requested on each side is the same object (uuids, time stamps ...): the two sides
        correspond as long as they request such values in the same order"""
        side = self.current
        n = side.counters.get(kind, 0)
        side.counters[kind] = n + 1
        tab = self.shared_values.setdefault(kind, [])
        while len(tab) <= n:
            tab.append(make(len(tab)))
        return tab[n]

    def outcome(self, side, tok):
        self.current = side
        try:
            out = side.gen.resume(tok)
        except PyRaise as pr:
            return ("raise", pr.exc)
        if tok[0] == "close":
            return ("closed", None)
        return out

    def run(self, impl_gen, ref_gen):
        I, w = self.I, self.w
        self.impl.gen, self.ref.gen = impl_gen, ref_gen
        seen = _SEEN.setdefault((w.task_name, self.name), set())
        tok = ("send", None)
        self.script.append("send(None)")
        steps = 0
        while True:
            steps += 1
            if steps > self.max_steps:
                raise EngineError(f"bisimulation {self.name}: no cut point closed after {self.max_steps} steps (needs a cut invariant)")
            oi = self.outcome(self.impl, tok)
            orr = self.outcome(self.ref, tok)
            lg = log_same(I, self.impl.log, self.ref.log)
            if lg is not True:
                ok = w.check(f"{self.name}#trace[same calls on the wrapped generators]", lg,
                             self.info(f"impl log {self._fmtlog(self.impl.log)} vs reference {self._fmtlog(self.ref.log)}"))
                if not ok:
                    return
            else:
                w.ok(f"{self.name}#trace[same calls on the wrapped generators]")
            if oi[0] != orr[0]:
                w.fail(f"{self.name}#outcome[same yield / return / raise at every step]",
                       self.info(f"implementation: {oi[0]} {describe(oi[1])}; reference: {orr[0]} {describe(orr[1])}"))
                return
            sm = same(I, oi[1], orr[1])
            if sm is not True:
                ok = w.check(f"{self.name}#outcome[same yield / return / raise at every step]", sm,
                             self.info(f"implementation: {oi[0]} {describe(oi[1])}; reference: {orr[0]} {describe(orr[1])}"))
                if not ok:
                    return
            else:
                w.ok(f"{self.name}#outcome[same yield / return / raise at every step]")
            if oi[0] != "yield":
                w.cover(f"{self.name}: terminated by {oi[0]}")
                return
            # joint yield: cut point
            if getattr(self, "generalize_counters", False):
                self._havoc_counters()
            cn = Canon(w)
            # cut keys follow `yield from` into sub-generators that no variable refers to (default; a bisimulation may opt out with
            # deep_keys = False and must then say so in its assumptions; PYVC_DEEP_KEYS=0/1 overrides for experiments)
            env_deep = os.environ.get("PYVC_DEEP_KEYS")
            cn.deep = (env_deep == "1") if env_deep in ("0", "1") else getattr(self, "deep_keys", True)
            cn.exclude = set(self.canon_exclude)      # (function qualname, local name) pairs abstracted away by a cut invariant
            for side in (self.impl, self.ref):
                fr = getattr(side.gen, "frame", None)
                qn_ = fr.closure.qualname if fr is not None and fr.closure else None
                for (q_, var) in getattr(self, "dead_stacks", ()):
                    if q_ == qn_ and var in fr.vars:
                        # cut invariant "all current entries of this stack are dead": checked dynamically (a pop that
                        # reaches below the recorded floor is an engine error), and the stack is left out of the key
                        w.ghost.setdefault("$floors", {})[id(fr.vars[var])] = len(fr.vars[var])
                        cn.exclude.add((q_, var))
            cn.filters = dict(getattr(self, "canon_filters", {}))
            key = (cn.c(oi[1]), self._side_key(cn, self.impl), self._side_key(cn, self.ref))
            if not w.ch.replaying:
                if key in seen:
                    w.cover(f"{self.name}: closed at an established cut point")
                    return
                seen.add(key)
            if isinstance(oi[1], LoopHead):
                # joint loop head of a loop over a harness collection of arbitrary length (interp.ex_For): a cut point
                # (loop invariant), not a real yield - the driver cannot intervene here
                tok = ("send", None)
                self.script.append("(loop head)")
                continue
            kind = w.choose(self.driver, "driver")
            if kind == "send":
                if self.send_factory is not None:
                    v, label = self.send_factory(w, oi[1])
                else:
                    v, label = Opaque(w.fresh("v"), {"token": "sent"}), "v"
                tok = ("send", v)
                self.script.append(f"send({label})")
            elif kind == "send_falsy":
                # a response that is falsy (None, 0, {}, '' ...): identity token whose truth value is False
                v = Opaque(w.fresh("vf"), {"token": "sentF", "truth": False, "isinstance_default": False})
                tok = ("send", v)
                self.script.append("send(falsy)")
            elif kind == "throw":
                cls = self.throw_classes[0] if len(self.throw_classes) == 1 else w.choose(self.throw_classes, "thrown class")
                e = Obj(cls, {"args": (), "__cause__": None}, label=w.fresh("thrown"))
                tok = ("throw", e)
                self.script.append(f"throw({cls.name})")
            elif kind == "close":
                tok = ("close",)
                self.script.append("close()")
            elif kind == "throw_genexit":
                e = Obj(ABS_GEN_EXIT, {"args": (), "__cause__": None}, label=w.fresh("halt"))
                tok = ("throw", e)
                self.script.append("throw(GeneratorExit subclass)")
            else:
                raise EngineError(kind)

    def _havoc_counters(self):
        """loop invariant at a cut point inside `for i in range(a, b)` with symbolic bounds: the iterator position is
        replaced by a fresh symbol K with  (position reached on this path) <= K <= b  and the loop variable by K-1.
        This is a superset of the states reachable by further iterations, so the step explored from here covers every
        later iteration; iterators of the two sides that are provably at the same position get the same K."""
        import z3
        from .vals import to_int_term
        w = self.w
        its = [it for it in w.ghost.get("$symiters", []) if not it.exhausted and it.owner is not None]
        groups = []
        for it in its:
            for g in groups:
                same_pos = ops.eq(g[0].pos, it.pos)
                if same_pos is True or (same_pos is not False and not w.feasible(ops.not_(same_pos))):
                    g.append(it)
                    break
            else:
                groups.append([it])
        for g in groups:
            k = w.int("K", fresh=True)
            w.add(ops.compare(">=", k, g[0].pos))
            for it in g:
                fr, var = it.owner
                if var not in fr.vars:
                    raise EngineError("counter generalisation: loop variable not bound at the cut point")
                rel = ops.eq(fr.vars[var], ops.binop("-", it.pos, 1))
                if not (rel is True or (rel is not False and not w.feasible(ops.not_(rel)))):
                    raise EngineError("counter generalisation: loop variable is not (iterator position - 1) at the cut point")
            for it in g:
                if it.rng.stop is not None:
                    w.add(ops.compare("<=", k, it.rng.stop))
                it.pos = k
                fr, var = it.owner
                fr.vars[var] = ops.binop("-", k, 1)

    def _side_key(self, cn, side):
        g = side.gen
        return cn.c(g)

    def _fmtlog(self, log):
        return [(n, k, t, describe(p)) for n, k, t, p in log][-6:]


def reference_module(P, name, source):
    """registers contract-side reference code as a virtual module so the same interpreter can run it"""
    if name in P.modules:
        return P.modules[name]
    m = ModuleInfo.__new__(ModuleInfo)
    m.name = name
    m.path = f"<contract:{name}>"
    m.sha256 = ""
    m.text = source
    m.tree = ast.parse(source)
    m.defs = {}
    m.classes = {}
    m._index(m.tree.body)
    P.modules[name] = m
    return m
