"""Assumed contracts for standard-library callables used by the carriers (DESIGN 3).
Each stub is a host function (interp, args, kwargs) -> value.  They are installed in every World;
a contract file may override or extend them.  Every stub used is part of the trusted base."""
import collections
import itertools

import z3

from .source import EngineError, BUILTIN_CLASSES
from .vals import Sym, Obj, Opaque, Closure, BoundMethod, ExternalRef, MsgVal
from .builtins_ import native
from . import ops


class PartialVal:
    def __init__(self, f, args, kwargs):
        self.f, self.args, self.kwargs = f, list(args), dict(kwargs)
        self._pyvc_native = True

    def __call__(self, I, args, kwargs):
        kw = dict(self.kwargs)
        kw.update(kwargs)
        return I.call(self.f, self.args + list(args), kw)


def _partial(I, a, k):
    return PartialVal(a[0], a[1:], k)


def _lock(I, a, k):
    return Opaque(I.w.fresh("lock"), {"ctx": "transparent", "methods": {"locked": lambda I_, o, a_, k_: True, "acquire": lambda I_, o, a_, k_: True,
                                                  "release": lambda I_, o, a_, k_: None},
                                      "isinstance_default": False})


def _copy(I, a, k):
    """copy.copy: new top-level container sharing the children"""
    v = a[0]
    if isinstance(v, dict):
        return type(v)(v) if not isinstance(v, collections.defaultdict) else v.copy()
    if isinstance(v, list):
        return list(v)
    if isinstance(v, set):
        return set(v)
    if isinstance(v, collections.deque):
        return collections.deque(v, v.maxlen)
    if isinstance(v, Obj):
        return Obj(v.cls, dict(v.attrs), v.label)
    if isinstance(v, Opaque):
        h = v.spec.get("copy")
        if h is not None:
            return h(I, v)
        raise EngineError(f"copy.copy of opaque {v!r} not specified")
    return v


def deepcopy_value(I, v, memo=None):
    """copy.deepcopy: disjoint isomorphic heap for containers; scalars and opaque leaves shared
    (opaque leaves stand for immutable payloads unless the harness says otherwise)"""
    memo = {} if memo is None else memo
    if id(v) in memo:
        return memo[id(v)]
    if isinstance(v, dict):
        out = type(v)() if not isinstance(v, collections.defaultdict) else collections.defaultdict(v.default_factory)
        memo[id(v)] = out
        for kk, vv in v.items():
            out[deepcopy_value(I, kk, memo)] = deepcopy_value(I, vv, memo)
        return out
    if isinstance(v, list):
        out = []
        memo[id(v)] = out
        out.extend(deepcopy_value(I, x, memo) for x in v)
        return out
    if isinstance(v, tuple) and not isinstance(v, MsgVal):
        return tuple(deepcopy_value(I, x, memo) for x in v)
    if isinstance(v, set):
        return set(v)
    if isinstance(v, Obj) and not v.cls.issubclass(BUILTIN_CLASSES["BaseException"]):
        out = Obj(v.cls, {}, v.label)
        memo[id(v)] = out
        for kk, vv in v.attrs.items():
            out.attrs[kk] = deepcopy_value(I, vv, memo)
        return out
    if isinstance(v, Opaque):
        h = v.spec.get("deepcopy")
        if h is not None:
            out = h(I, v)
            memo[id(v)] = out
            return out
    return v


def _deepcopy(I, a, k):
    return deepcopy_value(I, a[0])


def _deque(I, a, k):
    items = I.run(I.iterate(a[0])) if a else []
    maxlen = a[1] if len(a) > 1 else k.get("maxlen")
    return collections.deque(items, maxlen)


def _ordereddict(I, a, k):
    d = collections.OrderedDict()
    if a:
        src = a[0]
        if isinstance(src, dict):
            d.update(src)
        else:
            for kv in I.run(I.iterate(src)):
                kk, vv = I.run(I.iterate(kv))
                d[kk] = vv
    d.update(k)
    return d


def _defaultdict(I, a, k):
    d = collections.defaultdict(None)
    d.default_factory = a[0] if a else None
    if len(a) > 1:
        d.update(a[1])
    return d


def _chainmap(I, a, k):
    """collections.ChainMap(m1, m2, ...): modelled as the merged dict with earlier maps taking precedence (valid as long
    as the maps are not mutated between construction and use; assumption stated in the contracts that rely on it)"""
    out = {}
    for m in reversed(a):
        out.update(m)
    return out


def _chain(I, a, k):
    from .interp import _ListIter
    out = []
    for x in a:
        out.extend(I.run(I.iterate(x)))
    return _ListIter(out)


def _chain_from_iterable(I, a, k):
    from .interp import _ListIter
    out = []
    for x in I.run(I.iterate(a[0])):
        out.extend(I.run(I.iterate(x)))
    return _ListIter(out)


class CountIter:
    """itertools.count: concrete counter object"""

    def __init__(self, start=0, step=1):
        self.n = start
        self.step = step


def _count(I, a, k):
    from .vals import SymRange
    start = a[0] if a else k.get("start", 0)
    return SymRange(start, None)          # unbounded counter: a range without an upper bound


class RepeatIter:
    """itertools.repeat(x): yields x forever"""

    def __init__(self, value):
        self.value = value

    def pyvc_next(self, I):
        return self.value

    def canon(self, cn):
        return ("repeat", cn.c(self.value))


def _repeat(I, a, k):
    if len(a) > 1:
        raise EngineError("itertools.repeat with a count")
    return RepeatIter(a[0])


def _op2(sym):
    def f(I, a, k):
        from .interp import PyRaise
        import ast
        node = {"<": ast.Lt(), "<=": ast.LtE(), ">": ast.Gt(), ">=": ast.GtE(), "==": ast.Eq(), "!=": ast.NotEq()}[sym]
        return I.run(I.compare_op(node, a[0], a[1]))
    return f


def _time(I, a, k):
    """time.time(): arbitrary, monotone (A-TIME)"""
    t = I.w.real("time", fresh=True)
    last = I.w.ghost.get("$last_time")
    if last is not None:
        I.w.add(ops.compare(">=", t, last))
    I.w.ghost["$last_time"] = t
    I.w.assumptions.add("A-TIME: wall clock arbitrary but monotone")
    return t


def _new_uid(I, a, k):
    """uuid4-based identifiers: fresh and pairwise distinct (A-UUID)"""
    uids = I.w.ghost.setdefault("$uids", [])
    u = I.w.str("uid", fresh=True)
    for o in uids:
        I.w.add(ops.not_(ops.eq(u, o)))
    uids.append(u)
    I.w.assumptions.add("A-UUID: fresh uids are pairwise distinct")
    return u


def _noop(I, a, k):
    return None


def _identity(I, a, k):
    return a[0]


def _isawaitable(I, a, k):
    from .interp import GenObj
    v = a[0]
    if isinstance(v, GenObj) and v.is_coro:
        return True
    if isinstance(v, Opaque):
        r = v.spec.get("awaitable", False)
        return bool(r)
    return False


def _iscoroutinefunction(I, a, k):
    import ast
    v = a[0]
    if isinstance(v, BoundMethod):
        v = v.func
    if isinstance(v, Closure):
        return isinstance(v.node, ast.AsyncFunctionDef)
    return False


def _isgeneratorfunction(I, a, k):
    from .interp import scope_info
    import ast
    v = a[0]
    if isinstance(v, BoundMethod):
        v = v.func
    if isinstance(v, Closure) and not isinstance(v.node, ast.Lambda):
        return scope_info(v.node)[3] and not isinstance(v.node, ast.AsyncFunctionDef)
    return False


def _isgenerator(I, a, k):
    from .interp import GenObj, AbsGen
    return isinstance(a[0], (GenObj, AbsGen)) and not getattr(a[0], "is_coro", False)


STD = {
    "functools.partial": _partial,
    "threading.Lock": _lock,
    "threading.RLock": _lock,
    "copy.copy": _copy,
    "copy.deepcopy": _deepcopy,
    "collections.deque": _deque,
    "collections.OrderedDict": _ordereddict,
    "collections.defaultdict": _defaultdict,
    "sys.exc_info": lambda I, a, k: (None, None, Opaque("traceback", {"token": "tb", "isinstance_default": False})),
    "itertools.chain": _chain,
    "collections.ChainMap": _chainmap,
    "itertools.chain.from_iterable": _chain_from_iterable,
    "itertools.count": _count,
    "itertools.repeat": _repeat,
    "operator.lt": _op2("<"), "operator.le": _op2("<="), "operator.gt": _op2(">"), "operator.ge": _op2(">="),
    "operator.eq": _op2("=="), "operator.ne": _op2("!="),
    "time.time": _time,
    "time.monotonic": _time,
    "warnings.warn": _noop,
    "inspect.isawaitable": _isawaitable,
    "inspect.iscoroutinefunction": _iscoroutinefunction,
    "asyncio.iscoroutinefunction": _iscoroutinefunction,
    "inspect.isgeneratorfunction": _isgeneratorfunction,
    "inspect.isgenerator": _isgenerator,
    "typing.cast": lambda I, a, k: a[1],
    "typing.TypeVar": _noop,
    "abc.abstractmethod": _identity,
}


def install(world):
    for k, v in STD.items():
        world.stubs.setdefault(k, v)
