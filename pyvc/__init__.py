"""pyvc - verification-condition generator for a subset of Python.

Reads the *real* source text of /repo (never imports bluesky), executes function bodies
symbolically path by path, and discharges contract obligations with z3 / cvc5.
See /verif/DESIGN.md section 2.
"""
