"""Task runner: explores every path of every verification task of a property, aggregates the
obligations, applies the known-findings file, replays counter-models natively, writes evidence.

Exit codes (DESIGN 2.8): 0 held / 1 VIOLATION / 2 undecided / 3 engine error."""
import argparse
import importlib
import json
import os
import subprocess
import sys
import time
import traceback
from concurrent.futures import ProcessPoolExecutor, as_completed
import multiprocessing

ROOT = os.path.dirname(os.path.dirname(os.path.abspath(__file__)))
PATH_CAP = int(os.environ.get("PYVC_PATH_CAP", "20000"))
TASK_TIMEOUT_S = int(os.environ.get("PYVC_TASK_TIMEOUT_S", "900"))


class Task:
    """one verification task = one function (or lemma) under contract, with its harness"""

    def __init__(self, name, prop, fn, functions=(), expect=(), twin=None, covers=(), assumptions=(), kind="contract", bounded=None,
                 path_cap=None, timeout_s=None, fork=False):
        self.fork = fork                     # fork-based depth-first exploration (see world.ForkCtl)
        self.path_cap = path_cap             # per-task overrides of the exploration budgets (large closed explorations)
        self.timeout_s = timeout_s
        self.name = name
        self.prop = prop
        self.fn = fn
        self.functions = list(functions)     # qualified names of repository functions symbolically executed
        self.expect = list(expect)           # obligation names that must be generated (vacuity guard)
        self.twin = twin                     # name of the obligation that MUST fail (must-fail twin), or None
        self.covers = list(covers)           # cover points that must be reached on a feasible path
        self.assumptions = list(assumptions)
        self.kind = kind
        self.bounded = bounded               # None, or a text stating the bound (labelled stand-in, never counted as proved)


REGISTRY = {}


def task(name, prop, functions=(), expect=(), twin=None, covers=(), assumptions=(), bounded=None, path_cap=None, timeout_s=None, fork=False):
    def deco(fn):
        t = Task(name, prop, fn, functions, expect, twin, covers, assumptions, bounded=bounded, path_cap=path_cap, timeout_s=timeout_s, fork=fork)
        REGISTRY.setdefault(prop, []).append(t)
        return fn
    return deco


def load_known_findings():
    p = os.path.join(ROOT, "known_findings.json")
    if not os.path.exists(p):
        return []
    return json.load(open(p))["findings"]


def explore_task(modname, taskname):
    """worker: runs in a subprocess; returns a picklable summary"""
    from .source import Program, EngineError
    from .world import World, PathEnd, STATS
    from .interp import Interp, PyRaise
    t0 = time.time()
    try:
        # a runaway exploration ends as MemoryError (-> engine error, exit 3 = undecided) instead of taking the machine down
        import resource
        lim = int(os.environ.get("PYVC_MEM_GB", "10")) << 30
        resource.setrlimit(resource.RLIMIT_AS, (lim, resource.getrlimit(resource.RLIMIT_AS)[1]))   # soft limit only: tools run as sub-processes lift it
    except Exception:
        pass
    mod = importlib.import_module(modname)
    prop = getattr(mod, "PROP")
    tk = [t for t in REGISTRY[prop] if t.name == taskname][0]
    P = Program()
    kf_active = {f["id"]: f for f in load_known_findings() if f.get("status") == "known"}
    work = [[]]
    npaths = 0
    results = []
    covers = set()
    assumptions = set(tk.assumptions)
    error = None
    fps = []
    from . import world as _world
    FORK = _world.FORK
    cur = {"w": None}
    if tk.fork and os.environ.get("PYVC_NO_FORK") != "1":
        import shutil
        fdir = f"/dev/shm/pyvc-{os.getpid()}-{taskname}"
        shutil.rmtree(fdir, ignore_errors=True)
        FORK.start(fdir)
        import gc
        gc.freeze()

        def in_child():
            # a fresh child owns nothing of what its ancestors recorded
            del work[:]
            del results[:]
            covers.clear()
            if cur["w"] is not None:
                del cur["w"].results[:]
            nonlocal_counts["paths"] = 0
        nonlocal_counts = {"paths": 0}
        FORK.on_child[:] = [in_child]

    def flush_child():
        rec = {"results": results, "covers": sorted(covers), "paths": npaths_box[0], "assumptions": sorted(assumptions), "error": error_box[0]}
        FORK.append("results.jsonl", (json.dumps(rec, default=str) + "\n").encode())
    npaths_box, error_box = [0], [None]
    try:
        for q in tk.functions:
            fps.append(P.function_fingerprint(q))
        while work:
            prefix = work.pop(0)      # breadth-first: short prefixes first, so co-inductive closure keeps re-executions short
            npaths += 1
            if FORK.enabled and FORK.is_child and nonlocal_counts["paths"] == 0:
                npaths = 1
                nonlocal_counts["paths"] = 1
            if not FORK.enabled and npaths > (tk.path_cap or PATH_CAP):
                raise EngineError(f"path cap {tk.path_cap or PATH_CAP} exceeded in task {taskname}")
            if time.time() - t0 > (tk.timeout_s or TASK_TIMEOUT_S):
                raise EngineError(f"task {taskname} exceeded its wall-clock budget of {tk.timeout_s or TASK_TIMEOUT_S}s after {npaths} paths")
            w = World(prefix, taskname)
            cur["w"] = w
            w.kf_active = kf_active
            w.covered = covers
            I = Interp(P, w)
            try:
                tk.fn(I)
            except PathEnd:
                pass
            except PyRaise as pr:
                raise EngineError(f"harness let an object-language exception escape: {pr.exc!r} args={getattr(pr.exc, 'attrs', {}).get('args')}")
            if FORK.enabled and FORK.is_child and nonlocal_counts["paths"] == 0:
                # first path end inside a fresh child: everything counted so far belonged to the ancestors
                npaths = 1
                nonlocal_counts["paths"] = 1
            for r in w.results:
                results.append({"name": r.name, "status": r.status, "model": r.model, "time": r.time, "solver": r.solver,
                                "path": r.path, "decisions": [[str(a), str(b)] for a, b in (r.detail or [])], "info": r.info})
            assumptions |= w.assumptions
            work.extend(w.ch.alts)
    except EngineError as e:
        error = f"EngineError: {e}"
    except _world.ChildFailed as e:
        error = f"EngineError: {e}"
    except Exception as e:  # engine bug
        error = "internal: " + "".join(traceback.format_exception(type(e), e, e.__traceback__))[-3000:]
    if FORK.enabled:
        npaths_box[0], error_box[0] = npaths, error
        if FORK.is_child:
            flush_child()
            sys.stdout.flush()
            sys.stderr.flush()
            os._exit(3 if error else 0)
        # root: merge what the children reported
        import shutil
        rp = os.path.join(FORK.dir, "results.jsonl")
        if os.path.exists(rp):
            for line in open(rp):
                rec = json.loads(line)
                results.extend(rec["results"])
                covers |= set(rec["covers"])
                npaths += rec["paths"]
                assumptions |= set(rec["assumptions"])
                if rec["error"] and not (error and "child exited" not in error):
                    error = rec["error"]
        shutil.rmtree(FORK.dir, ignore_errors=True)
        FORK.enabled = False
    return {"task": taskname, "prop": prop, "paths": npaths, "results": results, "covers": sorted(covers),
            "error": error, "wall": time.time() - t0, "stats": dict(STATS), "functions": fps,
            "assumptions": sorted(assumptions), "bounded": tk.bounded, "twin": tk.twin, "expect": tk.expect, "need_covers": tk.covers,
            "files": dict(P.used_files)}


def aggregate(summaries):
    """-> obligations dict name -> {'status', 'paths', 'time', 'solvers', 'witness'}"""
    obl = {}
    for s in summaries:
        for r in s["results"]:
            name = r["name"]
            o = obl.setdefault(name, {"status": "discharged", "queries": 0, "time": 0.0, "solvers": set(), "witness": None,
                                      "task": s["task"], "twin": bool(s.get("twin")), "kf": None, "bounded": s.get("bounded")})
            o["queries"] += 1
            o["time"] += r["time"]
            o["solvers"].add(r["solver"] if r["status"] != "trivial" else "syntactic")
            if r["status"] == "sat":
                def score(x):
                    d = x.get("decisions") or []
                    return (sum(1 for a in d if a and a[0] == "replay"), len(d))
                if o["status"] != "failed":
                    o["status"] = "failed"
                    o["witness"] = r
                    o["task"] = s["task"]
                elif score(r) < score(o["witness"]):
                    o["witness"] = r       # prefer witnesses free of model-only choices, then short ones (better native replays)
                    o["task"] = s["task"]
            elif r["status"] == "unknown" and o["status"] == "discharged":
                o["status"] = "unknown"
                o["witness"] = r
    return obl


def run_replay(prop, obligation, witness, tier):
    """writes the replay artefact and runs the native adapter; returns (path, verdict, output)"""
    d = os.path.join(ROOT, "replays", prop)
    os.makedirs(d, exist_ok=True)
    safe = "".join(c if c.isalnum() or c in "._-" else "_" for c in obligation)[:150]
    path = os.path.join(d, safe + ".json")
    art = {"property": prop, "obligation": obligation, "task": witness.get("task"), "model": witness.get("model"),
           "decisions": witness.get("decisions"), "info": witness.get("info"), "solver": witness.get("solver"),
           "solver_output": "sat", "path": witness.get("path")}
    json.dump(art, open(path, "w"), indent=1, default=str)
    verdict, out = "no-adapter", ""
    info = witness.get("info") or {}
    adapter = info.get("replay") if isinstance(info, dict) else None
    if adapter:
        try:
            p = subprocess.run(["/venv/bin/python", os.path.join(ROOT, "replay", "run.py"), path], capture_output=True,
                               text=True, timeout=300, cwd=ROOT,
                               env={**os.environ, "PYTHONPATH": ROOT, "VERIF_REPO": os.environ.get("VERIF_REPO", "/repo")})
            out = (p.stdout + p.stderr)[-4000:]
            last = [l for l in p.stdout.strip().splitlines() if l.startswith("REPLAY:")]
            if last:
                verdict = last[-1].split(":", 1)[1].strip().split()[0]
            else:
                verdict = "adapter-error"
        except subprocess.TimeoutExpired:
            verdict, out = "adapter-timeout", ""
        art["replay_verdict"] = verdict
        art["replay_output"] = out
        json.dump(art, open(path, "w"), indent=1, default=str)
    return path, verdict, out


def main(argv=None):
    ap = argparse.ArgumentParser()
    ap.add_argument("prop")
    ap.add_argument("--tier", default=os.environ.get("VERIF_TIER", "quick"))
    ap.add_argument("--replay", default=None)
    ap.add_argument("--jobs", type=int, default=int(os.environ.get("PYVC_JOBS", "16")))
    ap.add_argument("--only", default=None, help="run only tasks whose name contains this text (debugging; no evidence)")
    ap.add_argument("-v", action="store_true")
    a = ap.parse_args(argv)
    prop = a.prop
    tier = a.tier if a.tier in ("quick", "thorough") else "quick"
    os.environ["VERIF_TIER"] = tier
    seed = int(os.environ.get("VERIF_SEED", "0") or 0)
    if a.replay:
        p = subprocess.run(["/venv/bin/python", os.path.join(ROOT, "replay", "run.py"), a.replay], cwd=ROOT,
                           env={**os.environ, "PYTHONPATH": ROOT})
        return p.returncode
    t0 = time.time()
    sys.path.insert(0, ROOT)
    modname = f"contracts.{prop}"
    try:
        mod = importlib.import_module(modname)
    except ModuleNotFoundError:
        print(f"no contracts for {prop}")
        return 3
    tasks = REGISTRY.get(prop, [])
    if a.only:
        tasks = [t for t in tasks if a.only in t.name]
    if not tasks:
        print("ENGINE-ERROR: no verification tasks registered (vacuous check)")
        return 3
    summaries = []
    rdir = os.path.join(ROOT, "replays", prop)
    if os.path.isdir(rdir) and not a.only:
        for fn in os.listdir(rdir):
            if fn.endswith(".json"):
                os.unlink(os.path.join(rdir, fn))
    ctx = multiprocessing.get_context("fork")
    died = False
    with ProcessPoolExecutor(max_workers=min(a.jobs, len(tasks)), mp_context=ctx) as ex:
        futs = {ex.submit(explore_task, modname, t.name): t for t in tasks}
        for f in as_completed(futs):
            try:
                summaries.append(f.result())
            except Exception as e:  # a worker died (killed, out of memory): undecided, never a violation
                print(f"ENGINE-ERROR: worker of task {futs[f].name} died: {type(e).__name__}: {str(e)[:200]}")
                died = True
        if died:
            return 3
    summaries.sort(key=lambda s: s["task"])
    return report(prop, tier, seed, mod, summaries, t0, verbose=a.v, partial=bool(a.only))


def report(prop, tier, seed, mod, summaries, t0, verbose=False, partial=False):
    errors = [s for s in summaries if s["error"]]
    obl = aggregate(summaries)
    kfs = [f for f in load_known_findings() if f["property"] == prop]
    exit_code = 0
    lines = []
    # ---- engine sanity / vacuity
    engine_problems = []
    for s in errors:
        engine_problems.append(f"{s['task']}: {s['error']}")
    for s in summaries:
        if s["error"]:
            continue
        names = {r["name"] for r in s["results"]}
        for e in s["expect"]:
            if e not in names:
                engine_problems.append(f"{s['task']}: expected obligation '{e}' was never generated (vacuity guard)")
        for c in s["need_covers"]:
            if c not in s["covers"]:
                engine_problems.append(f"{s['task']}: cover point '{c}' not reached (vacuity guard)")
        if not s["results"]:
            engine_problems.append(f"{s['task']}: generated zero obligations")
    # ---- must-fail twins
    twin_names = set()
    twins_ok = 0
    for s in summaries:
        if s["twin"]:
            twin_names.add(s["twin"])
            o = obl.get(s["twin"])
            if not s["error"]:
                if o is None or o["status"] != "failed":
                    engine_problems.append(f"{s['task']}: must-fail twin '{s['twin']}' was NOT refuted (engine unsound or vacuous)")
                else:
                    twins_ok += 1
    real = {n: o for n, o in obl.items() if n not in twin_names and not o["twin"]}
    # ---- known findings bookkeeping
    kf_lines = []
    kf_repro = {n[len("kf-repro:"):]: o for n, o in real.items() if n.startswith("kf-repro:")}
    real = {n: o for n, o in real.items() if not n.startswith("kf-repro:")}
    violations = []
    undecided = []
    for n, o in sorted(real.items()):
        if o["status"] == "failed":
            violations.append((n, o))
        elif o["status"] == "unknown":
            undecided.append((n, o))
    known_reported = []
    for f in kfs:
        if f.get("status") != "known":
            continue
        o = kf_repro.get(f["id"])
        if o is None:
            continue
        if o["status"] == "failed":
            # the excluded case still violates the clause symbolically: confirm natively
            w = dict(o["witness"])
            w["task"] = o["task"]
            path, verdict, out = run_replay(prop, "known-" + f["id"], w, tier)
            if verdict in ("confirmed", "no-adapter"):
                known_reported.append({"id": f["id"], "what": f["what"], "replay": os.path.relpath(path, ROOT), "native": verdict})
                lines.append(f"KNOWN-FINDING: property={prop} {f['what']} [{f['id']}; native replay: {verdict}]")
            elif verdict == "contradicted":
                engine_problems.append(f"known finding {f['id']}: counter-model does not reproduce natively (spurious); see {path}")
            else:
                engine_problems.append(f"known finding {f['id']}: replay adapter failed ({verdict}); see {path}")
        elif o["status"] == "discharged":
            lines.append(f"NOTE: known finding {f['id']} no longer reproduces on this tree (clause holds inside the listed case)")
    # ---- violations: replay
    vio_out = []
    for n, o in violations:
        w = dict(o["witness"])
        w["task"] = o["task"]
        path, verdict, out = run_replay(prop, n, w, tier)
        rel = os.path.relpath(path, ROOT)
        if verdict == "confirmed":
            vio_out.append((n, rel, ""))
        elif verdict == "contradicted":
            engine_problems.append(f"obligation {n}: counter-model contradicted by native replay (over-approximation artefact); see {rel}")
        elif verdict in ("no-adapter", "not-constructible"):
            vio_out.append((n, rel, " no-failing-input-found"))
        else:
            vio_out.append((n, rel, " no-failing-input-found"))
    proved = {n: o for n, o in real.items() if not o["bounded"]}
    bounded = {n: o for n, o in real.items() if o["bounded"]}
    n_obl = len(proved)
    n_dis = sum(1 for o in proved.values() if o["status"] == "discharged")
    bounded_block = None
    if bounded:
        bounded_block = {"label": "bounded stand-ins: NOT counted in obligations/discharged",
                         "bounds": sorted({o["bounded"] for o in bounded.values()}),
                         "obligations": len(bounded), "held": sum(1 for o in bounded.values() if o["status"] == "discharged"),
                         "names": sorted(bounded)}
    if vio_out:
        exit_code = 1
    elif engine_problems:
        exit_code = 3
    elif undecided:
        exit_code = 2
    for n, rel, suffix in vio_out:
        print(f"obligation failed: {n}")
        print(f"VIOLATION property={prop} replay={os.path.join(ROOT, rel)}{suffix}")
    for l in lines:
        print(l)
    for p in engine_problems:
        print("ENGINE-ERROR:", p)
    for n, o in undecided:
        print("UNDECIDED:", n)
    # ---- evidence
    solver_time = sum(o["time"] for o in obl.values())
    by_backend = {}
    for o in real.values():
        for sname in o["solvers"]:
            by_backend[sname] = by_backend.get(sname, 0) + 1
    fns = []
    files = {}
    assumptions = set()
    for s in summaries:
        for fp in s["functions"]:
            if fp not in fns:
                fns.append(fp)
        files.update(s["files"])
        assumptions |= set(s["assumptions"])
    trusted = sorted(assumptions | set(getattr(mod, "TRUSTED", [])))
    samples = []
    for n, o in list(sorted(real.items()))[:8]:
        samples.append({"obligation": n, "status": o["status"], "queries": o["queries"], "solver_s": round(o["time"], 4),
                        "back_ends": sorted(o["solvers"]), "task": o["task"]})
    ev = {
        "property_id": prop, "tier": tier, "seed": seed, "level": "proof",
        "coverage": {
            "obligations": n_obl, "discharged": n_dis,
            "checker_cmd": f"./check {prop} --tier {tier}",
            "trusted_base": trusted,
            "samples": samples,
            "functions_under_contract": fns,
            "source_files": files,
            "paths_explored": sum(s["paths"] for s in summaries),
            "tasks": [{"task": s["task"], "paths": s["paths"], "wall_s": round(s["wall"], 2), "error": s["error"]} for s in summaries],
            "back_ends": by_backend,
            "solver_time_s": round(solver_time, 3),
            "must_fail_twins_refuted": twins_ok,
            "vacuity_guards": {"expected_obligations": sum(len(s["expect"]) for s in summaries), "cover_points": sum(len(s["need_covers"]) for s in summaries)},
            "known_findings": known_reported,
            "undecided": [n for n, _ in undecided],
            "failed": [n for n, _, _ in vio_out],
            "engine_problems": engine_problems,
            "exit_code": exit_code,
            "not_decided": getattr(mod, "NOT_DECIDED", ""),
            "bounded": bounded_block,
        },
        "assumptions": trusted,
        "wall_s": round(time.time() - t0, 2),
        "violations": len(vio_out),
    }
    hook = getattr(mod, "evidence_hook", None)
    if hook:
        hook(ev, tier)
    if not partial:
        os.makedirs(os.path.join(ROOT, "evidence"), exist_ok=True)
        json.dump(ev, open(os.path.join(ROOT, "evidence", f"{prop}.json"), "w"), indent=1, default=str)
    print(f"{prop}: obligations={n_obl} discharged={n_dis} known-findings={len(known_reported)} paths={ev['coverage']['paths_explored']} "
          f"tasks={len(summaries)} solver={solver_time:.2f}s wall={time.time() - t0:.1f}s exit={exit_code}")
    if verbose:
        for n, o in sorted(obl.items()):
            print(f"   {o['status']:11s} {n}  q={o['queries']} t={o['time']:.3f} {sorted(o['solvers'])}")
    return exit_code


if __name__ == "__main__":
    sys.exit(main())
