"""Acquisition of the verified text: parses the current working-tree files of the repository on
every run and hands out function / class ASTs by qualified name (DESIGN 2.1)."""
import ast
import builtins as _hb
import hashlib
import os

REPO = os.environ.get("VERIF_REPO", "/repo")
SRC_ROOT = os.path.join(REPO, "src")


class EngineError(Exception):
    """unsupported construct / internal inconsistency -> exit 3, never a verdict"""


class ClassInfo:
    """A class of the object language (from repository source, or a built-in such as ValueError)."""

    def __init__(self, name, module=None, node=None, bases=(), builtin=False):
        self.name = name
        self.module = module
        self.node = node
        self.bases = list(bases)
        self.builtin = builtin
        self.methods = {}      # name -> ast.FunctionDef | ast.AsyncFunctionDef
        self.class_attrs = {}  # name -> ast.expr  (evaluated lazily)
        self.static_values = {}  # name -> already evaluated value (built-in models)
        self.decorators = {}   # method name -> list of decorator kind strings
        self.properties = {}   # name -> {'get': fn, 'set': fn}
        self.qualname = name
        self._mro = None

    def mro(self):
        if self._mro is None:
            # C3 linearisation
            def merge(seqs):
                res = []
                seqs = [list(s) for s in seqs if s]
                while seqs:
                    for s in seqs:
                        cand = s[0]
                        if not any(cand in t[1:] for t in seqs):
                            break
                    else:
                        raise EngineError(f"inconsistent MRO for {self.name}")
                    res.append(cand)
                    seqs = [[x for x in t if x is not cand] for t in seqs]
                    seqs = [t for t in seqs if t]
                return res
            self._mro = [self] + merge([b.mro() for b in self.bases] + [list(self.bases)])
        return self._mro

    def issubclass(self, other):
        return other in self.mro()

    def lookup(self, name):
        """-> (owner ClassInfo, kind, payload) or None; kind in method/property/attr/static"""
        for c in self.mro():
            if name in c.properties:
                return c, "property", c.properties[name]
            if name in c.methods:
                return c, "method", c.methods[name]
            if name in c.static_values:
                return c, "static", c.static_values[name]
            if name in c.class_attrs:
                return c, "attr", c.class_attrs[name]
        return None

    def __repr__(self):
        return f"<class {self.qualname}>"


def _builtin_exceptions():
    table = {}
    names = [n for n in dir(_hb) if isinstance(getattr(_hb, n), type) and issubclass(getattr(_hb, n), BaseException)]
    # order by mro length so bases come first
    names.sort(key=lambda n: len(getattr(_hb, n).__mro__))
    for n in names:
        t = getattr(_hb, n)
        if t.__name__ != n:      # aliases such as IOError
            continue
        bases = [table[b.__name__] for b in t.__bases__ if b.__name__ in table]
        table[n] = ClassInfo(n, bases=bases, builtin=True)
    for alias in ("IOError", "EnvironmentError"):
        table[alias] = table["OSError"]
    obj = ClassInfo("object", builtin=True)
    table["object"] = obj
    # asyncio exceptions used by the RunEngine
    table["CancelledError"] = ClassInfo("CancelledError", bases=[table["BaseException"]], builtin=True)
    table["InvalidStateError"] = ClassInfo("InvalidStateError", bases=[table["Exception"]], builtin=True)
    return table


BUILTIN_CLASSES = _builtin_exceptions()


class ModuleInfo:
    def __init__(self, name, path):
        self.name = name
        self.path = path
        with open(path, "rb") as f:
            raw = f.read()
        self.sha256 = hashlib.sha256(raw).hexdigest()
        self.text = raw.decode("utf8")
        self.tree = ast.parse(self.text)
        self.defs = {}       # name -> ('func', node) | ('class', node) | ('assign', expr) | ('import', dotted) | ('from', module, name, level)
        self.classes = {}    # name -> ClassInfo (filled lazily by Program)
        self._index(self.tree.body)

    def _index(self, body):
        for st in body:
            if isinstance(st, (ast.FunctionDef, ast.AsyncFunctionDef)):
                self.defs[st.name] = ("func", st)
            elif isinstance(st, ast.ClassDef):
                self.defs[st.name] = ("class", st)
            elif isinstance(st, ast.Assign):
                for t in st.targets:
                    if isinstance(t, ast.Name):
                        self.defs[t.id] = ("assign", st.value)
                    elif isinstance(t, ast.Tuple) and all(isinstance(e, ast.Name) for e in t.elts):
                        for i, e in enumerate(t.elts):
                            self.defs[e.id] = ("assign_unpack", st.value, i)
            elif isinstance(st, ast.AnnAssign) and isinstance(st.target, ast.Name) and st.value is not None:
                self.defs[st.target.id] = ("assign", st.value)
            elif isinstance(st, ast.Import):
                for a in st.names:
                    self.defs[a.asname or a.name.split(".")[0]] = ("import", a.name if a.asname else a.name.split(".")[0])
            elif isinstance(st, ast.ImportFrom):
                for a in st.names:
                    self.defs[a.asname or a.name] = ("from", st.module or "", a.name, st.level)
            elif isinstance(st, (ast.If, ast.Try)):
                # module-level conditional definitions (e.g. try: import x / except ImportError)
                self._index(st.body)
                for h in getattr(st, "handlers", []):
                    pass
                if isinstance(st, ast.If):
                    pass


class Program:
    """lazy registry of repository modules"""

    def __init__(self, src_root=None):
        self.src_root = src_root or SRC_ROOT
        self.modules = {}
        self.used_files = {}

    def module_path(self, name):
        base = os.path.join(self.src_root, *name.split("."))
        if os.path.isfile(base + ".py"):
            return base + ".py"
        if os.path.isfile(os.path.join(base, "__init__.py")):
            return os.path.join(base, "__init__.py")
        return None

    def is_repo_module(self, name):
        return self.module_path(name) is not None

    def module(self, name):
        if name not in self.modules:
            p = self.module_path(name)
            if p is None:
                raise EngineError(f"module {name} is not repository code")
            m = ModuleInfo(name, p)
            self.modules[name] = m
            self.used_files[os.path.relpath(p, REPO)] = m.sha256
        return self.modules[name]

    def resolve_relative(self, modname, path, target, level):
        """absolute name of `from <level dots><target> import ...` seen in module modname"""
        if level == 0:
            return target
        is_pkg = os.path.basename(path) == "__init__.py"
        parts = modname.split(".")
        if not is_pkg:
            parts = parts[:-1]
        if level > 1:
            parts = parts[: len(parts) - (level - 1)]
        return ".".join(parts + ([target] if target else []))

    def class_info(self, modname, clsname):
        m = self.module(modname)
        if clsname in m.classes:
            return m.classes[clsname]
        kind = m.defs.get(clsname)
        if not kind or kind[0] != "class":
            raise EngineError(f"{modname}:{clsname} is not a class definition")
        node = kind[1]
        ci = ClassInfo(clsname, module=modname, node=node)
        ci.qualname = f"{modname}:{clsname}"
        m.classes[clsname] = ci
        for b in node.bases:
            ci.bases.append(self._resolve_base(m, b))
        if not ci.bases:
            ci.bases = [BUILTIN_CLASSES["object"]]
        self._fill_class(ci, node)
        return ci

    def _fill_class(self, ci, node):
        def mangled(n):
            if n.startswith("__") and not n.endswith("__"):
                return "_" + ci.name.lstrip("_") + n
            return n
        for st in node.body:
            if isinstance(st, (ast.FunctionDef, ast.AsyncFunctionDef)):
                mname = mangled(st.name)
                kinds = []
                for d in st.decorator_list:
                    kinds.append(ast.unparse(d))
                ci.decorators[mname] = kinds
                if "property" in kinds or "abstractproperty" in kinds:
                    ci.properties.setdefault(mname, {})["get"] = st
                elif any(k.endswith(".setter") for k in kinds):
                    ci.properties.setdefault(mname, {})["set"] = st
                else:
                    ci.methods[mname] = st
            elif isinstance(st, ast.Assign):
                for t in st.targets:
                    if isinstance(t, ast.Name):
                        ci.class_attrs[mangled(t.id)] = st.value
            elif isinstance(st, ast.AnnAssign) and isinstance(st.target, ast.Name) and st.value is not None:
                ci.class_attrs[mangled(st.target.id)] = st.value
            elif isinstance(st, ast.ClassDef):
                ci.class_attrs[st.name] = st    # nested class (e.g. Meta); evaluated by interpreter

    def _resolve_base(self, m, b):
        if isinstance(b, ast.Name):
            if b.id in m.defs:
                d = m.defs[b.id]
                if d[0] == "class":
                    return self.class_info(m.name, b.id)
                if d[0] == "from":
                    tgt = self.resolve_relative(m.name, m.path, d[1], d[3])
                    if self.is_repo_module(tgt):
                        return self.class_info(tgt, d[2])
                    return self.external_class(f"{tgt}.{d[2]}")
            if b.id in BUILTIN_CLASSES:
                return BUILTIN_CLASSES[b.id]
            return self.external_class(b.id)
        return self.external_class(ast.unparse(b))

    _ext = {}

    def external_class(self, dotted):
        known = {
            "asyncio.CancelledError": "CancelledError",
            "asyncio.exceptions.CancelledError": "CancelledError",
        }
        if dotted in known:
            return BUILTIN_CLASSES[known[dotted]]
        if dotted not in Program._ext:
            ci = ClassInfo(dotted.split(".")[-1].split("(")[0], bases=[BUILTIN_CLASSES["object"]], builtin=True)
            ci.qualname = "ext:" + dotted
            ci.external = True
            Program._ext[dotted] = ci
        return Program._ext[dotted]

    # ------------------------------------------------------------------ functions by qualified name
    def find_function(self, qual):
        """'pkg.mod:Class.method.inner' -> (ModuleInfo, [enclosing nodes...], node)"""
        modname, path = qual.split(":")
        m = self.module(modname)
        parts = path.split(".")
        body = m.tree.body
        chain = []
        node = None
        for i, p in enumerate(parts):
            found = None
            for st in _walk_defs(body):
                if isinstance(st, (ast.FunctionDef, ast.AsyncFunctionDef, ast.ClassDef)) and st.name == p:
                    found = st     # last definition wins (setter after getter: keep first for functions)
                    if isinstance(st, ast.ClassDef) or not _is_setter(st):
                        break
            if found is None:
                raise EngineError(f"cannot locate {qual} (missing '{p}')")
            chain.append(found)
            node = found
            body = found.body
        return m, chain[:-1], node

    def function_fingerprint(self, qual):
        m, chain, node = self.find_function(qual)
        dump = ast.dump(node, include_attributes=False)
        return {
            "function": qual,
            "file": os.path.relpath(m.path, REPO),
            "file_sha256": m.sha256,
            "lines": [node.lineno, node.end_lineno],
            "ast_sha256": hashlib.sha256(dump.encode()).hexdigest()[:16],
        }


def _is_setter(fn):
    return any(isinstance(d, ast.Attribute) and d.attr == "setter" for d in fn.decorator_list)


def _walk_defs(body):
    """definitions directly in `body`, also those nested in if/try/with/for blocks (not in other defs)"""
    for st in body:
        if isinstance(st, (ast.FunctionDef, ast.AsyncFunctionDef, ast.ClassDef)):
            yield st
        else:
            for fld in ("body", "orelse", "finalbody"):
                sub = getattr(st, fld, None)
                if isinstance(sub, list):
                    yield from _walk_defs(sub)
            for h in getattr(st, "handlers", []) or []:
                yield from _walk_defs(h.body)
