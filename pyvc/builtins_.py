"""Models of Python built-ins and of host container methods over the symbolic value domain
(DESIGN 2.2 'Built-ins modelled directly').  Everything not modelled raises EngineError."""
import ast
import collections
import fractions

import z3

from .source import EngineError, ClassInfo, BUILTIN_CLASSES
from .vals import (FSpec, Sym, Obj, Opaque, Closure, BoundMethod, Builtin, ExternalRef, HostMethod,
                   OpaqueMethod, SuperProxy, MsgVal, ModuleVal, is_sym, numeric_kind, to_str_term,
                   to_int_term, to_real_term)
from . import ops

_STR_OF_INT = z3.Function("py_str_of_int", z3.IntSort(), z3.StringSort())
_STR_OF_REAL = z3.Function("py_str_of_real", z3.RealSort(), z3.StringSort())


def _isgen(r):
    return hasattr(r, "__next__") and hasattr(r, "send")


# ----------------------------------------------------------------------------- types
def typenames(I, v):
    if v is None:
        return {"NoneType"}
    if isinstance(v, bool):
        return {"bool", "int"}
    if isinstance(v, int):
        return {"int"}
    if isinstance(v, (float, fractions.Fraction)):
        return {"float"}
    if isinstance(v, str):
        return {"str"}
    if isinstance(v, bytes):
        return {"bytes"}
    if isinstance(v, FSpec):
        return set(v.pytype) if v.pytype else {"float"}
    if isinstance(v, Sym):
        if v.pytype:
            return set(v.pytype) if not isinstance(v.pytype, str) else {v.pytype}
        return {"int": {"int"}, "real": {"float"}, "bool": {"bool", "int"}, "str": {"str"}}[v.kind]
    if isinstance(v, MsgVal):
        return {"Msg", "tuple"}
    from .vals import RLESeq
    if isinstance(v, RLESeq):
        return {"tuple"} if v.is_tuple else {"list"}
    if isinstance(v, tuple):
        return {"tuple"}
    if isinstance(v, list):
        return {"list"}
    if isinstance(v, collections.OrderedDict):
        return {"dict", "OrderedDict"}
    if isinstance(v, dict):
        return {"dict"}
    if isinstance(v, frozenset):
        return {"frozenset"}
    if isinstance(v, set):
        return {"set"}
    if isinstance(v, collections.deque):
        return {"deque"}
    if isinstance(v, range):
        return {"range"}
    if isinstance(v, (Closure, BoundMethod, Builtin, HostMethod, OpaqueMethod)):
        return {"function"}
    if isinstance(v, ClassInfo):
        return {"type"}
    from .interp import GenObj, AbsGen
    if isinstance(v, (GenObj, AbsGen)):
        return {"coroutine"} if getattr(v, "is_coro", False) else {"generator"}
    return {type(v).__name__}


_ABC = {
    "Iterable": {"str", "bytes", "tuple", "list", "dict", "OrderedDict", "set", "frozenset", "deque", "range", "generator", "Msg", "np.ndarray"},
    "Sequence": {"str", "bytes", "tuple", "list", "range", "Msg", "deque"},
    "Mapping": {"dict", "OrderedDict"},
    "MutableMapping": {"dict", "OrderedDict"},
    "Sized": {"str", "bytes", "tuple", "list", "dict", "OrderedDict", "set", "frozenset", "deque", "range", "Msg", "np.ndarray"},
    "Generator": {"generator"},
    "Iterator": {"generator"},
    "Callable": {"function", "type"},
    "Number": {"int", "float", "bool", "np.integer", "np.floating", "complex"},
    "Integral": {"int", "bool", "np.integer"},
    "Real": {"int", "float", "bool", "np.integer", "np.floating"},
    "Hashable": {"int", "float", "bool", "str", "bytes", "tuple", "frozenset", "NoneType", "function"},
}


def isinstance_(I, v, t):
    """-> host bool or Sym"""
    if isinstance(t, tuple):
        res = False
        for x in t:
            res = ops.or_(res, isinstance_(I, v, x))
            if res is True:
                return True
        return res
    if isinstance(v, Opaque):
        return opaque_isinstance(I, v, t)
    if isinstance(t, Builtin):
        return t.name in typenames(I, v) or (t.name == "object")
    if isinstance(t, ClassInfo):
        if isinstance(v, Obj):
            return v.cls.issubclass(t)
        if t.name == "object":
            return True
        if t.name == "Msg":
            return isinstance(v, MsgVal)
        if getattr(t, "external", False):
            short = t.qualname.split(":")[-1].split(".")[-1]
            if short in _ABC:
                return bool(typenames(I, v) & _ABC[short])
        return False
    if isinstance(t, ExternalRef):
        short = t.dotted.split(".")[-1]
        tn = typenames(I, v)
        if short in _ABC:
            if isinstance(v, Obj):
                need = {"Iterable": "__iter__", "Mapping": "__getitem__", "MutableMapping": "__setitem__", "Sized": "__len__",
                        "Callable": "__call__", "Sequence": "__getitem__", "Iterator": "__next__", "Generator": "send",
                        "Hashable": "__hash__"}.get(short)
                return bool(need and v.cls.lookup(need))
            return bool(tn & _ABC[short])
        alias = {"GeneratorType": "generator", "CoroutineType": "coroutine", "FunctionType": "function", "NoneType": "NoneType"}
        if short in alias:
            return alias[short] in tn
        for full in (t.dotted, "np." + short, short):
            if full in tn:
                return True
        h = I.w.stubs.get(("isinstance", t.dotted))
        if h is not None:
            return h(I, v)
        if isinstance(v, Obj):
            return any(getattr(c, "qualname", "") == "ext:" + t.dotted for c in v.cls.mro())
        return False
    raise EngineError(f"isinstance against {t!r}")


def opaque_isinstance(I, obj, t):
    if isinstance(t, tuple):
        res = False
        for x in t:
            res = ops.or_(res, opaque_isinstance(I, obj, x))
        return res
    name = t.name if isinstance(t, (ClassInfo, Builtin)) else t.dotted.split(".")[-1] if isinstance(t, ExternalRef) else None
    if name is None:
        raise EngineError(f"isinstance(opaque, {t!r})")
    table = obj.spec.get("isinstance", {})
    if name in table:
        r = table[name]
    elif "*" in table:
        r = table["*"]
    else:
        r = obj.spec.get("isinstance_default", None)
        if r is None:
            if name == "object":
                return True
            raise EngineError(f"isinstance({obj!r}, {name}) not specified by the harness")
    if r == "sym":
        key = f"$isa:{name}"
        if key not in obj.attrs:
            obj.attrs[key] = I.w.bool(f"isinstance({obj.name},{name})", fresh=True)
        return obj.attrs[key]
    return bool(r)


def opaque_getattr(I, obj, name):
    if name in obj.attrs:
        return obj.attrs[name]
    sp = obj.spec
    if name in sp.get("methods", {}):
        return OpaqueMethod(obj, name)
    if name in sp.get("dyn_attrs", {}):
        return sp["dyn_attrs"][name](I, obj)          # recomputed at every read (model-backed state)
    a = sp.get("attrs", {})
    if name in a:
        v = a[name]
        if callable(v) and not isinstance(v, (Closure, Builtin)) and not getattr(v, "_pyvc_native", False):
            v = v(I, obj)
        obj.attrs[name] = v
        return v
    if name in sp.get("absent", ()):
        raise _attr_error(I, obj, name)
    d = sp.get("default_attr")
    if d == "method":
        return OpaqueMethod(obj, name)
    if d == "absent":
        raise _attr_error(I, obj, name)
    if callable(d):
        v = d(I, obj, name)
        obj.attrs[name] = v
        return v
    raise EngineError(f"attribute {name} of {obj!r} not specified by the harness")


def _attr_error(I, obj, name):
    from .interp import PyRaise
    return PyRaise(I.mkexc("AttributeError", f"{obj.name} has no attribute {name}"))


def obj_special_attr(I, obj, name):
    if obj.cls.issubclass(BUILTIN_CLASSES["BaseException"]):
        if name == "args":
            return obj.attrs.get("args", ())
        if name in ("__cause__", "__context__", "__traceback__"):
            return obj.attrs.get(name)
        if name == "with_traceback":
            return native(lambda I_, a, k: obj)
        if name == "value" and obj.cls.issubclass(BUILTIN_CLASSES["StopIteration"]):
            a = obj.attrs.get("args", ())
            return a[0] if a else None
    return NotImplemented


def super_fallback(I, sp, name):
    mro = sp.obj.cls.mro() if isinstance(sp.obj, Obj) else sp.obj.mro()
    for c in mro[mro.index(sp.cls) + 1:]:
        if getattr(c, "external", False):
            stub = I.w.stubs.get(f"{c.qualname}.{name}")
            if stub is not None:
                o = sp.obj
                return native(lambda I_, a, k: stub(I_, [o] + list(a), k))
            if name not in ("__init__", "__new__", "__setattr__"):
                # method inherited from a class outside the repository: assumed effect-free on our state
                I.w.assumptions.add(f"external base method {c.qualname[4:]}.{name} is effect-free and returns NotImplemented/None")
                return native(lambda I_, a, k: None)
    if name == "__init__":
        o = sp.obj

        def init(I_, args, kwargs):
            if isinstance(o, Obj) and o.cls.issubclass(BUILTIN_CLASSES["BaseException"]):
                o.attrs["args"] = tuple(args)
                o.attrs.setdefault("__cause__", None)
            return None
        return native(init)
    if name == "__new__":
        def new(I_, args, kwargs):
            return Obj(args[0])
        return native(new)
    if name in ("__setattr__",):
        o = sp.obj

        def sa(I_, args, kwargs):
            o.attrs[args[0]] = args[1]
        return native(sa)
    if name in ("__init_subclass__", "__enter__", "__exit__"):
        return native(lambda I_, a, k: None)
    return NotImplemented


def native(f):
    f._pyvc_native = True
    return f


def descriptor_set(I, obj, name, desc, value):
    if isinstance(desc, Obj):
        r = desc.cls.lookup("__set__")
        if r and r[1] == "method":
            I.call_value(BoundMethod(I.method_closure(r[0], r[2]), desc), obj, value)
            return True
    return False


def special_instantiate(I, cls, args, kwargs):
    if cls.name == "Msg" and cls.module == "bluesky.utils":
        return make_msg(I, args, kwargs)
    return NotImplemented


def make_msg(I, args, kwargs):
    kwargs = dict(kwargs)
    if not args and "command" not in kwargs:
        I.raise_("TypeError", "Msg.__new__() missing 1 required positional argument: 'command'")
    args = list(args)
    command = args.pop(0) if args else kwargs.pop("command")
    obj = None
    if args:
        obj = args.pop(0)
    elif "obj" in kwargs:
        obj = kwargs.pop("obj")
    run = kwargs.pop("run", None)
    return MsgVal(command, obj, tuple(args), kwargs, run)


# ----------------------------------------------------------------------------- str / repr / format
def str_of(I, v):
    if isinstance(v, str):
        return v
    if isinstance(v, Sym):
        if v.kind == "str":
            return v
        if v.kind == "int":
            if I.w.branch(ops.mk(v.t >= 0), "str(int) non-negative"):
                return Sym(z3.IntToStr(v.t))
            return Sym(z3.Concat(z3.StringVal("-"), z3.IntToStr(-v.t)))
        if v.kind == "real":
            return Sym(_STR_OF_REAL(v.t))
        if v.kind == "bool":
            return ops.ite(v, "True", "False")
    if v is None or isinstance(v, (bool, int, float)):
        return str(v)
    if isinstance(v, Obj):
        r = v.cls.lookup("__str__")
        if r and r[1] == "method":
            return I.call_value(BoundMethod(I.method_closure(r[0], r[2]), v))
        if v.cls.issubclass(BUILTIN_CLASSES["BaseException"]):
            a = v.attrs.get("args", ())
            if len(a) == 0:
                return ""
            if len(a) == 1:
                if v.cls.issubclass(BUILTIN_CLASSES["KeyError"]):
                    return repr_of(I, a[0])
                return str_of(I, a[0])
            return repr_of(I, a)
        return repr_of(I, v)
    return repr_of(I, v)


def repr_of(I, v):
    if v is None or isinstance(v, (bool, int, float, str, bytes)):
        return repr(v)
    if isinstance(v, Obj):
        r = v.cls.lookup("__repr__")
        if r and r[1] == "method":
            return I.call_value(BoundMethod(I.method_closure(r[0], r[2]), v))
    if isinstance(v, (Obj, Opaque)):
        if "$repr" not in v.attrs:
            v.attrs["$repr"] = Sym(z3.String(I.w.fresh(f"repr({getattr(v, 'name', None) or v.cls.name})")))
        return v.attrs["$repr"]
    if isinstance(v, Sym):
        if v.kind == "str":
            return Sym(z3.Concat(z3.StringVal("'"), v.t, z3.StringVal("'")))
        return str_of(I, v)
    if isinstance(v, (tuple, list, dict, set, frozenset, MsgVal, collections.deque)):
        try:
            if _all_concrete(v):
                return repr(v)
        except Exception:
            pass
        return Sym(z3.String(I.w.fresh("repr")))
    return Sym(z3.String(I.w.fresh("repr")))


def _all_concrete(v):
    if isinstance(v, (tuple, list, set, frozenset)):
        return all(_all_concrete(x) for x in v)
    if isinstance(v, dict):
        return all(_all_concrete(k) and _all_concrete(x) for k, x in v.items())
    return v is None or isinstance(v, (bool, int, float, str, bytes))


def format_value(I, x, conv, spec):
    if conv == "r":
        x = repr_of(I, x)
    elif conv == "s":
        x = str_of(I, x)
    if spec:
        if isinstance(x, (int, float, str)) and isinstance(spec, str):
            return format(x, spec)
        h = I.w.stubs.get("format_spec")
        if h is not None:
            return h(I, x, spec)
        return Sym(z3.String(I.w.fresh("fmt")))
    return str_of(I, x)


# ----------------------------------------------------------------------------- items
def _norm_index(I, seq_len, k):
    if isinstance(k, Sym):
        raise EngineError("symbolic index into a concrete-shape sequence")
    if isinstance(k, bool):
        k = int(k)
    if not isinstance(k, int):
        I.raise_("TypeError", "indices must be integers")
    if k < -seq_len or k >= seq_len:
        I.raise_("IndexError", "index out of range")
    return k


def getitem(I, o, k):
    if isinstance(o, (list, tuple, collections.deque, str, bytes, range)):
        if isinstance(k, slice):
            if any(isinstance(x, Sym) for x in (k.start, k.stop, k.step)):
                raise EngineError("symbolic slice bounds on concrete sequence")
            if isinstance(o, collections.deque):
                I.raise_("TypeError", "sequence index must be integer, not 'slice'")
            return o[k]
        if isinstance(k, Sym) and k.kind == "int":
            # symbolic index into a concrete-shape sequence: fork over the feasible positions
            n = len(o)
            for i in range(n):
                if I.w.branch(ops.eq(k, i), f"index=={i}"):
                    return o[i]
            for i in range(1, n + 1):
                if I.w.branch(ops.eq(k, -i), f"index==-{i}"):
                    return o[-i]
            I.raise_("IndexError", "index out of range")
        return o[_norm_index(I, len(o), k)]
    if isinstance(o, dict):
        if isinstance(k, Sym):
            for kk in o:
                if I.truth(I.eq(kk, k)):
                    return o[kk]
            I.raise_("KeyError", k)
        try:
            if k in o:
                return o[k]
        except TypeError:
            I.raise_("TypeError", "unhashable type")
        if isinstance(o, collections.defaultdict) and o.default_factory is not None:
            return _dd_missing(I, o, k)
        I.raise_("KeyError", k)
    if isinstance(o, MsgVal):
        if isinstance(k, slice):
            return o.astuple()[k]
        return o.astuple()[_norm_index(I, 5, k)]
    if isinstance(o, Sym) and o.kind == "str":
        return sym_str_getitem(I, o, k)
    if isinstance(o, Obj):
        r = o.cls.lookup("__getitem__")
        if r and r[1] == "method":
            return I.call(BoundMethod(I.method_closure(r[0], r[2]), o), [k], {})
        I.raise_("TypeError", f"'{o.cls.name}' object is not subscriptable")
    if isinstance(o, Opaque):
        h = o.spec.get("getitem")
        if h is not None:
            return h(I, o, k)
        if "methods" in o.spec and "__getitem__" in o.spec["methods"]:
            return I.call(OpaqueMethod(o, "__getitem__"), [k], {})
        raise EngineError(f"subscript of opaque {o!r} not specified")
    if isinstance(o, (ExternalRef, ClassInfo, Builtin)):
        return o   # typing generics: dict[str, int] etc.
    sp = I.w.stubs.get(("getitem", type(o).__name__))
    if sp is not None:
        return sp(I, o, k)
    if o is None:
        I.raise_("TypeError", "'NoneType' object is not subscriptable")
    raise EngineError(f"getitem on {o!r}")


def _dd_missing(I, o, k):
    v = yield from I.call(o.default_factory, [], {})
    o[k] = v
    return v


def sym_str_getitem(I, o, k):
    if isinstance(k, slice):
        if k.step is not None:
            raise EngineError("string slice with step")
        n = z3.Length(o.t)
        lo = to_int_term(k.start) if k.start is not None else z3.IntVal(0)
        hi = to_int_term(k.stop) if k.stop is not None else n
        lo = z3.If(lo < 0, z3.If(n + lo < 0, 0, n + lo), z3.If(lo > n, n, lo))
        hi = z3.If(hi < 0, z3.If(n + hi < 0, 0, n + hi), z3.If(hi > n, n, hi))
        return ops.mk(z3.SubString(o.t, lo, z3.If(hi - lo < 0, 0, hi - lo)))
    raise EngineError("symbolic string indexing")


def setitem(I, o, k, v):
    if isinstance(o, list):
        if isinstance(k, slice):
            o[k] = list(v)
            return
        o[_norm_index(I, len(o), k)] = v
        return
    if isinstance(o, dict):
        I.check_hashable(k)
        I.note_write(o, k)
        o[k] = v
        return
    if isinstance(o, collections.deque):
        o[_norm_index(I, len(o), k)] = v
        return
    if isinstance(o, Obj):
        r = o.cls.lookup("__setitem__")
        if r and r[1] == "method":
            return I.call(BoundMethod(I.method_closure(r[0], r[2]), o), [k, v], {})
        I.raise_("TypeError", f"'{o.cls.name}' object does not support item assignment")
    if isinstance(o, Opaque):
        h = o.spec.get("setitem")
        if h is not None:
            return h(I, o, k, v)
        raise EngineError(f"item assignment on opaque {o!r} not specified")
    if isinstance(o, (tuple, str, MsgVal)):
        I.raise_("TypeError", "object does not support item assignment")
    raise EngineError(f"setitem on {o!r}")


def delitem(I, o, k):
    if isinstance(o, dict):
        if k not in o:
            I.raise_("KeyError", k)
        I.note_write(o, k)
        del o[k]
        return
    if isinstance(o, list):
        if isinstance(k, slice):
            del o[k]
            return
        del o[_norm_index(I, len(o), k)]
        return
    if isinstance(o, Obj):
        r = o.cls.lookup("__delitem__")
        if r and r[1] == "method":
            return I.call(BoundMethod(I.method_closure(r[0], r[2]), o), [k], {})
    if isinstance(o, Opaque):
        h = o.spec.get("delitem")
        if h is not None:
            return h(I, o, k)
    raise EngineError(f"delitem on {o!r}")


def special_contains(I, container, item):
    if isinstance(container, MsgVal):
        return I.contains(container.astuple(), item)
    if isinstance(container, Opaque):
        h = container.spec.get("contains")
        if h is not None:
            return h(I, container, item)
    from .interp import _ListIter
    if isinstance(container, _ListIter):
        return I.contains(container.items[container.i:], item)
    if isinstance(container, collections.abc.KeysView) or isinstance(container, collections.abc.ValuesView) or isinstance(container, collections.abc.ItemsView):
        return I.contains(list(container), item)
    return NotImplemented


def special_iter(I, v):
    from .interp import _ListIter
    if isinstance(v, (collections.abc.KeysView, collections.abc.ValuesView, collections.abc.ItemsView)):
        return _ListIter(list(v))
    if isinstance(v, (zip, map, enumerate, reversed)):
        return _ListIter(list(v))
    if isinstance(v, Opaque):
        h = v.spec.get("iter")
        if h is not None:
            return _ListIter(h(I, v))
    if isinstance(v, Sym):
        raise EngineError(f"iteration over symbolic scalar {v!r}")
    if hasattr(v, "__iter__") and type(v).__name__ in ("dict_keyiterator", "dict_valueiterator", "dict_itemiterator", "list_iterator", "tuple_iterator", "list_reverseiterator", "odict_iterator"):
        return _ListIter(list(v))
    return NotImplemented


def special_binop(I, op, a, b):
    from .vals import RLESeq
    if isinstance(a, RLESeq) or isinstance(b, RLESeq):
        if op == "+":
            def segs(x):
                if isinstance(x, RLESeq):
                    if not (isinstance(x.times, int) and x.times == 1):
                        raise EngineError("concatenation of a repeated run-length sequence")
                    return list(x.segments), x.is_tuple
                if isinstance(x, (list, tuple)):
                    return [(y, 1) for y in x], isinstance(x, tuple)
                raise EngineError(f"concatenation of run-length sequence with {x!r}")
            (sa, ta), (sb, tb) = segs(a), segs(b)
            if ta != tb:
                I.raise_("TypeError", "can only concatenate list (not tuple) to list")
            return RLESeq(sa + sb, 1, ta)
        if op == "*":
            seq, n = (a, b) if isinstance(a, RLESeq) else (b, a)
            return seq_repeat(I, seq, n)
        raise EngineError(f"{op} on run-length sequence")
    if op in ("&", "|", "-", "^") and (isinstance(a, _KeysView) or isinstance(b, _KeysView)):
        # dict key views support the set operators
        a = set(a) if isinstance(a, _KeysView) else a
        b = set(b) if isinstance(b, _KeysView) else b
    if op == "+" and isinstance(a, list) and isinstance(b, list):
        return a + b
    if op == "+" and isinstance(a, tuple) and isinstance(b, tuple):
        return a + b
    if op == "+" and isinstance(a, MsgVal) and isinstance(b, tuple):
        return a.astuple() + b
    if op == "*" and isinstance(a, (list, tuple)) and (isinstance(b, int) or (isinstance(b, Sym) and b.kind == "int")):
        return seq_repeat(I, a, b)
    if op == "*" and isinstance(b, (list, tuple)) and (isinstance(a, int) or (isinstance(a, Sym) and a.kind == "int")):
        return seq_repeat(I, b, a)
    if op == "*" and isinstance(a, str) and isinstance(b, int):
        return a * b
    if op == "%" and isinstance(a, str):
        if _all_concrete(b):
            try:
                return a % b
            except (TypeError, ValueError) as ex:
                I.raise_(type(ex).__name__, str(ex))
        h = I.w.stubs.get("str_percent")
        if h is not None:
            return h(I, a, b)
        return Sym(z3.String(I.w.fresh("pct")))
    if op == "|" and isinstance(a, (set, frozenset)) and isinstance(b, (set, frozenset)):
        return a | b
    if op == "&" and isinstance(a, (set, frozenset)) and isinstance(b, (set, frozenset)):
        return a & b
    if op == "-" and isinstance(a, (set, frozenset)) and isinstance(b, (set, frozenset)):
        return a - b
    if op == "^" and isinstance(a, (set, frozenset)) and isinstance(b, (set, frozenset)):
        return a ^ b
    if op == "|" and isinstance(a, dict) and isinstance(b, dict):
        if isinstance(a, collections.defaultdict) or isinstance(b, collections.defaultdict):
            # defaultdict.__or__ / __ror__ (3.9+): the result is a defaultdict with the default_factory of the defaultdict operand
            d = collections.defaultdict(None)
            d.default_factory = a.default_factory if isinstance(a, collections.defaultdict) else b.default_factory
            d.update(a)
            d.update(b)
            return d
        d = dict(a)
        d.update(b)
        return d
    if op in ("|", "&", "^", "<<", ">>") and isinstance(a, int) and isinstance(b, int):
        return {"|": a | b, "&": a & b, "^": a ^ b, "<<": a << b if op == "<<" else 0, ">>": a >> b if op == ">>" else 0}[op]
    if op in ("|", "&") and (isinstance(a, Sym) or isinstance(b, Sym)):
        if all(isinstance(x, bool) or (isinstance(x, Sym) and x.kind == "bool") for x in (a, b)):
            return ops.or_(a, b) if op == "|" else ops.and_(a, b)
    for x, y, refl in ((a, b, False), (b, a, True)):
        if isinstance(x, Obj):
            nm = {"+": "add", "-": "sub", "*": "mul", "/": "truediv", "//": "floordiv", "%": "mod", "|": "or", "&": "and", "**": "pow", "@": "matmul"}[op]
            r = x.cls.lookup(f"__{'r' if refl else ''}{nm}__")
            if r and r[1] == "method":
                return I.call(BoundMethod(I.method_closure(r[0], r[2]), x), [y], {})
        if isinstance(x, Opaque):
            h = x.spec.get("binop")
            if h is not None:
                return h(I, op, a, b)
            raise EngineError(f"binop {op} on opaque {x!r} not specified")
    if a is None or b is None:
        I.raise_("TypeError", f"unsupported operand type(s) for {op}: {type(a).__name__} and {type(b).__name__}")
    return NotImplemented


def seq_repeat(I, seq, n):
    """list/tuple * n; a symbolic n gives a run-length description (RLESeq)"""
    from .vals import RLESeq
    if isinstance(seq, RLESeq):
        cnt = ops.ite(ops.compare("<", n, 0), 0, n) if isinstance(n, Sym) else max(n, 0)
        return RLESeq(seq.segments, I.run(I.binop("*", seq.times, cnt)), seq.is_tuple)
    if isinstance(n, Sym):
        cnt = ops.ite(ops.compare("<", n, 0), 0, n)
        return RLESeq([(x, cnt) for x in seq], 1, isinstance(seq, tuple)) if len(seq) <= 1 else RLESeq([(x, 1) for x in seq], cnt, isinstance(seq, tuple))
    return seq * n


def rle_len(I, v):
    tot = 0
    for _, c in v.segments:
        tot = ops.binop("+", tot, c)
    return I.run(I.binop("*", v.times, tot))


def rle_sum(I, v):
    tot = 0
    for x, c in v.segments:
        tot = ops.binop("+", tot, I.run(I.binop("*", x, c)))
    return I.run(I.binop("*", v.times, tot))


def special_compare(I, sym, a, b):
    for x in (a, b):
        if isinstance(x, Opaque):
            h = x.spec.get("compare")
            if h is not None:
                return h(I, sym, a, b)
            raise EngineError(f"comparison {sym} on opaque {x!r} not specified")
    if isinstance(a, (set, frozenset)) and isinstance(b, (set, frozenset)):
        return {"<": a < b, "<=": a <= b, ">": a > b, ">=": a >= b}[sym]
    if isinstance(a, (tuple, list)) and isinstance(b, (tuple, list)) and (any(is_sym(x) for x in a) or any(is_sym(x) for x in b)):
        # lexicographic
        res = False
        prefix_eq = True
        for x, y in zip(a, b):
            lt = ops.compare("<" if sym in ("<", "<=") else ">", x, y)
            res = ops.or_(res, ops.and_(prefix_eq, lt))
            prefix_eq = ops.and_(prefix_eq, ops.eq(x, y))
        if len(a) != len(b):
            shorter = (len(a) < len(b)) if sym in ("<", "<=") else (len(a) > len(b))
            res = ops.or_(res, ops.and_(prefix_eq, shorter))
        elif sym in ("<=", ">="):
            res = ops.or_(res, prefix_eq)
        return res
    return NotImplemented


# ----------------------------------------------------------------------------- host attribute access
_LIST_METHODS = {"append", "extend", "pop", "remove", "index", "count", "insert", "reverse", "sort", "copy", "clear"}
_DICT_METHODS = {"get", "items", "keys", "values", "pop", "popitem", "setdefault", "update", "copy", "clear", "move_to_end", "fromkeys"}
_SET_METHODS = {"add", "discard", "remove", "pop", "update", "union", "intersection", "difference", "copy", "clear",
                "issubset", "issuperset", "isdisjoint", "symmetric_difference", "difference_update", "intersection_update"}
_DEQUE_METHODS = {"append", "appendleft", "pop", "popleft", "extend", "clear", "copy", "remove", "count", "index", "extendleft", "rotate"}
_STR_METHODS = {"format", "join", "split", "replace", "startswith", "endswith", "strip", "lstrip", "rstrip", "lower", "upper",
                "encode", "decode", "rsplit", "find", "count", "index", "isdigit", "zfill", "partition", "rpartition", "splitlines",
                "title", "capitalize", "rjust", "ljust", "center", "isidentifier", "isalnum", "isalpha", "format_map", "casefold", "rfind"}
_TUPLE_METHODS = {"index", "count"}


def host_getattr(I, obj, name):
    if isinstance(obj, list) and name in _LIST_METHODS:
        return HostMethod(obj, name)
    if isinstance(obj, dict) and name in _DICT_METHODS:
        return HostMethod(obj, name)
    if isinstance(obj, collections.defaultdict) and name == "default_factory":
        return obj.default_factory
    if isinstance(obj, (set, frozenset)) and name in _SET_METHODS:
        return HostMethod(obj, name)
    if isinstance(obj, collections.deque) and (name in _DEQUE_METHODS or name == "maxlen"):
        if name == "maxlen":
            return obj.maxlen
        return HostMethod(obj, name)
    if isinstance(obj, (str, bytes)) and name in _STR_METHODS:
        return HostMethod(obj, name)
    if isinstance(obj, Sym) and obj.kind == "str" and name in _STR_METHODS:
        return HostMethod(obj, name)
    if isinstance(obj, tuple) and name in _TUPLE_METHODS:
        return HostMethod(obj, name)
    if isinstance(obj, slice) and name in ("start", "stop", "step"):
        return getattr(obj, name)
    if isinstance(obj, range) and name in ("start", "stop", "step"):
        return getattr(obj, name)
    if isinstance(obj, Sym) and obj.kind in ("real", "int") and name == "is_integer":
        # float.is_integer() / int.is_integer() on a symbolic number (A-REAL: floats are mathematical reals)
        t = obj.t
        return native(lambda I_, a, k: True if obj.kind == "int" else ops.mk(z3.IsInt(t)))
    if isinstance(obj, (int, float)) and name in ("real", "imag", "is_integer", "bit_length"):
        if name == "real":
            return obj
        if name == "imag":
            return 0
        return HostMethod(obj, name)
    if isinstance(obj, Builtin):
        if name == "__name__":
            return obj.name
        if obj.name == "dict" and name == "fromkeys":
            def fromkeys(I_, a, k):
                keys = list(I_.run(I_.iterate(a[0])))
                if any(isinstance(x, Sym) for x in keys):
                    # symbolic keys: equal values are ONE key - one representative per value in order of first occurrence,
                    # forking on equality (as set() does); the representatives are pairwise distinct on the path
                    keys = I_.make_set(keys).items
                else:
                    for x in keys:
                        I_.check_hashable(x)
                return {x: (a[1] if len(a) > 1 else None) for x in keys}
            return native(fromkeys)
        if obj.name == "object" and name == "__setattr__":
            def osa(I_, a, k):
                a[0].attrs[a[1]] = a[2]
            return native(osa)
        if obj.name == "object" and name == "__new__":
            return native(lambda I_, a, k: Obj(a[0]))
        if obj.name == "type" and name == "__call__":
            return None
    h = I.w.stubs.get(("getattr", type(obj).__name__))
    if h is not None:
        return h(I, obj, name)
    return NotImplemented


def call_host_method(I, obj, name, args, kwargs):
    from .interp import GenObj, AbsGen, PyRaise, _ListIter
    if isinstance(obj, (GenObj, AbsGen)):
        return gen_method(I, obj, name, args)
    if isinstance(obj, MsgVal):
        if name == "_replace":
            d = dict(zip(MsgVal.FIELDS, obj.astuple()))
            for k in kwargs:
                if k not in d:
                    I.raise_("ValueError", f"Got unexpected field names: {k}")
            d.update(kwargs)
            return MsgVal(d["command"], d["obj"], d["args"], d["kwargs"], d["run"])
        if name == "_asdict":
            return dict(zip(MsgVal.FIELDS, obj.astuple()))
        if name == "_fields":
            return MsgVal.FIELDS
        return call_host_method(I, obj.astuple(), name, args, kwargs)
    if isinstance(obj, list):
        return list_method(I, obj, name, args, kwargs)
    if isinstance(obj, dict):
        return dict_method(I, obj, name, args, kwargs)
    if isinstance(obj, (set, frozenset)):
        return set_method(I, obj, name, args, kwargs)
    if isinstance(obj, collections.deque):
        return deque_method(I, obj, name, args, kwargs)
    if isinstance(obj, tuple):
        if name == "index":
            return seq_index(I, obj, args[0])
        if name == "count":
            return seq_count(I, obj, args[0])
    if isinstance(obj, (str, bytes)) or (isinstance(obj, Sym) and obj.kind == "str"):
        return str_method(I, obj, name, args, kwargs)
    if isinstance(obj, float) and name == "is_integer":
        return obj.is_integer()
    raise EngineError(f"host method {name} on {type(obj).__name__}")


def gen_method(I, g, name, args):
    from .interp import PyRaise
    if name == "__iter__":
        return g
    if name == "send" or name == "__next__":
        v = args[0] if name == "send" else None
        out = g.resume(("send", v))
        if out[0] == "yield":
            return out[1]
        if out[0] == "await":
            raise EngineError("send() reached an await event")
        raise PyRaise(I.mkexc("StopIteration", *([] if out[1] is None else [out[1]])))
    if name == "throw":
        e = args[0]
        if isinstance(e, ClassInfo):
            e = I.run(I.instantiate(e, list(args[1:2]), {}))
        out = g.resume(("throw", e))
        if out[0] == "yield":
            return out[1]
        raise PyRaise(I.mkexc("StopIteration", *([] if out[1] is None else [out[1]])))
    if name == "close":
        g.resume(("close",))
        return None
    raise EngineError(name)


def seq_index(I, seq, x):
    for i, y in enumerate(seq):
        if I.truth(I.eq(y, x)):
            return i
    I.raise_("ValueError", "x not in sequence")


def seq_count(I, seq, x):
    n = 0
    for y in seq:
        n = ops.binop("+", n, ops.ite(I.eq(y, x), 1, 0))
    return n


def list_method(I, lst, name, args, kwargs):
    if name == "append":
        lst.append(args[0])
        return None
    if name == "extend":
        lst.extend(I.run(I.iterate(args[0])))
        return None
    if name == "pop":
        if not lst:
            I.raise_("IndexError", "pop from empty list")
        if args:
            return lst.pop(_norm_index(I, len(lst), args[0]))
        return lst.pop()
    if name == "remove":
        i = seq_index(I, lst, args[0])
        del lst[i]
        return None
    if name == "index":
        return seq_index(I, lst, args[0])
    if name == "count":
        return seq_count(I, lst, args[0])
    if name == "insert":
        lst.insert(args[0], args[1])
        return None
    if name == "reverse":
        lst.reverse()
        return None
    if name == "copy":
        return list(lst)
    if name == "clear":
        lst.clear()
        return None
    if name == "sort":
        out = sorted_(I, [lst], kwargs)
        out = I.run(out) if _isgen(out) else out
        lst[:] = out
        return None
    raise EngineError(f"list.{name}")


def dict_method(I, d, name, args, kwargs):
    if name == "get":
        k = args[0]
        default = args[1] if len(args) > 1 else kwargs.get("default")
        if isinstance(k, Sym):
            for kk in d:
                if I.truth(I.eq(kk, k)):
                    return d[kk]
            return default
        try:
            return d[k] if k in d else default
        except TypeError:
            I.raise_("TypeError", "unhashable type")
    if name == "items":
        return _DictView(d, "items")
    if name == "keys":
        return _KeysView(d)
    if name == "values":
        return _DictView(d, "values")
    if name == "pop":
        k = args[0]
        if k in d:
            I.note_write(d, k)
            return d.pop(k)
        if len(args) > 1:
            return args[1]
        I.raise_("KeyError", k)
    if name == "popitem":
        if not d:
            I.raise_("KeyError", "popitem(): dictionary is empty")
        if isinstance(d, collections.OrderedDict):
            return d.popitem(**kwargs) if not args else d.popitem(*args)
        return d.popitem()
    if name == "setdefault":
        k = args[0]
        I.check_hashable(k)
        if k not in d:
            I.note_write(d, k)
            d[k] = args[1] if len(args) > 1 else None
        return d[k]
    if name == "update":
        for a in args:
            if isinstance(a, dict):
                for k in a:
                    I.note_write(d, k)
                d.update(a)
            else:
                for kv in I.run(I.iterate(a)):
                    k, v = I.run(I.iterate(kv))
                    I.note_write(d, k)
                    d[k] = v
        for k, v in kwargs.items():
            I.note_write(d, k)
            d[k] = v
        return None
    if name == "copy":
        return type(d)(d) if not isinstance(d, collections.defaultdict) else d.copy()
    if name == "clear":
        for k in list(d):
            I.note_write(d, k)
        d.clear()
        return None
    if name == "move_to_end":
        d.move_to_end(*args, **kwargs)
        return None
    raise EngineError(f"dict.{name}")


class _KeysView(list):
    kind = "keys"

    def __init__(self, d):
        super().__init__(d.keys())
        self.d = d


class _DictView(list):
    """d.items() / d.values(): a snapshot list for every list-like use (len, ==, sorted, list(...)) that remembers its dict, so that
    a `for` loop over it iterates the live dict (Interp.get_iter -> _DictIter: RuntimeError when the size changes meanwhile)"""

    def __init__(self, d, kind):
        super().__init__(d.items() if kind == "items" else d.values())
        self.d = d
        self.kind = kind


def set_method(I, s, name, args, kwargs):
    if name == "add":
        I.check_hashable(args[0])
        I.note_write(s, args[0])
        s.add(args[0])
        return None
    if name == "discard":
        I.note_write(s, args[0])
        s.discard(args[0])
        return None
    if name == "remove":
        if args[0] not in s:
            I.raise_("KeyError", args[0])
        I.note_write(s, args[0])
        s.remove(args[0])
        return None
    if name == "pop":
        if not s:
            I.raise_("KeyError", "pop from an empty set")
        # arbitrary element: the harness-independent choice is modelled as a non-deterministic choice
        items = list(s)
        x = I.w.choose(items, "set.pop") if len(items) > 1 else items[0]
        s.remove(x)
        return x
    if name in ("update", "difference_update", "intersection_update"):
        others = [set(I.run(I.iterate(a))) for a in args]
        for o in others:
            getattr(s, name)(o)
        return None
    if name in ("union", "intersection", "difference", "symmetric_difference"):
        others = [set(I.run(I.iterate(a))) for a in args]
        return getattr(s, name)(*others)
    if name in ("issubset", "issuperset", "isdisjoint"):
        return getattr(s, name)(set(I.run(I.iterate(args[0]))))
    if name == "copy":
        return set(s) if isinstance(s, set) else s
    if name == "clear":
        s.clear()
        return None
    raise EngineError(f"set.{name}")


def deque_method(I, d, name, args, kwargs):
    if name in ("append", "appendleft"):
        getattr(d, name)(args[0])
        return None
    if name in ("pop", "popleft"):
        if not d:
            I.raise_("IndexError", "pop from an empty deque")
        floor = I.w.ghost.get("$floors", {}).get(id(d))
        if floor is not None and (len(d) <= floor or name == "popleft"):
            # a cut invariant declared the entries below `floor` dead; reading one of them invalidates the closure
            raise EngineError("cut invariant violated: an entry declared dead at the last cut point is popped")
        return getattr(d, name)()
    if name in ("extend", "extendleft"):
        getattr(d, name)(I.run(I.iterate(args[0])))
        return None
    if name == "clear":
        d.clear()
        return None
    if name == "copy":
        return collections.deque(d, d.maxlen)
    if name == "remove":
        i = seq_index(I, list(d), args[0])
        del d[i]
        return None
    if name == "count":
        return seq_count(I, list(d), args[0])
    if name == "index":
        return seq_index(I, list(d), args[0])
    if name == "rotate":
        d.rotate(*args)
        return None
    raise EngineError(f"deque.{name}")


def str_method(I, s, name, args, kwargs):
    sym = isinstance(s, Sym) or any(isinstance(a, Sym) for a in args)
    if not sym and name != "format" and name != "join":
        try:
            return getattr(s, name)(*args, **kwargs)
        except (ValueError, TypeError, IndexError, KeyError, UnicodeError) as ex:
            I.raise_(type(ex).__name__ if type(ex).__name__ in BUILTIN_CLASSES else "ValueError", str(ex))
    if name == "format":
        vals = [str_of_fmt(I, a) for a in args]
        if isinstance(s, str) and all(isinstance(v, str) for v in vals) and all(isinstance(v, (str, int, float, type(None))) for v in kwargs.values()):
            try:
                return s.format(*args, **kwargs) if _all_concrete(list(args)) else s.format(*vals, **kwargs)
            except (IndexError, KeyError, ValueError) as ex:
                I.raise_(type(ex).__name__, str(ex))
        h = I.w.stubs.get("str.format")
        if h is not None:
            return h(I, s, args, kwargs)
        return Sym(z3.String(I.w.fresh("fmt")))
    if name == "join":
        items = I.run(I.iterate(args[0]))
        for x in items:
            if not (isinstance(x, str) or isinstance(x, bytes) or (isinstance(x, Sym) and x.kind == "str")):
                I.raise_("TypeError", "sequence item: expected str instance")
        if not items:
            return "" if not isinstance(s, bytes) else b""
        if all(isinstance(x, (str, bytes)) for x in items) and isinstance(s, (str, bytes)):
            return s.join(items)
        out = items[0]
        for x in items[1:]:
            out = ops.binop("+", ops.binop("+", out, s), x)
        return out
    st = to_str_term(s)
    if name == "startswith":
        return ops.mk(z3.PrefixOf(to_str_term(args[0]), st))
    if name == "endswith":
        return ops.mk(z3.SuffixOf(to_str_term(args[0]), st))
    if name == "replace":
        h = I.w.stubs.get("str.replace")
        if h is not None:
            return h(I, s, args)
        raise EngineError("symbolic str.replace needs a stub (replace-all semantics)")
    if name == "find":
        return ops.mk(z3.IndexOf(st, to_str_term(args[0]), 0))
    if name in ("encode", "decode"):
        h = I.w.stubs.get("str." + name)
        if h is not None:
            return h(I, s, args)
        return s
    h = I.w.stubs.get("str." + name)
    if h is not None:
        return h(I, s, args, kwargs)
    raise EngineError(f"symbolic str.{name}")


def str_of_fmt(I, a):
    r = str_of(I, a)
    return r


# ----------------------------------------------------------------------------- builtin functions
def sorted_(I, args, kwargs):
    items = list(I.run(I.iterate(args[0])))
    key = kwargs.get("key")
    rev = kwargs.get("reverse", False)
    if key is not None:
        keys = []
        for x in items:
            k = yield from I.call(key, [x], {})
            keys.append(k)
    else:
        keys = items
    if all(not _has_sym(k) for k in keys):
        try:
            order = sorted(range(len(items)), key=lambda i: keys[i], reverse=bool(rev))
        except TypeError as ex:
            I.raise_("TypeError", str(ex))
        return [items[i] for i in order]
    # symbolic keys over a concrete shape: insertion sort, forking on comparisons (stable)
    order = []
    for i in range(len(items)):
        pos = len(order)
        for j, o in enumerate(order):
            lt = ops.compare("<", keys[i], keys[o]) if not rev else ops.compare(">", keys[i], keys[o])
            if I.truth(lt, "sorted-cmp"):
                pos = j
                break
        order.insert(pos, i)
    return [items[i] for i in order]


def _has_sym(v):
    if isinstance(v, Sym):
        return True
    if isinstance(v, (tuple, list)):
        return any(_has_sym(x) for x in v)
    return False


def minmax(I, args, kwargs, which):
    if len(args) == 1:
        items = list(I.run(I.iterate(args[0])))
    else:
        items = list(args)
    key = kwargs.get("key")
    if not items:
        if "default" in kwargs:
            return kwargs["default"]
        I.raise_("ValueError", f"{which}() arg is an empty sequence")
    best = items[0]
    bk = (yield from I.call(key, [best], {})) if key else best
    for x in items[1:]:
        xk = (yield from I.call(key, [x], {})) if key else x
        r = yield from I.compare_op(ast.Lt() if which == "min" else ast.Gt(), xk, bk)
        if isinstance(r, Sym) and numeric_kind(best) and numeric_kind(x) and key is None and not isinstance(best, bool):
            best = ops.ite(r, x, best)
            bk = best
        elif I.truth(r, which):
            best, bk = x, xk
    return best


def make_builtins(I):
    from .interp import PyRaise, GenObj, AbsGen, _ListIter, _IterStop
    B = {}

    def reg(name, gen=False):
        def deco(f):
            B[name] = Builtin(name, f, gen=gen)
            return f
        return deco

    @reg("len")
    def _len(I, a, k):
        v = a[0]
        from .vals import RLESeq, SymSet
        if isinstance(v, RLESeq):
            return rle_len(I, v)
        if isinstance(v, SymSet):
            return len(v.items)
        if isinstance(v, (list, tuple, dict, set, frozenset, str, bytes, collections.deque, range)):
            return len(v)
        if isinstance(v, MsgVal):
            return 5
        if isinstance(v, Sym) and v.kind == "str":
            return ops.mk(z3.Length(v.t))
        if isinstance(v, Obj):
            r = v.cls.lookup("__len__")
            if r and r[1] == "method":
                return I.call_value(BoundMethod(I.method_closure(r[0], r[2]), v))
        if isinstance(v, Opaque):
            h = v.spec.get("len")
            if h is not None:
                return h(I, v)
            if "len" in v.spec.get("absent", ()):
                I.raise_("TypeError", "object has no len()")
            raise EngineError(f"len of opaque {v!r} not specified")
        if isinstance(v, _ListIter) or isinstance(v, (GenObj, AbsGen)):
            I.raise_("TypeError", "object of type 'generator' has no len()")
        I.raise_("TypeError", f"object of type '{type(v).__name__}' has no len()")

    @reg("isinstance")
    def _isinstance(I, a, k):
        return isinstance_(I, a[0], a[1])

    @reg("issubclass")
    def _issubclass(I, a, k):
        c, t = a
        ts = t if isinstance(t, tuple) else (t,)
        if isinstance(c, ClassInfo):
            return any(isinstance(x, ClassInfo) and c.issubclass(x) for x in ts)
        raise EngineError("issubclass on non-class")

    @reg("callable")
    def _callable(I, a, k):
        v = a[0]
        if isinstance(v, (Closure, BoundMethod, Builtin, ClassInfo, HostMethod, OpaqueMethod, ExternalRef)):
            return True
        if isinstance(v, Obj):
            return v.cls.lookup("__call__") is not None
        if isinstance(v, Opaque):
            c = v.spec.get("callable")
            if c is None:
                raise EngineError(f"callable({v!r}) not specified")
            if c == "sym":
                if "$callable" not in v.attrs:
                    v.attrs["$callable"] = I.w.bool(f"callable({v.name})", fresh=True)
                return v.attrs["$callable"]
            return bool(c)
        if getattr(v, "_pyvc_native", False):
            return True
        return False

    @reg("hasattr")
    def _hasattr(I, a, k):
        o, name = a
        if isinstance(o, Opaque):
            h = o.spec.get("hasattr")
            if h is not None and name in h:
                r = h[name]
                if r == "sym":
                    key = f"$has:{name}"
                    if key not in o.attrs:
                        o.attrs[key] = I.w.bool(f"hasattr({o.name},{name})", fresh=True)
                    return o.attrs[key]
                return bool(r)
        try:
            I.getattr(o, name)
            return True
        except PyRaise as pr:
            if I.exc_isinstance(pr.exc, "AttributeError"):
                return False
            raise

    @reg("getattr")
    def _getattr(I, a, k):
        try:
            return I.getattr(a[0], a[1])
        except PyRaise as pr:
            if len(a) > 2 and I.exc_isinstance(pr.exc, "AttributeError"):
                return a[2]
            raise

    @reg("setattr")
    def _setattr(I, a, k):
        I.setattr(a[0], a[1], a[2])

    @reg("delattr")
    def _delattr(I, a, k):
        o, name = a
        if isinstance(o, (Obj, Opaque)) and name in o.attrs:
            del o.attrs[name]
            return None
        I.raise_("AttributeError", name)

    @reg("id")
    def _id(I, a, k):
        v = a[0]
        if isinstance(v, Sym):
            raise EngineError("id() of symbolic scalar")
        if isinstance(v, (int, str)):
            return ("$id", v)
        I.w.ghost.setdefault("$ids", {})[id(v)] = v      # keeps the object alive, so the host id stays unique
        return ("$id", id(v))

    @reg("hash")
    def _hash(I, a, k):
        return ("$hash", id(a[0]))

    @reg("type")
    def _type(I, a, k):
        v = a[0]
        if isinstance(v, Obj):
            return v.cls
        tn = typenames(I, v)
        for n in ("bool", "int", "float", "str", "tuple", "list", "dict", "set", "frozenset", "bytes", "NoneType"):
            if n in tn and (n != "int" or "bool" not in tn):
                return B.get(n) or Builtin(n, None)
        if isinstance(v, Opaque):
            t = v.spec.get("type")
            if t is not None:
                return t
        from .interp import GenObj, AbsGen
        if isinstance(v, (GenObj, AbsGen)):
            return Opaque("generator-type", {"token": "type", "truth": True, "attrs": {"__name__": "generator", "__qualname__": "generator"}})
        raise EngineError(f"type() of {v!r}")

    @reg("bool")
    def _bool(I, a, k):
        if not a:
            return False
        v = a[0]
        if isinstance(v, Sym):
            if v.kind == "bool":
                return v
            if v.kind in ("int", "real"):
                return ops.mk(v.t != 0)
            if v.kind == "str":
                return ops.mk(z3.Length(v.t) > 0)
        return I.truth(v, "bool()")

    @reg("int")
    def _int(I, a, k):
        if not a:
            return 0
        v = a[0]
        if isinstance(v, Sym):
            if v.kind == "int":
                return Sym(v.t)
            if v.kind == "bool":
                return ops.mk(to_int_term(v))
            if v.kind == "real":
                # truncation toward zero
                t = v.t
                return ops.mk(z3.If(t >= 0, z3.ToInt(t), -z3.ToInt(-t)))
            if v.kind == "str":
                h = I.w.stubs.get("int_of_str")
                if h is not None:
                    return h(I, v)
                # decimal digit strings only (str.to_int is -1 otherwise): other accepted spellings of int()
                # (whitespace, sign, underscores) are treated as ValueError - stated in the trusted base
                n = z3.StrToInt(v.t)
                if I.w.branch(ops.mk(n >= 0), "int(str) is a digit string"):
                    return ops.mk(n)
                I.raise_("ValueError", "invalid literal for int()")
        if type(v).__name__ == "FSpec":
            if v.kind == "nan":
                I.raise_("ValueError", "cannot convert float NaN to integer")
            I.raise_("OverflowError", "cannot convert float infinity to integer")
        if isinstance(v, (int, float, str, bool)):
            try:
                return int(v, *a[1:])  if isinstance(v, str) else int(v)
            except (ValueError, OverflowError) as ex:
                I.raise_(type(ex).__name__, str(ex))
        if isinstance(v, Opaque):
            h = v.spec.get("int")
            if h is not None:
                return h(I, v)
        I.raise_("TypeError", f"int() argument must be a string or a number, not {type(v).__name__}")

    @reg("float")
    def _float(I, a, k):
        if not a:
            return 0.0
        v = a[0]
        if isinstance(v, Sym):
            if v.kind == "real":
                return Sym(v.t)
            if v.kind in ("int", "bool"):
                return Sym(to_real_term(v))
        if type(v).__name__ == "FSpec":
            from .vals import FSpec
            return FSpec(v.kind)           # float(inf / -inf / nan of any floating type) is the same special value as a Python float
        if isinstance(v, (int, float, bool, str)):
            try:
                return float(v)
            except ValueError as ex:
                I.raise_("ValueError", str(ex))
        if isinstance(v, Opaque):
            h = v.spec.get("float")
            if h is not None:
                return h(I, v)
        I.raise_("TypeError", "float() argument must be a string or a number")

    @reg("str")
    def _str(I, a, k):
        if not a:
            return ""
        if len(a) > 1 and isinstance(a[0], bytes):
            return a[0].decode(a[1])
        return str_of(I, a[0])

    @reg("repr")
    def _repr(I, a, k):
        return repr_of(I, a[0])

    @reg("bytes")
    def _bytes(I, a, k):
        if not a:
            return b""
        if isinstance(a[0], (str, bytes, int, list)):
            return bytes(*a)
        if isinstance(a[0], Sym) and a[0].kind == "str" and a[0].pytype == ("bytes",):
            return a[0]
        raise EngineError("bytes()")

    @reg("abs")
    def _abs(I, a, k):
        v = a[0]
        if isinstance(v, Sym):
            return ops.ite(ops.compare("<", v, 0), ops.unop("-", v), v)
        if isinstance(v, Opaque):
            h = v.spec.get("abs")
            if h is not None:
                return h(I, v)
        return abs(v)

    @reg("round")
    def _round(I, a, k):
        if all(isinstance(x, (int, float)) for x in a):
            return round(*a)
        raise EngineError("round of symbolic")

    @reg("min", gen=True)
    def _min(I, a, k):
        return (yield from minmax(I, a, k, "min"))

    @reg("max", gen=True)
    def _max(I, a, k):
        return (yield from minmax(I, a, k, "max"))

    @reg("sum")
    def _sum(I, a, k):
        from .vals import RLESeq
        if isinstance(a[0], RLESeq):
            return rle_sum(I, a[0])
        items = I.run(I.iterate(a[0]))
        acc = a[1] if len(a) > 1 else k.get("start", 0)
        for x in items:
            acc = I.run(I.binop("+", acc, x))
        return acc

    @reg("any")
    def _any(I, a, k):
        for x in I.run(I.iterate(a[0])):
            if I.truth(x, "any"):
                return True
        return False

    @reg("all")
    def _all(I, a, k):
        for x in I.run(I.iterate(a[0])):
            if not I.truth(x, "all"):
                return False
        return True

    @reg("range")
    def _range(I, a, k):
        if any(isinstance(x, Sym) for x in a):
            h = I.w.stubs.get("range")
            if h is not None:
                return h(I, a)
            from .vals import SymRange
            if len(a) == 1:
                return SymRange(0, a[0])
            if len(a) == 2:
                return SymRange(a[0], a[1])
            raise EngineError("range() with a symbolic step")
        if any(not isinstance(x, int) for x in a):
            I.raise_("TypeError", "range() integer argument expected")
        return range(*a)

    @reg("zip")
    def _zip(I, a, k):
        lists = [I.run(I.iterate(x)) for x in a]
        if k.get("strict") and len({len(x) for x in lists}) > 1:
            I.raise_("ValueError", "zip() arguments have different lengths")
        return _ListIter([tuple(t) for t in zip(*lists)])

    @reg("enumerate")
    def _enumerate(I, a, k):
        start = a[1] if len(a) > 1 else k.get("start", 0)
        return _ListIter([(start + i, x) for i, x in enumerate(I.run(I.iterate(a[0])))])

    @reg("reversed")
    def _reversed(I, a, k):
        v = a[0]
        if isinstance(v, (list, tuple, range, collections.deque, str)):
            return _ListIter(list(reversed(v)))
        if isinstance(v, dict):
            return _ListIter(list(reversed(list(v))))
        return _ListIter(list(reversed(I.run(I.iterate(v)))))

    @reg("sorted", gen=True)
    def _sorted(I, a, k):
        return (yield from sorted_(I, a, k))

    @reg("list")
    def _list(I, a, k):
        from .vals import RLESeq
        if a and isinstance(a[0], RLESeq):
            return RLESeq(a[0].segments, a[0].times, False)
        return list(I.run(I.iterate(a[0]))) if a else []

    @reg("tuple")
    def _tuple(I, a, k):
        from .vals import RLESeq
        if a and isinstance(a[0], RLESeq):
            return RLESeq(a[0].segments, a[0].times, True)
        return tuple(I.run(I.iterate(a[0]))) if a else ()

    @reg("dict")
    def _dict(I, a, k):
        d = {}
        if a:
            src = a[0]
            if isinstance(src, dict):
                d.update(src)
            elif isinstance(src, Obj) and src.cls.lookup("keys"):
                for kk in I.run(I.iterate(I.call_value(I.getattr(src, "keys")))):
                    d[kk] = I.run(I.getitem(src, kk))
            elif isinstance(src, Opaque):
                h = src.spec.get("as_dict")
                if h is None:
                    raise EngineError(f"dict({src!r}) not specified")
                d.update(h(I, src))
            else:
                for kv in I.run(I.iterate(src)):
                    kk, vv = I.run(I.iterate(kv))
                    I.check_hashable(kk)
                    d[kk] = vv
        d.update(k)
        return d

    @reg("set")
    def _set(I, a, k):
        return I.make_set(I.run(I.iterate(a[0]))) if a else set()

    @reg("frozenset")
    def _frozenset(I, a, k):
        return frozenset(I.make_set(I.run(I.iterate(a[0])))) if a else frozenset()

    @reg("iter")
    def _iter(I, a, k):
        return I.run(I.get_iter(a[0]))

    @reg("next", gen=True)
    def _next(I, a, k):
        try:
            return (yield from I.iter_next(a[0] if not isinstance(a[0], (list, tuple)) else I.raise_("TypeError", "not an iterator")))
        except _IterStop as s:
            if len(a) > 1:
                return a[1]
            raise PyRaise(I.mkexc("StopIteration", *([] if s.value is None else [s.value])))

    @reg("print")
    def _print(I, a, k):
        return None

    @reg("object")
    def _object(I, a, k):
        return Obj(BUILTIN_CLASSES["object"])

    @reg("slice")
    def _slice(I, a, k):
        return slice(*a)

    @reg("divmod")
    def _divmod(I, a, k):
        return (I.run(I.binop("//", a[0], a[1])), I.run(I.binop("%", a[0], a[1])))

    @reg("pow")
    def _pow(I, a, k):
        return I.run(I.binop("**", a[0], a[1]))

    @reg("vars")
    def _vars(I, a, k):
        return a[0].attrs

    @reg("property")
    def _property(I, a, k):
        raise EngineError("property() used as a function")

    @reg("staticmethod")
    def _staticmethod(I, a, k):
        return a[0]

    @reg("format")
    def _format(I, a, k):
        return format_value(I, a[0], None, a[1] if len(a) > 1 else None)

    @reg("chr")
    def _chr(I, a, k):
        return chr(a[0])

    @reg("ord")
    def _ord(I, a, k):
        return ord(a[0])

    @reg("map")
    def _map(I, a, k):
        f = a[0]
        lists = [I.run(I.iterate(x)) for x in a[1:]]
        return _ListIter([I.call_value(f, *t) for t in zip(*lists)])

    @reg("filter")
    def _filter(I, a, k):
        f = a[0]
        items = I.run(I.iterate(a[1]))
        return _ListIter([x for x in items if I.truth(I.call_value(f, x) if f is not None else x)])

    B["NotImplemented"] = NotImplemented
    B["Ellipsis"] = Ellipsis
    B["__debug__"] = True
    B["__name__"] = "__pyvc__"
    return B
