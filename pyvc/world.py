"""Per-path world: path condition, decision vector (re-execution forking, DESIGN A.4),
obligations and ghost logs."""
import hashlib
import os
import sys
import subprocess
import tempfile
import time

import z3

from .source import EngineError
from .vals import Sym, to_bool_term
from . import ops

QUERY_TIMEOUT_MS = int(os.environ.get("PYVC_QUERY_TIMEOUT_MS", "10000"))


class PathEnd(Exception):
    """the current path stops here (infeasible assumption, cut point, or explicit stop)"""

    def __init__(self, reason="end"):
        self.reason = reason


class ForkCtl:
    """fork-based depth-first exploration (opt-in per task): at a new decision the alternatives are explored by forked
    children that continue from the *current* interpreter state (no re-execution of the prefix); the processes run strictly one
    at a time (the parent waits), sharing the closure set and the results through append-only files."""

    def __init__(self):
        self.enabled = False
        self.depth = 0
        self.max_depth = 150
        self.is_child = False
        self.dir = None
        self.on_child = []         # callbacks run in a fresh child
        self.seen_sets = {}

    def start(self, directory):
        self.enabled, self.dir, self.depth, self.is_child = True, directory, 0, False
        os.makedirs(directory, exist_ok=True)

    def append(self, name, data: bytes):
        fd = os.open(os.path.join(self.dir, name), os.O_WRONLY | os.O_CREAT | os.O_APPEND, 0o600)
        try:
            os.write(fd, data)
        finally:
            os.close(fd)

    def after_child(self):
        for s in self.seen_sets.values():
            s.sync()


FORK = ForkCtl()


class SeenSet:
    """closure set; under fork mode it is backed by an append-only file of 20-byte digests"""

    def __init__(self, name):
        self.name, self.mem, self.offset = name, set(), 0

    def __contains__(self, k):
        return k in self.mem

    def __len__(self):
        return len(self.mem)

    def add(self, k):
        self.mem.add(k)
        if FORK.enabled:
            assert len(k) == 20
            FORK.append("seen-" + self.name, k)

    def sync(self):
        if not FORK.enabled:
            return
        p = os.path.join(FORK.dir, "seen-" + self.name)
        if not os.path.exists(p):
            return
        with open(p, "rb") as f:
            f.seek(self.offset)
            data = f.read()
        n = len(data) // 20
        for i in range(n):
            self.mem.add(data[20 * i:20 * i + 20])
        self.offset += 20 * n


def seen_set(name):
    name = "".join(c if c.isalnum() else "_" for c in name)
    if name not in FORK.seen_sets:
        FORK.seen_sets[name] = SeenSet(name)
    return FORK.seen_sets[name]


class ChildFailed(Exception):
    pass


class Choice:
    def __init__(self, prefix):
        self.prefix = list(prefix)
        self.i = 0
        self.trace = []
        self.alts = []

    @property
    def replaying(self):
        return self.i < len(self.prefix)

    def take(self, n_or_feasible, label=None):
        """n_or_feasible: list of feasible option indexes. Returns the chosen index."""
        feas = list(n_or_feasible)
        if self.i < len(self.prefix):
            k = self.prefix[self.i]
        else:
            k = feas[0]
            for j in feas[1:]:
                if not FORK.enabled or FORK.depth >= FORK.max_depth:
                    self.alts.append(self.trace + [j])
                    continue
                sys.stdout.flush()
                sys.stderr.flush()
                pid = os.fork()
                if pid == 0:
                    FORK.depth += 1
                    FORK.is_child = True
                    self.alts = []
                    for cb in FORK.on_child:
                        cb()
                    k = j
                    break
                _, status = os.waitpid(pid, 0)
                if status != 0:
                    raise ChildFailed(f"exploration child exited with status {status}")
                FORK.after_child()
        self.i += 1
        self.trace.append(k)
        return k


class ObligationResult:
    __slots__ = ("name", "status", "model", "time", "solver", "path", "detail", "info")

    def __init__(self, name, status, model=None, t=0.0, solver="z3", path=None, detail=None, info=None):
        self.name = name
        self.status = status   # 'unsat' (discharged on this path) | 'sat' | 'unknown' | 'trivial'
        self.model = model
        self.time = t
        self.solver = solver
        self.path = path
        self.detail = detail
        self.info = info


_query_cache = {}
STATS = {"z3_queries": 0, "z3_time": 0.0, "cvc5_queries": 0, "cvc5_time": 0.0, "branch_queries": 0}


def cvc5_check(smt2_text, timeout_ms):
    t0 = time.time()
    with tempfile.NamedTemporaryFile("w", suffix=".smt2", delete=False, dir="/dev/shm" if os.path.isdir("/dev/shm") else None) as f:
        f.write("(set-logic ALL)\n" + smt2_text + "\n(check-sat)\n")
        path = f.name
    try:
        p = subprocess.run(["/usr/bin/cvc5", "--strings-exp", f"--tlimit={timeout_ms}", path],
                           capture_output=True, text=True, timeout=timeout_ms / 1000 + 5)
        out = p.stdout.strip().splitlines()
        res = out[0] if out else "unknown"
    except subprocess.TimeoutExpired:
        res = "unknown"
    finally:
        os.unlink(path)
    STATS["cvc5_queries"] += 1
    STATS["cvc5_time"] += time.time() - t0
    return res if res in ("sat", "unsat") else "unknown"


class World:
    def __init__(self, prefix=(), task_name=""):
        self.ch = Choice(prefix)
        self.solver = z3.Solver()
        self.solver.set("timeout", QUERY_TIMEOUT_MS)
        self.assertions = []
        self.n = 0
        self.results = []          # ObligationResult list
        self.ghost = {}            # free-form ghost logs for contracts
        self.task_name = task_name
        self.notes = []
        self.decisions = []        # human-readable labels of decisions (for witnesses)
        self.inputs = {}           # name -> Sym (declared symbolic inputs, for model extraction)
        self.stubs = {}            # dotted external name -> callable(interp, args, kwargs)
        self.opaque_call = None    # harness hook for calls of opaque methods
        self.assumptions = set()   # labels of assumptions used on this path

    # ---- fresh symbols
    def fresh(self, base="v"):
        self.n += 1
        return f"{base}!{self.n}"

    def int(self, name, fresh=False):
        s = Sym(z3.Int(self.fresh(name) if fresh else name))
        if not fresh:
            self.inputs[name] = s
        return s

    def real(self, name, fresh=False):
        s = Sym(z3.Real(self.fresh(name) if fresh else name))
        if not fresh:
            self.inputs[name] = s
        return s

    def bool(self, name, fresh=False):
        s = Sym(z3.Bool(self.fresh(name) if fresh else name))
        if not fresh:
            self.inputs[name] = s
        return s

    def str(self, name, fresh=False):
        s = Sym(z3.String(self.fresh(name) if fresh else name))
        if not fresh:
            self.inputs[name] = s
        return s

    # ---- path condition
    def add(self, cond):
        if cond is True:
            return
        if cond is False:
            raise PathEnd("infeasible")
        t = to_bool_term(cond)
        self.assertions.append(t)
        self.solver.add(t)

    def assume(self, cond, label=None):
        """add an assumption; the path ends if it is contradictory with the path condition"""
        if label:
            self.assumptions.add(label)
        if cond is True:
            return
        if cond is False:
            raise PathEnd("infeasible")
        self.add(cond)
        if not self.ch.replaying:
            r = self._check()
            if r == z3.unsat:
                raise PathEnd("infeasible")

    def _check(self, extra=None):
        t0 = time.time()
        if extra is not None:
            self.solver.push()
            self.solver.add(extra)
        r = self.solver.check()
        if extra is not None:
            self.solver.pop()
        STATS["z3_queries"] += 1
        STATS["z3_time"] += time.time() - t0
        if r == z3.unknown:
            # second opinion (string constraints: cvc5 decides most of what z3's sequence solver leaves open)
            r2 = cvc5_check(self._smt2(extra if extra is not None else z3.BoolVal(True)), QUERY_TIMEOUT_MS)
            if r2 == "unsat":
                return z3.unsat
            if r2 == "sat":
                return z3.sat
        return r

    def quick_z3(self, ms=1500):
        """string-heavy tasks: give z3 a short budget per query and let cvc5 take its unknowns"""
        self.solver.set("timeout", ms)

    def _smt2(self, extra):
        s = z3.Solver()
        for a in self.assertions:
            s.add(a)
        s.add(extra)
        return s.to_smt2().replace("(check-sat)", "")

    def feasible(self, cond):
        """is path /\\ cond satisfiable?  unknown counts as feasible (sound for exploration)"""
        if cond is True:
            return True
        if cond is False:
            return False
        r = self._check(to_bool_term(cond))
        STATS["branch_queries"] += 1
        return r != z3.unsat

    def branch(self, cond, label=None):
        """fork on a boolean; returns the host truth value taken on this path"""
        if cond is True or cond is False:
            return cond
        if not isinstance(cond, Sym):
            raise EngineError(f"branch on non-boolean {cond!r}")
        if self.ch.replaying:
            k = self.ch.take([0, 1])
            taken = k == 0
        else:
            ft = self.feasible(cond)
            ff = self.feasible(ops.not_(cond))
            feas = ([0] if ft else []) + ([1] if ff else [])
            if not feas:
                raise PathEnd("infeasible")
            k = self.ch.take(feas)
            taken = k == 0
        self.add(cond if taken else ops.not_(cond))
        self.decisions.append((label or "branch", taken))
        return taken

    def choose(self, options, label=None):
        """non-deterministic choice among host options (driver inputs, abstract outcomes, tag cases)"""
        if len(options) == 0:
            raise PathEnd("no option")
        k = self.ch.take(list(range(len(options))))
        self.decisions.append((label or "choose", options[k] if isinstance(options[k], (str, int, bool, type(None))) else k))
        return options[k]

    # ---- obligations
    def check(self, name, cond, info=None):
        """prove `cond` under the current path condition; record the result under obligation `name`"""
        t0 = time.time()
        if cond is True:
            self.results.append(ObligationResult(name, "trivial", info=info, path=list(self.ch.trace)))
            return True
        if cond is False:
            # path condition itself must be satisfiable for this to be a counterexample
            r = self._check()
            if r == z3.unsat:
                self.results.append(ObligationResult(name, "unsat", path=list(self.ch.trace)))
                return True
            model = self._model() if r == z3.sat else None
            self.results.append(ObligationResult(name, "sat" if r == z3.sat else "unknown", model=model,
                                                 t=time.time() - t0, path=list(self.ch.trace),
                                                 detail=list(self.decisions), info=info))
            return False
        neg = z3.Not(to_bool_term(cond))
        key = hashlib.sha1(("|".join(a.sexpr() for a in self.assertions) + "#" + neg.sexpr()).encode()).hexdigest()
        if key in _query_cache:
            st, model, solver = _query_cache[key]
        else:
            self.solver.push()
            self.solver.add(neg)
            r = self.solver.check()
            STATS["z3_queries"] += 1
            solver = "z3"
            model = None
            if r == z3.sat:
                st = "sat"
                model = self._model()
            elif r == z3.unsat:
                st = "unsat"
            else:
                st = "unknown"
            self.solver.pop()
            STATS["z3_time"] += time.time() - t0
            if st == "unknown":
                r2 = cvc5_check(self._smt2(neg), QUERY_TIMEOUT_MS)
                solver = "cvc5"
                if r2 == "unsat":
                    st = "unsat"
                elif r2 == "sat":
                    st = "sat"   # no model extraction from cvc5 here
            _query_cache[key] = (st, model, solver)
        self.results.append(ObligationResult(name, st, model=model, t=time.time() - t0, solver=solver,
                                             path=list(self.ch.trace), detail=list(self.decisions), info=info))
        return st == "unsat"

    def cover(self, name):
        """reachability witness for the vacuity guard: the path condition here is satisfiable"""
        cov = getattr(self, "covered", None)
        if cov is None or name in cov:
            return
        if self._check() == z3.sat:
            cov.add(name)

    def check_kf(self, name, cond, kf_id, case, info=None):
        """obligation with a listed known-finding case (DESIGN 7).  While the finding `kf_id` is listed as
        'known', prove the clause with the case excluded and record separately whether the clause still
        fails inside the case (-> KNOWN-FINDING line after native confirmation).  Otherwise: plain check."""
        if kf_id in getattr(self, "kf_active", {}):
            self.check(name, ops.or_(case, cond), info)
            self.check("kf-repro:" + kf_id, ops.implies(case, cond), info)
        else:
            self.check(name, cond, info)

    def fail(self, name, info=None):
        """an obligation violated on a feasible path regardless of data (e.g. trace mismatch)"""
        return self.check(name, False, info=info)

    def ok(self, name):
        self.results.append(ObligationResult(name, "trivial", path=list(self.ch.trace)))

    def _model(self):
        try:
            m = self.solver.model()
        except z3.Z3Exception:
            return None
        out = {}
        for d in m.decls():
            try:
                out[d.name()] = str(m[d])
            except Exception:
                pass
        return out
