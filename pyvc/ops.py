"""Term-building operations on values (no branching here; branching lives in the interpreter)."""
import fractions
import z3

from .source import EngineError
from .vals import (Sym, Obj, Opaque, MsgVal, FSpec, is_sym, numeric_kind, to_bool_term, to_int_term,
                   to_real_term, to_str_term)


def _simp(t):
    return z3.simplify(t)


def mk(t, pytype=None):
    """wrap a z3 term; literal terms become host values"""
    t = _simp(t)
    if z3.is_true(t):
        return True
    if z3.is_false(t):
        return False
    if z3.is_int_value(t):
        return t.as_long()
    if z3.is_string_value(t):
        return t.as_string()
    return Sym(t, pytype)


def not_(a):
    if isinstance(a, Sym):
        return mk(z3.Not(to_bool_term(a)))
    if isinstance(a, bool):
        return not a
    raise EngineError(f"not_ on non-bool {a!r}")


def and_(*xs):
    ts = []
    for x in xs:
        if isinstance(x, Sym):
            ts.append(to_bool_term(x))
        elif x is False:
            return False
        elif x is True:
            continue
        else:
            raise EngineError(f"and_ on non-bool {x!r}")
    if not ts:
        return True
    return mk(z3.And(*ts))


def or_(*xs):
    ts = []
    for x in xs:
        if isinstance(x, Sym):
            ts.append(to_bool_term(x))
        elif x is True:
            return True
        elif x is False:
            continue
        else:
            raise EngineError(f"or_ on non-bool {x!r}")
    if not ts:
        return False
    return mk(z3.Or(*ts))


def implies(a, b):
    return or_(not_(a), b)


def ite(c, a, b):
    if isinstance(c, bool):
        return a if c else b
    ct = to_bool_term(c)
    ka, kb = numeric_kind(a), numeric_kind(b)
    if ka and kb:
        if ka == "int" and kb == "int" and not _is_boolish(a) and not _is_boolish(b):
            return mk(z3.If(ct, to_int_term(a), to_int_term(b)))
        if _is_boolish(a) and _is_boolish(b):
            return mk(z3.If(ct, to_bool_term(a), to_bool_term(b)))
        return mk(z3.If(ct, to_real_term(a), to_real_term(b)))
    if _is_strish(a) and _is_strish(b):
        return mk(z3.If(ct, to_str_term(a), to_str_term(b)))
    raise EngineError(f"ite over unsupported values {a!r} {b!r}")


def _is_boolish(v):
    return isinstance(v, bool) or (isinstance(v, Sym) and v.kind == "bool")


def _is_strish(v):
    # bytes are modelled as strings over the code points 0..255 (latin-1 view), see vals.to_str_term
    return isinstance(v, (str, bytes)) or (isinstance(v, Sym) and v.kind == "str")


def eq(a, b):
    """object-language == for values whose equality is decidable without user __eq__ (those are
    handled by the interpreter before calling here). Returns host bool or Sym(bool)."""
    if isinstance(a, FSpec) or isinstance(b, FSpec):
        if isinstance(a, FSpec) and isinstance(b, FSpec):
            return a.kind == b.kind and a.kind != "nan"
        return False
    if a is b and not isinstance(a, float):
        return True
    sa, sb = is_sym(a), is_sym(b)
    if sa or sb:
        if _is_boolish(a) and _is_boolish(b):
            return mk(to_bool_term(a) == to_bool_term(b))
        ka, kb = numeric_kind(a), numeric_kind(b)
        if ka and kb:
            if ka == "int" and kb == "int":
                return mk(to_int_term(a) == to_int_term(b))
            return mk(to_real_term(a) == to_real_term(b))
        if _is_strish(a) and _is_strish(b):
            return mk(to_str_term(a) == to_str_term(b))
        # different dynamic types: never equal (None, objects, containers vs scalars)
        return False
    if isinstance(a, (tuple, list)) and isinstance(b, (tuple, list)):
        if type(a) is not type(b) and not (isinstance(a, tuple) and isinstance(b, tuple)):
            if isinstance(a, list) != isinstance(b, list):
                return False
        if len(a) != len(b):
            return False
        return and_(*[eq(x, y) for x, y in zip(a, b)])
    if isinstance(a, dict) and isinstance(b, dict):
        if set(map(_keyid, a)) != set(map(_keyid, b)):
            return False
        return and_(*[eq(a[k], b[k]) for k in a])
    if isinstance(a, MsgVal) and isinstance(b, MsgVal):
        return eq(a.astuple(), b.astuple())
    if isinstance(a, MsgVal) and isinstance(b, tuple):
        return eq(a.astuple(), b)
    if isinstance(b, MsgVal) and isinstance(a, tuple):
        return eq(a, b.astuple())
    if isinstance(a, (Obj, Opaque)) or isinstance(b, (Obj, Opaque)):
        return a is b
    if isinstance(a, (set, frozenset)) and isinstance(b, (set, frozenset)):
        return set(map(_keyid, a)) == set(map(_keyid, b))
    try:
        r = a == b
    except Exception as e:  # pragma: no cover
        raise EngineError(f"eq failed on {a!r} {b!r}: {e}")
    if isinstance(r, bool):
        return r
    raise EngineError(f"eq gave non-bool on {a!r} {b!r}")


def _keyid(k):
    return k if isinstance(k, (str, int, float, bool, tuple, type(None), frozenset)) else id(k)


def compare(op, a, b):
    if op == "==":
        return eq(a, b)
    if op == "!=":
        return not_(eq(a, b))
    if isinstance(a, FSpec) or isinstance(b, FSpec):
        if not (numeric_kind(a) or isinstance(a, FSpec)) or not (numeric_kind(b) or isinstance(b, FSpec)):
            raise TypeError(f"'{op}' not supported between {a!r} and {b!r}")
        ka = a.kind if isinstance(a, FSpec) else "fin"
        kb = b.kind if isinstance(b, FSpec) else "fin"
        if "nan" in (ka, kb):
            return False
        rank = {"-inf": 0, "fin": 1, "inf": 2}
        if ka == kb:          # both +inf or both -inf
            return op in ("<=", ">=")
        lt = rank[ka] < rank[kb]
        return lt if op in ("<", "<=") else not lt
    if not (is_sym(a) or is_sym(b)):
        try:
            return {"<": a < b, "<=": a <= b, ">": a > b, ">=": a >= b}[op]
        except TypeError:
            raise
    ka, kb = numeric_kind(a), numeric_kind(b)
    if ka and kb:
        if ka == "int" and kb == "int":
            x, y = to_int_term(a), to_int_term(b)
        else:
            x, y = to_real_term(a), to_real_term(b)
        return mk({"<": x < y, "<=": x <= y, ">": x > y, ">=": x >= y}[op])
    if _is_strish(a) and _is_strish(b):
        x, y = to_str_term(a), to_str_term(b)
        # lexicographic order on strings (code-point order, as Python)
        return mk({"<": x < y, "<=": x <= y, ">": y < x, ">=": y <= x}[op])
    raise TypeError(f"'{op}' not supported between {a!r} and {b!r}")


def unop(op, a):
    if not is_sym(a):
        if op == "-":
            return -a
        if op == "+":
            return +a
        if op == "~":
            return ~a
    k = numeric_kind(a)
    if op == "-" and k == "int":
        return mk(-to_int_term(a))
    if op == "-" and k == "real":
        return mk(-to_real_term(a))
    if op == "+" and k:
        return a
    raise EngineError(f"unary {op} on {a!r}")


def binop(op, a, b):
    """arithmetic / string concatenation without exceptional cases (callers handle ZeroDivision)"""
    if isinstance(a, FSpec) or isinstance(b, FSpec):
        if op == "%" and isinstance(a, FSpec) and numeric_kind(b):
            return FSpec("nan", a.pytype)
        raise EngineError(f"arithmetic {op} on non-finite float")
    if not (is_sym(a) or is_sym(b)):
        if op == "+":
            return a + b
        if op == "-":
            return a - b
        if op == "*":
            return a * b
        if op == "/":
            if isinstance(a, int) and isinstance(b, int):
                f = fractions.Fraction(a, b)
                return float(f) if f.denominator != 1 or True else f
            return a / b
        if op == "//":
            return a // b
        if op == "%":
            return a % b
        if op == "**":
            return a ** b
        raise EngineError(f"binop {op}")
    ka, kb = numeric_kind(a), numeric_kind(b)
    if ka and kb:
        if ka == "int" and kb == "int" and op in ("+", "-", "*", "//", "%"):
            x, y = to_int_term(a), to_int_term(b)
            if op == "+":
                return mk(x + y)
            if op == "-":
                return mk(x - y)
            if op == "*":
                return mk(x * y)
            if op == "//":
                # Python floor division; z3 div is Euclidean (floor for positive divisor)
                return mk(z3.If(y > 0, x / y, (-x) / (-y)))
            if op == "%":
                q = z3.If(y > 0, x / y, (-x) / (-y))
                return mk(x - y * q)
        x, y = to_real_term(a), to_real_term(b)
        if op in ("%", "//") and not is_sym(b) and b > 0:
            q = z3.ToReal(z3.ToInt(x / y))      # floor for a positive divisor
            return mk(q) if op == "//" else mk(x - y * q)
        if op == "+":
            return mk(x + y)
        if op == "-":
            return mk(x - y)
        if op == "*":
            return mk(x * y)
        if op == "/":
            return mk(x / y)
        if op == "**":
            if isinstance(b, int) and not isinstance(b, bool) and 0 <= b <= 8:
                r = z3.RealVal(1) if ka == "real" else z3.IntVal(1)
                base = to_real_term(a) if ka == "real" else to_int_term(a)
                for _ in range(b):
                    r = r * base
                return mk(r)
        raise EngineError(f"binop {op} on {a!r},{b!r}")
    if op == "+" and _is_strish(a) and _is_strish(b):
        return mk(z3.Concat(to_str_term(a), to_str_term(b)))
    raise TypeError(f"unsupported operand type(s) for {op}: {a!r} and {b!r}")
