"""Value domain of the symbolic interpreter (DESIGN A.2).

Concrete structure lives on the host side (host ints, strs, tuples, lists, dicts, sets, deques);
only leaves are SMT terms (`Sym`).  Dynamic typing is decided on the host side: an operation on an
unsupported combination is an EngineError (exit 3), never a silent coercion."""
import fractions
import z3

from .source import EngineError, ClassInfo


class Sym:
    """an SMT term of sort Int / Real / Bool / String, with an optional object-language type tag"""
    __slots__ = ("t", "pytype")

    def __init__(self, t, pytype=None):
        self.t = t
        self.pytype = pytype

    @property
    def kind(self):
        s = self.t.sort()
        if s == z3.IntSort():
            return "int"
        if s == z3.RealSort():
            return "real"
        if s == z3.BoolSort():
            return "bool"
        if s == z3.StringSort():
            return "str"
        return "other"

    def __repr__(self):
        return f"Sym({self.t})"

    # operator sugar for *specification* code (contracts); the interpreter itself uses ops.* functions
    def _b(self, other, op):
        from . import ops
        return ops.binop(op, self, other)

    def __add__(self, o): return self._b(o, "+")
    def __radd__(self, o):
        from . import ops
        return ops.binop("+", o, self)
    def __sub__(self, o): return self._b(o, "-")
    def __rsub__(self, o):
        from . import ops
        return ops.binop("-", o, self)
    def __mul__(self, o): return self._b(o, "*")
    def __rmul__(self, o):
        from . import ops
        return ops.binop("*", o, self)
    def __neg__(self):
        from . import ops
        return ops.unop("-", self)
    def __lt__(self, o):
        from . import ops
        return ops.compare("<", self, o)
    def __le__(self, o):
        from . import ops
        return ops.compare("<=", self, o)
    def __gt__(self, o):
        from . import ops
        return ops.compare(">", self, o)
    def __ge__(self, o):
        from . import ops
        return ops.compare(">=", self, o)
    def __eq__(self, o):
        from . import ops
        return ops.eq(self, o)
    def __ne__(self, o):
        from . import ops
        return ops.not_(ops.eq(self, o))
    def __hash__(self):
        return id(self)
    def __and__(self, o):
        from . import ops
        return ops.and_(self, o)
    def __rand__(self, o):
        from . import ops
        return ops.and_(o, self)
    def __or__(self, o):
        from . import ops
        return ops.or_(self, o)
    def __ror__(self, o):
        from . import ops
        return ops.or_(o, self)
    def __invert__(self):
        from . import ops
        return ops.not_(self)
    def __bool__(self):
        raise EngineError("host truth value of a symbolic term requested (use Interp.truth / spec helpers)")


class FSpec:
    """a non-finite float: kind in {'inf', '-inf', 'nan'} (IEEE comparison semantics in ops)"""

    def __init__(self, kind, pytype=None):
        self.kind = kind
        self.pytype = pytype

    def __repr__(self):
        return f"float({self.kind!r})"


class RLESeq:
    """run-length description of a list/tuple whose length is symbolic:
    (seg_1 * n_1 ++ seg_2 * n_2 ++ ...) repeated `times` times; each segment is (value, count)."""

    def __init__(self, segments, times=1, is_tuple=False):
        self.segments = list(segments)
        self.times = times
        self.is_tuple = is_tuple

    def __repr__(self):
        return f"<rle {'tuple' if self.is_tuple else 'list'} {self.segments!r} x {self.times!r}>"


class Ready:
    """an awaitable that never suspends: awaiting it yields `value` (or raises `exc`) immediately"""

    def __init__(self, value=None, exc=None):
        self.value = value
        self.exc = exc


class SymRange:
    """range(start, stop) with symbolic bounds (step 1); stop None = unbounded (itertools.count)"""

    def __init__(self, start, stop):
        self.start = start
        self.stop = stop


class SymRangeIter:
    """iterator over a SymRange; `pos` is the next value to produce (concrete int or Sym).  At bisimulation cut
    points `pos` may be generalised to a fresh symbol (loop invariant start <= pos <= stop), see bisim.py"""

    def __init__(self, rng):
        self.rng = rng
        self.pos = rng.start
        self.owner = None          # (frame, loop-variable name) once a for statement drives it
        self.exhausted = False


class SymSet:
    """a set whose elements are symbolic scalars; `items` are pairwise distinct on the current path"""

    def __init__(self, items):
        self.items = list(items)

    def __repr__(self):
        return f"<symset {self.items!r}>"


class GenericColl:
    """a collection of arbitrary (unbounded) length described by ONE generic element: every element of the
    real collection is an instance of `elem`.  Produced by harness iterables and by comprehensions ranging
    over them (result[i] = body(source[i]) for every i).  kind: 'list' | 'dict' | 'items'."""

    def __init__(self, kind, elem, source, parent=None):
        self.kind = kind
        self.elem = elem
        self.source = source
        self.parent = parent

    def __repr__(self):
        return f"<generic {self.kind} over {self.source!r}: {self.elem!r}>"


class Obj:
    """instance of an object-language class"""

    def __init__(self, cls, attrs=None, label=None):
        self.cls = cls
        self.attrs = dict(attrs or {})
        self.label = label

    def __repr__(self):
        return f"<{self.cls.name} {self.label or hex(id(self))[-5:]}>"

    # attribute sugar for specification code
    def __getattr__(self, name):
        if name.startswith("__"):
            raise AttributeError(name)
        try:
            return self.__dict__["attrs"][name]
        except KeyError:
            raise AttributeError(name)


class Opaque:
    """an object whose class is outside the verified code (device, document payload, future ...).
    Attribute reads create per-object symbols lazily according to `spec`."""

    def __init__(self, name, spec=None):
        self.name = name
        self.spec = spec or {}
        self.attrs = {}

    def __repr__(self):
        return f"<opaque {self.name}>"


class Closure:
    def __init__(self, node, module, defframe=None, cls=None, qualname=None):
        self.node = node
        self.module = module      # ModuleInfo
        self.defframe = defframe  # enclosing Frame (lexical scope) or None
        self.cls = cls            # ClassInfo when defined in a class body (for name mangling / super())
        self.qualname = qualname or getattr(node, "name", "<lambda>")
        self.attrs = {}

    def __repr__(self):
        return f"<function {self.qualname}>"


class BoundMethod:
    def __init__(self, func, self_obj):
        self.func = func
        self.self_obj = self_obj

    def __repr__(self):
        return f"<bound {self.func} of {self.self_obj}>"

    def __eq__(self, other):
        return isinstance(other, BoundMethod) and self.func is other.func and self.self_obj is other.self_obj

    def __hash__(self):
        return hash((id(self.func), id(self.self_obj)))


class Builtin:
    def __init__(self, name, impl, gen=False):
        self.name = name
        self.impl = impl     # impl(interp, args, kwargs) -> value  (or generator when gen=True)
        self.gen = gen

    def __repr__(self):
        return f"<builtin {self.name}>"


class ExternalRef:
    """a name bound to code outside the repository (numpy, time, asyncio ...); calling it needs a stub"""

    def __init__(self, dotted):
        self.dotted = dotted

    def __repr__(self):
        return f"<external {self.dotted}>"

    def __eq__(self, o):
        return isinstance(o, ExternalRef) and o.dotted == self.dotted

    def __hash__(self):
        return hash(self.dotted)


class HostMethod:
    def __init__(self, obj, name):
        self.obj = obj
        self.name = name

    def __repr__(self):
        return f"<method {self.name} of {type(self.obj).__name__}>"


class OpaqueMethod:
    def __init__(self, obj, name):
        self.obj = obj
        self.name = name

    def __repr__(self):
        return f"<method {self.name} of {self.obj}>"


class SuperProxy:
    def __init__(self, cls, obj):
        self.cls = cls
        self.obj = obj


class MsgVal:
    """built-in model of bluesky.utils.Msg (a namedtuple subclass: command, obj, args, kwargs, run);
    equality is structural like the namedtuple's; see assumption A-MSG"""
    FIELDS = ("command", "obj", "args", "kwargs", "run")

    def __init__(self, command, obj=None, args=(), kwargs=None, run=None):
        self.command = command
        self.obj = obj
        self.args = tuple(args)
        self.kwargs = kwargs if kwargs is not None else {}
        self.run = run

    def astuple(self):
        return (self.command, self.obj, self.args, self.kwargs, self.run)

    def __repr__(self):
        return f"Msg({self.command!r}, {self.obj!r}, *{self.args!r}, **{self.kwargs!r}, run={self.run!r})"


class ModuleVal:
    """a repository module used as a value (import bluesky.utils as u)"""

    def __init__(self, info):
        self.info = info


class Cell:
    __slots__ = ("v",)

    def __init__(self, v=None):
        self.v = v


UNBOUND = object()


def is_sym(v):
    return isinstance(v, Sym)


def to_real_term(v):
    if isinstance(v, Sym):
        if v.kind == "real":
            return v.t
        if v.kind == "int":
            return z3.ToReal(v.t)
        raise EngineError(f"not numeric: {v}")
    if isinstance(v, bool):
        return z3.RealVal(int(v))
    if isinstance(v, int):
        return z3.RealVal(v)
    if isinstance(v, float):
        if v != v or v in (float("inf"), float("-inf")):
            raise EngineError("non-finite float constant mixed with symbolic real")
        return z3.RealVal(str(fractions.Fraction(v)))
    if isinstance(v, fractions.Fraction):
        return z3.RealVal(str(v))
    raise EngineError(f"not numeric: {v!r}")


def to_int_term(v):
    if isinstance(v, Sym):
        if v.kind == "int":
            return v.t
        if v.kind == "bool":
            return z3.If(v.t, z3.IntVal(1), z3.IntVal(0))
        raise EngineError(f"not int: {v}")
    if isinstance(v, bool):
        return z3.IntVal(int(v))
    if isinstance(v, int):
        return z3.IntVal(v)
    raise EngineError(f"not int: {v!r}")


def to_bool_term(v):
    if isinstance(v, Sym):
        if v.kind == "bool":
            return v.t
        raise EngineError(f"not bool: {v}")
    if isinstance(v, bool):
        return z3.BoolVal(v)
    raise EngineError(f"not bool: {v!r}")


def to_str_term(v):
    if isinstance(v, Sym):
        if v.kind == "str":
            return v.t
        raise EngineError(f"not str: {v}")
    if isinstance(v, str):
        return z3.StringVal(v)
    if isinstance(v, bytes):
        return z3.StringVal(v.decode("latin-1"))      # bytes as strings over code points 0..255
    raise EngineError(f"not str: {v!r}")


def numeric_kind(v):
    """'int' | 'real' | None  (bool counts as int, as in Python)"""
    if isinstance(v, Sym):
        if v.kind in ("int", "bool"):
            return "int"
        if v.kind == "real":
            return "real"
        return None
    if isinstance(v, (bool, int)):
        return "int"
    if isinstance(v, (float, fractions.Fraction)):
        return "real"
    return None
