"""replay adapters for C36 (consolidators / concatenate_stream_datums)"""
from bluesky.consolidators import ConsolidatorBase
from .common import get


def _ints(model, base, n, default):
    return tuple(get(model, f"{base}{i}", "int", default) for i in range(n))


def chunks(model, info, art):
    rd, rc = info.get("rank_d", 1), info.get("rank_c", 1)
    o = object.__new__(ConsolidatorBase)
    o.datum_shape = _ints(model, "datum_shape", rd, 0)
    o.chunk_shape = _ints(model, "chunk_shape", rc, 1)
    o._num_rows = get(model, "num_rows", "int", 0)
    o.join_method = info.get("join_method", "stack")
    o.join_chunks = get(model, "join_chunks", "bool", False)
    desc = f"datum_shape={o.datum_shape} chunk_shape={o.chunk_shape} rows={o._num_rows} join_method={o.join_method} join_chunks={o.join_chunks}"
    shape = o.shape
    try:
        ch = o.chunks
    except ValueError as e:
        ok = len(o.chunk_shape) > len(shape)
        return ("contradicted" if ok else "confirmed"), f"{desc}: ValueError {e}"
    except Exception as e:
        return "confirmed", f"{desc}: chunks raised {type(e).__name__}: {e}"
    ok = len(ch) == len(shape) and all(sum(c) == d for c, d in zip(ch, shape))
    return ("contradicted" if ok else "confirmed"), f"{desc}: shape={shape} chunks={ch}"


def list_summands(model, info, art):
    # the nested function is not addressable natively; exercise it through chunks of a 1-d stack
    A, b, rep = get(model, "A", "int", 0), get(model, "b", "int", 1), get(model, "repeat", "int", 1)
    o = object.__new__(ConsolidatorBase)
    o.datum_shape = (A,)
    o.chunk_shape = (b,)
    o._num_rows = rep
    o.join_method = "concat"
    o.join_chunks = False
    ch = o.chunks[0]
    ok = sum(ch) == A * rep and (all(1 <= x <= b for x in ch) if A * rep > 0 else ch == (0,))
    return ("contradicted" if ok else "confirmed"), f"list_summands({A},{b},repeat={rep}) = {ch}"


def consume(model, info, art):
    o = object.__new__(ConsolidatorBase)
    o._num_rows = get(model, "num_rows", "int", 0)
    o._seqnums_to_indices_map = {}
    i0, i1, s0 = get(model, "idx_start", "int", 0), get(model, "idx_stop", "int", 0), get(model, "seq_start", "int", 1)
    s1 = s0 + (i1 - i0)
    rows = o._num_rows
    o.consume_stream_datum({"indices": {"start": i0, "stop": i1}, "seq_nums": {"start": s0, "stop": s1}})
    ok = o._num_rows == rows + (i1 - i0) and o._seqnums_to_indices_map == {s0 + k: i0 + k for k in range(i1 - i0)}
    return ("contradicted" if ok else "confirmed"), f"rows {rows}->{o._num_rows}, map={o._seqnums_to_indices_map}"


def concatenate(model, info, art):
    import itertools
    from bluesky.callbacks.tiled_writer import concatenate_stream_datums
    n = info["n"]
    docs = []
    for i in range(n):
        a = get(model, f"idx_start{i}", "int", 0)
        b = get(model, f"idx_stop{i}", "int", a + 1)
        s = get(model, f"seq_start{i}", "int", 1)
        docs.append({"uid": get(model, f"uid{i}", "str", ""), "descriptor": get(model, f"desc{i}", "str", ""),
                     "stream_resource": get(model, f"res{i}", "str", ""), "indices": {"start": a, "stop": b},
                     "seq_nums": {"start": s, "stop": s + b - a}})
    same = len({d["descriptor"] for d in docs}) == 1 and len({d["stream_resource"] for d in docs}) == 1
    chains = any(all(docs[p[i]]["indices"]["stop"] == docs[p[i + 1]]["indices"]["start"] for i in range(n - 1))
                 for p in itertools.permutations(range(n)))
    try:
        out = concatenate_stream_datums(*docs)
    except ValueError as e:
        return ("contradicted" if not (same and chains) else "confirmed"), f"{docs}: ValueError {e}"
    lo = min(d["indices"]["start"] for d in docs)
    hi = max(d["indices"]["stop"] for d in docs)
    first = min(docs, key=lambda d: d["indices"]["start"])
    last = max(docs, key=lambda d: d["indices"]["stop"])
    ok = ((same and chains) and dict(out["indices"]) == {"start": lo, "stop": hi}
          and dict(out["seq_nums"]) == {"start": first["seq_nums"]["start"], "stop": last["seq_nums"]["stop"]}
          and out["descriptor"] == docs[0]["descriptor"] and out["stream_resource"] == docs[0]["stream_resource"])
    return ("contradicted" if ok else "confirmed"), f"{docs} -> {out}"


def int_replacer(model, info, art):
    """build a real TIFF consolidator with the template and compare its file name with libc's sprintf"""
    import ctypes
    from bluesky.consolidators import TIFFConsolidator
    from .common import string
    flags = info["flags"]
    width = string(model.get("width"), "") if info["has_w"] else ""
    prec = string(model.get("precision"), "") if info["has_p"] else None
    L = min(max(get(model, "L", "int", 1), 1), 15)
    n = 10 ** (L - 1)
    conv = "%" + flags + width + ("." + prec if prec is not None else "") + "d"
    template = "img_" + conv + ".tif"
    sres = {"mimetype": "multipart/related;type=image/tiff", "data_key": "img", "uri": "file://localhost/tmp/",
            "parameters": {"template": template, "chunk_shape": (1,)}, "uid": "sr", "run_start": "rs"}
    desc = {"data_keys": {"img": {"shape": [1, 4, 4], "dtype": "array", "dtype_numpy": "<u2", "source": "x", "external": "STREAM:"}}}
    libc = ctypes.CDLL(None)
    buf = ctypes.create_string_buffer(4096)
    libc.sprintf(buf, template.encode(), ctypes.c_int(n))
    want = "file://localhost/tmp/" + buf.value.decode()
    try:
        c = TIFFConsolidator(sres, desc)
        got = c.get_datum_uri(n)
    except Exception as e:
        return "confirmed", f"template {template!r}, index {n}: {type(e).__name__}: {e} (printf gives {want!r})"
    return ("contradicted" if got == want else "confirmed"), f"template {template!r}, index {n}: consolidator {got!r}, printf {want!r}"


def multipart_consume(model, info, art):
    """a real TIFFConsolidator: the files registered for a datum are those of its own indices, whatever was registered before"""
    from bluesky.consolidators import TIFFConsolidator
    d0, c0 = (int(x) for x in info["shape"].split("/"))
    jm, k, n0 = info["join_method"], info["frames"], info["earlier"]
    f = d0 // c0 if jm == "concat" else 1
    a = max(get(model, "idx_start", "int", 1), 0)
    sres = {"mimetype": "multipart/related;type=image/tiff", "data_key": "img", "uri": "file://localhost/tmp/",
            "parameters": {"template": "img_%05d.tif", "chunk_shape": (c0,), "join_method": jm}, "uid": "sr", "run_start": "rs"}
    desc = {"data_keys": {"img": {"shape": [d0, 4, 4], "dtype": "array", "dtype_numpy": "<u2", "source": "x", "external": "STREAM:"}}}
    out = []
    for first in sorted({a, a + 3, 0}):
        c = TIFFConsolidator(sres, desc)
        if n0:
            # something was registered earlier (a datum delivered out of order)
            c.consume_stream_datum({"indices": {"start": 100, "stop": 102}, "seq_nums": {"start": 101, "stop": 103}, "descriptor": "d",
                                    "stream_resource": "sr", "uid": "sd0"})
        before = list(c.data_uris)
        c.consume_stream_datum({"indices": {"start": first, "stop": first + k}, "seq_nums": {"start": first + 1, "stop": first + k + 1},
                                "descriptor": "d", "stream_resource": "sr", "uid": "sd1"})
        want = before + ["file://localhost/tmp/" + "img_%05d.tif" % i for i in range(first * f, (first + k) * f)]
        nums = [getattr(x, "num", None) for x in c.assets]
        if list(c.data_uris) != want or nums != list(range(1, len(want) + 1)):
            return "confirmed", (f"{jm}, {f} file(s) per frame, datum indices [{first}, {first + k}) after {len(before)} registered files: "
                                 f"data_uris {list(c.data_uris)[len(before):]} (documented {want[len(before):]}), asset nums {nums}")
        out.append(first)
    return "contradicted", f"first indices {out}: registered names are those of the datum's own indices"


def regex_decomposition(model, info, art):
    """end to end on a real consolidator: templates with every flag character expand like printf"""
    import ctypes
    from bluesky.consolidators import TIFFConsolidator
    libc = ctypes.CDLL(None)
    bad = []
    for conv in ("%d", "%5d", "%05d", "%-5d", "%+5d", "% 5d", "%#5d", "%#05d", "%-#6d", "%+#4.6d", "%0#6d", "%#d", "%.6d", "%6.6d"):
        template = "img_" + conv + ".tif"
        sres = {"mimetype": "multipart/related;type=image/tiff", "data_key": "img", "uri": "file://localhost/tmp/",
                "parameters": {"template": template, "chunk_shape": (1,)}, "uid": "sr", "run_start": "rs"}
        desc = {"data_keys": {"img": {"shape": [1, 4, 4], "dtype": "array", "dtype_numpy": "<u2", "source": "x", "external": "STREAM:"}}}
        for n in (0, 7, 123):
            buf = ctypes.create_string_buffer(256)
            libc.sprintf(buf, template.encode(), ctypes.c_int(n))
            want = "file://localhost/tmp/" + buf.value.decode()
            try:
                got = TIFFConsolidator(sres, desc).get_datum_uri(n)
            except Exception as e:   # noqa
                got = f"{type(e).__name__}: {e}"
            if got != want:
                bad.append(f"template {template!r}, index {n}: consolidator {got!r}, printf {want!r}")
    return ("confirmed" if bad else "contradicted"), "; ".join(bad[:4]) or "every flag character is recognised"
