"""native replay for C41: subscription ledger of a monitored fake signal across suspend / restore / engine suspension"""
import asyncio

from bluesky import RunEngine
from bluesky.utils import Msg

from .bundler import _bundler


class Sig:
    parent = None
    name = "sig"
    hints = {"fields": ["sig"]}

    def __init__(self):
        self.cbs = []

    def read(self):
        return {"sig": {"value": 1.0, "timestamp": 1.0}}

    def describe(self):
        return {"sig": {"dtype": "number", "shape": [], "source": "s"}}

    def read_configuration(self):
        return {}

    def describe_configuration(self):
        return {}

    def subscribe(self, cb, **kw):
        self.cbs.append(cb)

    def clear_sub(self, cb):
        self.cbs = [c for c in self.cbs if c is not cb]


def suspension(model, info, art):
    problems = []
    script = info.get("script") or ["suspend", "suspend", "restore", "restore"]
    sig = Sig()
    bd, out = _bundler(False)

    async def go():
        await bd.open_run(Msg("open_run"))
        await bd.monitor(Msg("monitor", sig, name="mon"))
        for step in script:
            await (bd.suspend_monitors() if step == "suspend" else bd.restore_monitors())
            want = 0 if step == "suspend" else 1
            if len(sig.cbs) != want:
                problems.append(f"after {step}: {len(sig.cbs)} subscription(s)")
    asyncio.run(go())
    # engine level: a suspension must silence the monitor until release
    RE = RunEngine(context_managers=[])
    sig2 = Sig()
    seen = []

    def plan():
        yield Msg("open_run")
        yield Msg("monitor", sig2, name="mon")
        yield Msg("checkpoint")
        fut_holder = {}

        async def release():
            await asyncio.sleep(0.05)
            seen.append(("during suspension", len(sig2.cbs)))
        RE.request_suspend(release)
        yield Msg("sleep", None, 0.2)
        seen.append(("after release", len(sig2.cbs)))
        yield Msg("close_run")
    try:
        RE(plan())
    except Exception as e:
        problems.append(f"engine scenario raised {type(e).__name__}: {e}")
    for label, n in seen:
        if (label == "during suspension" and n != 0) or (label == "after release" and n != 1):
            problems.append(f"{label}: {n} subscription(s)")
    if not seen:
        problems.append("engine scenario did not run")
    return ("confirmed" if problems else "contradicted"), "; ".join(problems) or f"subscriptions as documented ({seen})"
