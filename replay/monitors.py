"""native replay for C41: subscription ledger of monitored fake signals and the events their updates produce, on the real RunBundler
(histories of operations) and on the real RunEngine (suspension handlers)"""
import asyncio
import collections
import logging

from bluesky import RunEngine
from bluesky.bundlers import RunBundler
from bluesky.utils import IllegalMessageSequence, Msg

from .bundler import _bundler


class Sig:
    parent = None
    hints = {"fields": ["sig"]}

    def __init__(self, name="sig"):
        self.name = name
        self.cbs = []
        self.value = 1.0

    def read(self):
        return {self.name: {"value": self.value, "timestamp": 1.0}}

    def describe(self):
        return {self.name: {"dtype": "number", "shape": [], "source": "s"}}

    def read_configuration(self):
        return {}

    def describe_configuration(self):
        return {}

    def subscribe(self, cb, **kw):
        self.cbs.append(cb)

    def clear_sub(self, cb):
        self.cbs = [c for c in self.cbs if c is not cb]

    def update(self):
        """the signal changes: every callback subscribed at this moment is called"""
        self.value += 1
        for cb in list(self.cbs):
            cb()


def history(model, info, art):
    """the operations of the counter-example, in order, on a real RunBundler with two monitored fake signals; after every operation the
    clause of the failed obligation is evaluated: ledger against the ghost model / events per update / nothing after the stop document /
    rejections"""
    ops = list(info.get("ops") or [])
    tag = art.get("obligation", "")
    sigs = {"sig": Sig("sig"), "sig2": Sig("sig2")}
    out = []
    problems = []

    def n_events():
        return len([1 for n, d in out if n == "event"])

    async def emit(name, doc):
        out.append((name.name, doc))
        if name.name == "stop":
            for s in sigs.values():               # updates arriving while the stop document is being dispatched
                s.update()

    def emit_sync(name, doc):
        out.append((name.name, doc))
    b = RunBundler({}, False, emit, emit_sync, logging.getLogger("replay"), strict_pre_declare=False)
    g = {"open": True, "suspended": False, "mon": {"sig": False, "sig2": False}}

    def live(n):
        return g["open"] and g["mon"][n] and not g["suspended"]

    async def go():
        await b.open_run(Msg("open_run"))
        for i, op in enumerate(ops):
            want = "ok"
            try:
                if op == "suspend":
                    g["suspended"] = True
                    await b.suspend_monitors()
                elif op == "restore":
                    g["suspended"] = False
                    await b.restore_monitors()
                elif op == "unmonitor":
                    want = "ok" if g["mon"]["sig"] else "raise"
                    g["mon"]["sig"] = False
                    await b.unmonitor(Msg("unmonitor", sigs["sig"]))
                elif op in ("monitor", "monitor2"):
                    n = "sig" if op == "monitor" else "sig2"
                    want = "raise" if g["mon"][n] else "ok"
                    g["mon"][n] = True
                    await b.monitor(Msg("monitor", sigs[n], name="mon_" + n))
                elif op == "close_run":
                    want = "ok" if g["open"] else "raise"
                    g["open"] = False
                    g["mon"] = {"sig": False, "sig2": False}
                    await b.close_run(Msg("close_run"))
                else:
                    g["mon"] = {"sig": False, "sig2": False}
                    b.clear_monitors()
                got = "ok"
            except IllegalMessageSequence:
                got = "raise"
            except Exception as e:
                got = f"{type(e).__name__}: {e}"
            where = f"after {ops[:i + 1]}"
            if "#raises[" in tag and got != want:
                problems.append(f"{where}: outcome {got}, the statement wants {want}")
            if "#invariant[" in tag:
                for n, s in sigs.items():
                    if len(s.cbs) != (1 if live(n) else 0) or (s in b._monitor_params) != g["mon"][n]:
                        problems.append(f"{where}: {n} carries {len(s.cbs)} engine subscription(s), remembered={s in b._monitor_params}; "
                                        f"model: live={live(n)}, monitored={g['mon'][n]}")
            for n, s in sigs.items():
                n0 = n_events()
                s.update()
                if "emit_event#ensures[" in tag and n_events() - n0 != (1 if live(n) else 0):
                    problems.append(f"{where}: an update of {n} produced {n_events() - n0} event(s); subscription live in the model: {live(n)}")
            names = [n for n, d in out]
            if "close_run#ensures[subscriptions are removed before the stop document" in tag and "stop" in names and "event" in names[names.index("stop"):]:
                problems.append(f"{where}: documents {names}: an event follows the stop document")
                break
    asyncio.run(go())
    return ("confirmed" if problems else "contradicted"), "; ".join(problems[:4]) or f"operations {ops}: ledger, events and rejections as the statement wants"


def suspension(model, info, art):
    """bundler level (suspend / restore scripts, monitor / unmonitor / close_run / clear_monitors post-states)"""
    problems = []
    script = info.get("script") or ["suspend", "suspend", "restore", "restore"]
    tag = art.get("obligation", "")
    sig, sig2 = Sig("sig"), Sig("sig2")
    bd, out = _bundler(False)

    async def go():
        await bd.open_run(Msg("open_run"))
        await bd.monitor(Msg("monitor", sig, name="mon"))
        try:
            await bd.monitor(Msg("monitor", sig, name="mon_again"))
            problems.append("a second monitor of the same object was accepted")
        except IllegalMessageSequence:
            pass
        if len(sig.cbs) != 1:
            problems.append(f"after monitor: {len(sig.cbs)} subscription(s)")
        await bd.monitor(Msg("monitor", sig2, name="mon2"))
        if ".unmonitor#" in tag:
            await bd.unmonitor(Msg("unmonitor", sig))
            if sig.cbs or sig in bd._monitor_params or len(sig2.cbs) != 1:
                problems.append(f"after unmonitor: {len(sig.cbs)} subscription(s) on the object, {len(sig2.cbs)} on the other, remembered={sig in bd._monitor_params}")
            try:
                await bd.unmonitor(Msg("unmonitor", sig))
                problems.append("unmonitor of an object that is not monitored was accepted")
            except IllegalMessageSequence:
                pass
        elif ".close_run#" in tag or ".clear_monitors#" in tag:
            for suspended in (False, True):
                b2, _ = _bundler(False)
                s1, s2 = Sig("sig"), Sig("sig2")
                await b2.open_run(Msg("open_run"))
                await b2.monitor(Msg("monitor", s1, name="mon"))
                await b2.monitor(Msg("monitor", s2, name="mon2"))
                if suspended:
                    await b2.suspend_monitors()
                if ".close_run#" in tag:
                    await b2.close_run(Msg("close_run"))
                else:
                    b2.clear_monitors()
                await b2.restore_monitors()
                if s1.cbs or s2.cbs or b2._monitor_params:
                    problems.append(f"suspended={suspended}: {len(s1.cbs)} + {len(s2.cbs)} subscription(s) left, {len(b2._monitor_params)} monitor(s) remembered")
        else:
            for step in script:
                await (bd.suspend_monitors() if step == "suspend" else bd.restore_monitors())
                want = 0 if step == "suspend" else 1
                if len(sig.cbs) != want or len(sig2.cbs) != want:
                    problems.append(f"after {step}: {len(sig.cbs)} / {len(sig2.cbs)} subscription(s)")
    asyncio.run(go())
    return ("confirmed" if problems else "contradicted"), "; ".join(problems) or f"subscriptions as documented (script {script})"


def engine_suspension(model, info, art):
    """RunEngine._start_suspender / _resume on a real engine holding two open runs, each with a live monitor (the state after a resume from a
    pause, say): the handler itself must leave no subscription while the suspension lasts, and _resume exactly one per monitor"""
    n = 2 if any(str(v) == "2" for k, v in (art.get("decisions") or []) if k == "overlapping suspensions") else 1
    RE = RunEngine(context_managers=[])
    sig, sig2 = Sig("sig"), Sig("sig2")
    problems = []
    tag = art.get("obligation", "")

    async def go():
        await RE._open_run(Msg("open_run"))
        await RE._open_run(Msg("open_run", run="k"))
        await RE._monitor(Msg("monitor", sig, name="mon"))
        await RE._monitor(Msg("monitor", sig2, name="mon2", run="k"))
        RE._plan_stack = collections.deque([iter(())])
        RE._response_stack = collections.deque([None])
        RE._msg_cache = collections.deque()
        fut = asyncio.Event().wait
        for _ in range(n):
            await RE._start_suspender(Msg("_start_suspender", None, None, None, "why", fut))
        if "_start_suspender#" in tag and (sig.cbs or sig2.cbs):
            problems.append(f"after {n} x _start_suspender with live monitors: {len(sig.cbs)} / {len(sig2.cbs)} engine subscription(s) on the monitored signals")
        for _ in range(n):
            await RE._resume(Msg("_resume_from_suspender"))
        if "_resume#" in tag and (len(sig.cbs), len(sig2.cbs)) != (1, 1):
            problems.append(f"after {n} x _start_suspender and {n} x _resume: {len(sig.cbs)} / {len(sig2.cbs)} engine subscription(s)")
        for bd in list(RE._run_bundlers.values()):
            bd.clear_monitors()
    asyncio.run_coroutine_threadsafe(go(), RE.loop).result(30)
    return ("confirmed" if problems else "contradicted"), "; ".join(problems) or f"{n} suspension(s): no subscription while suspended, one after release"


# ------------------------------------------------------------------------------------------------ C06 (T1 obligations)
def histories(model, info, art):
    """a real RunBundler, a device whose clear_sub refuses unknown callbacks, the history of operations of the counter-example"""
    import asyncio
    import logging
    from bluesky.bundlers import RunBundler
    from bluesky.utils import Msg, IllegalMessageSequence

    class Sig:
        parent = None

        def __init__(self, name):
            self.name, self.cbs = name, []

        def read(self):
            return {self.name: {"value": 1, "timestamp": 0}}

        def describe(self):
            return {self.name: {"dtype": "number", "shape": [], "source": "x"}}

        def read_configuration(self):
            return {}

        def describe_configuration(self):
            return {}

        def subscribe(self, cb, **kw):
            self.cbs.append(cb)

        def clear_sub(self, cb):
            self.cbs.remove(cb)
    out = []

    async def emit(name, doc):
        out.append(name.name)
    b = RunBundler({}, False, emit, lambda n, d: None, logging.getLogger("replay"), strict_pre_declare=False)
    sig, sig2 = Sig("sig"), Sig("sig2")
    hist = list(info.get("history") or ["monitor sig", "suspend", "restore", "close_run"])
    bad = []

    def inv(where):
        susp = bool(getattr(b, "_monitors_suspended", False))
        for d in (sig, sig2):
            want = (0 if susp else 1) if d in b._monitor_params else 0
            if len(d.cbs) != want:
                bad.append(f"after {where}: {d.name} holds {len(d.cbs)} subscription(s), expected {want} (suspended={susp}, monitored={d in b._monitor_params})")

    async def go():
        await b.open_run(Msg("open_run"))
        for op in hist:
            try:
                if op == "monitor sig":
                    await b.monitor(Msg("monitor", sig, name="mon"))
                elif op == "monitor sig2":
                    await b.monitor(Msg("monitor", sig2, name="mon2"))
                elif op == "unmonitor sig":
                    await b.unmonitor(Msg("unmonitor", sig))
                elif op == "suspend":
                    await b.suspend_monitors()
                elif op == "restore":
                    await b.restore_monitors()
                    if info.get("clause") == "c41" and getattr(b, "_monitors_suspended", False):
                        bad.append("restore_monitors left the monitors flagged as suspended")
                elif op == "clear_monitors":
                    b.clear_monitors()
                elif op == "close_run":
                    await b.close_run(Msg("close_run"))
            except IllegalMessageSequence:
                pass
            except Exception as e:   # noqa
                bad.append(f"{op} raised {type(e).__name__}: {e}")
            if op in ("clear_monitors", "close_run"):
                await b.restore_monitors()
                if sig.cbs or sig2.cbs or b._monitor_params:
                    bad.append(f"after {op}: subscriptions left {len(sig.cbs)}/{len(sig2.cbs)}, monitors left {len(b._monitor_params)}")
            elif info.get("clause") == "c41":
                # C41: while the engine runs (not suspended) every monitor holds exactly one subscription
                if not getattr(b, "_monitors_suspended", False) or op == "restore" or op.startswith("monitor"):
                    for d in (sig, sig2):
                        want = 1 if d in b._monitor_params else 0
                        if op != "suspend" and len(d.cbs) != want:
                            bad.append(f"after {op}: {d.name} holds {len(d.cbs)} subscription(s), expected {want} (the engine is running again)")
            else:
                inv(op)
    asyncio.run(go())
    return ("confirmed" if bad else "contradicted"), "; ".join(bad) or f"history {hist}: invariant kept, nothing left behind"


def close_run_failure(model, info, art):
    """C06: RunEngine._close_run when the bundler's close_run raises (a monitored device refuses to unsubscribe): the run must stay registered"""
    from bluesky import RunEngine
    from bluesky.utils import Msg

    class Sig:
        name = "sig"
        parent = None
        cbs = []

        def read(self):
            return {"sig": {"value": 1, "timestamp": 0}}

        def describe(self):
            return {"sig": {"dtype": "number", "shape": [], "source": "x"}}

        def read_configuration(self):
            return {}

        def describe_configuration(self):
            return {}

        def subscribe(self, cb, **kw):
            self.cbs.append(cb)

        def clear_sub(self, cb):
            raise ValueError("clear_sub failed")
    RE = RunEngine({}, context_managers=[])
    key = info.get("key")
    seen = {}

    def hook(msg):
        if msg.command == "null":
            seen["registered"] = key in RE._run_bundlers

    RE.msg_hook = hook

    def plan():
        yield Msg("open_run", run=key)
        yield Msg("monitor", Sig(), run=key)
        try:
            yield Msg("close_run", run=key)
        except ValueError:
            pass
        yield Msg("null")
    try:
        RE(plan())
    except Exception:   # noqa
        pass
    ok = seen.get("registered") is True
    return ("contradicted" if ok else "confirmed"), f"after a failing close_run the run is {'still' if ok else 'no longer'} registered with the engine"
