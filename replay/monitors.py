"""native replay for C41: subscription ledger of a monitored fake signal across suspend / restore / engine suspension"""
import asyncio

from bluesky import RunEngine
from bluesky.utils import Msg

from .bundler import _bundler


class Sig:
    parent = None
    name = "sig"
    hints = {"fields": ["sig"]}

    def __init__(self):
        self.cbs = []

    def read(self):
        return {"sig": {"value": 1.0, "timestamp": 1.0}}

    def describe(self):
        return {"sig": {"dtype": "number", "shape": [], "source": "s"}}

    def read_configuration(self):
        return {}

    def describe_configuration(self):
        return {}

    def subscribe(self, cb, **kw):
        self.cbs.append(cb)

    def clear_sub(self, cb):
        self.cbs = [c for c in self.cbs if c is not cb]


def suspension(model, info, art):
    problems = []
    script = info.get("script") or ["suspend", "suspend", "restore", "restore"]
    sig = Sig()
    bd, out = _bundler(False)

    async def go():
        await bd.open_run(Msg("open_run"))
        await bd.monitor(Msg("monitor", sig, name="mon"))
        for step in script:
            await (bd.suspend_monitors() if step == "suspend" else bd.restore_monitors())
            want = 0 if step == "suspend" else 1
            if len(sig.cbs) != want:
                problems.append(f"after {step}: {len(sig.cbs)} subscription(s)")
    asyncio.run(go())
    # engine level: a suspension must silence the monitor until release
    RE = RunEngine(context_managers=[])
    sig2 = Sig()
    seen = []

    def plan():
        yield Msg("open_run")
        yield Msg("monitor", sig2, name="mon")
        yield Msg("checkpoint")
        fut_holder = {}

        async def release():
            await asyncio.sleep(0.05)
            seen.append(("during suspension", len(sig2.cbs)))
        RE.request_suspend(release)
        yield Msg("sleep", None, 0.2)
        seen.append(("after release", len(sig2.cbs)))
        yield Msg("close_run")
    try:
        RE(plan())
    except Exception as e:
        problems.append(f"engine scenario raised {type(e).__name__}: {e}")
    for label, n in seen:
        if (label == "during suspension" and n != 0) or (label == "after release" and n != 1):
            problems.append(f"{label}: {n} subscription(s)")
    if not seen:
        problems.append("engine scenario did not run")
    return ("confirmed" if problems else "contradicted"), "; ".join(problems) or f"subscriptions as documented ({seen})"


# ------------------------------------------------------------------------------------------------ C06 (T1 obligations)
def histories(model, info, art):
    """a real RunBundler, a device whose clear_sub refuses unknown callbacks, the history of operations of the counter-example"""
    import asyncio
    import logging
    from bluesky.bundlers import RunBundler
    from bluesky.utils import Msg, IllegalMessageSequence

    class Sig:
        parent = None

        def __init__(self, name):
            self.name, self.cbs = name, []

        def read(self):
            return {self.name: {"value": 1, "timestamp": 0}}

        def describe(self):
            return {self.name: {"dtype": "number", "shape": [], "source": "x"}}

        def read_configuration(self):
            return {}

        def describe_configuration(self):
            return {}

        def subscribe(self, cb, **kw):
            self.cbs.append(cb)

        def clear_sub(self, cb):
            self.cbs.remove(cb)
    out = []

    async def emit(name, doc):
        out.append(name.name)
    b = RunBundler({}, False, emit, lambda n, d: None, logging.getLogger("replay"), strict_pre_declare=False)
    sig, sig2 = Sig("sig"), Sig("sig2")
    hist = list(info.get("history") or ["monitor sig", "suspend", "restore", "close_run"])
    bad = []

    def inv(where):
        susp = bool(getattr(b, "_monitors_suspended", False))
        for d in (sig, sig2):
            want = (0 if susp else 1) if d in b._monitor_params else 0
            if len(d.cbs) != want:
                bad.append(f"after {where}: {d.name} holds {len(d.cbs)} subscription(s), expected {want} (suspended={susp}, monitored={d in b._monitor_params})")

    async def go():
        await b.open_run(Msg("open_run"))
        for op in hist:
            try:
                if op == "monitor sig":
                    await b.monitor(Msg("monitor", sig, name="mon"))
                elif op == "monitor sig2":
                    await b.monitor(Msg("monitor", sig2, name="mon2"))
                elif op == "unmonitor sig":
                    await b.unmonitor(Msg("unmonitor", sig))
                elif op == "suspend":
                    await b.suspend_monitors()
                elif op == "restore":
                    await b.restore_monitors()
                    if getattr(b, "_monitors_suspended", False):
                        bad.append("restore_monitors left the monitors flagged as suspended")
                elif op == "clear_monitors":
                    b.clear_monitors()
                elif op == "close_run":
                    await b.close_run(Msg("close_run"))
            except IllegalMessageSequence:
                pass
            except Exception as e:   # noqa
                bad.append(f"{op} raised {type(e).__name__}: {e}")
            if op in ("clear_monitors", "close_run"):
                await b.restore_monitors()
                if sig.cbs or sig2.cbs or b._monitor_params:
                    bad.append(f"after {op}: subscriptions left {len(sig.cbs)}/{len(sig2.cbs)}, monitors left {len(b._monitor_params)}")
            else:
                inv(op)
    asyncio.run(go())
    return ("confirmed" if bad else "contradicted"), "; ".join(bad) or f"history {hist}: invariant kept, nothing left behind"


def close_run_failure(model, info, art):
    """C06: RunEngine._close_run when the bundler's close_run raises (a monitored device refuses to unsubscribe): the run must stay registered"""
    from bluesky import RunEngine
    from bluesky.utils import Msg

    class Sig:
        name = "sig"
        parent = None
        cbs = []

        def read(self):
            return {"sig": {"value": 1, "timestamp": 0}}

        def describe(self):
            return {"sig": {"dtype": "number", "shape": [], "source": "x"}}

        def read_configuration(self):
            return {}

        def describe_configuration(self):
            return {}

        def subscribe(self, cb, **kw):
            self.cbs.append(cb)

        def clear_sub(self, cb):
            raise ValueError("clear_sub failed")
    RE = RunEngine({}, context_managers=[])
    key = info.get("key")
    seen = {}

    def hook(msg):
        if msg.command == "null":
            seen["registered"] = key in RE._run_bundlers

    RE.msg_hook = hook

    def plan():
        yield Msg("open_run", run=key)
        yield Msg("monitor", Sig(), run=key)
        try:
            yield Msg("close_run", run=key)
        except ValueError:
            pass
        yield Msg("null")
    try:
        RE(plan())
    except Exception:   # noqa
        pass
    ok = seen.get("registered") is True
    return ("contradicted" if ok else "confirmed"), f"after a failing close_run the run is {'still' if ok else 'no longer'} registered with the engine"
