"""C20 bounded stand-in (native): plan_mutator / msg_mutator on LONG plans whose messages die while the plan runs, so that the allocator
recycles their addresses - the proof assumes id() is injective on the messages the mutator remembers (they must be kept alive).
`python replay/long_plans.py sweep` prints `SWEEP {"messages": n, "failures": [...]}`."""
import gc
import json
import os
import sys

if __name__ == "__main__":
    sys.path.insert(0, os.path.dirname(os.path.dirname(os.path.abspath(__file__))))
    _repo = os.environ.get("VERIF_REPO", "/repo")
    if _repo != "/repo":
        sys.path.insert(0, os.path.join(_repo, "src"))


def sweep(n=6000):
    from bluesky.preprocessors import plan_mutator, msg_mutator
    from bluesky.utils import Msg
    failures = []

    def plan():
        for i in range(n):
            resp = yield Msg("null", None, i)          # a fresh message every time; nothing but the mutator may keep it alive
            if resp != i:
                failures.append(f"message {i} received the response {resp!r}")
            if i % 500 == 0:
                gc.collect()
    for name, wrap in (("plan_mutator", lambda p, f: plan_mutator(p, lambda m: (f(m), None)[1:] + (None,))),
                       ("msg_mutator", lambda p, f: msg_mutator(p, lambda m: (f(m), m)[1]))):
        seen = []
        g = wrap(plan(), lambda m: seen.append(m.args[0]))
        out = []
        try:
            m = g.send(None)
            while True:
                out.append(m.args[0])
                m = g.send(m.args[0])
        except StopIteration:
            pass
        if out != list(range(n)):
            failures.append(f"{name}: {len(out)} messages came out of {n}")
        if seen != list(range(n)):
            missing = sorted(set(range(n)) - set(seen))[:5]
            failures.append(f"{name}: the processor was consulted {len(seen)} times for {n} distinct messages (never for e.g. {missing})")
    return n, failures


def sweep_replay(model, info, art):
    n, failures = sweep()
    return ("confirmed" if failures else "contradicted"), ("; ".join(failures[:3]) if failures else f"{n} messages: every message processed once")


if __name__ == "__main__":
    n, fl = sweep()
    print("SWEEP " + json.dumps({"messages": n, "failures": [f[:300] for f in fl[:6]]}))
