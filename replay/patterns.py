"""replay adapters for C27 (plan_patterns: spiral, spiral_fermat, spiral_square_pattern).

The symbolic counter-model of a loop-cut obligation fixes the *parameters* of the call but not a realisable iteration (ring
number, cos and sin values are arbitrary there), so the adapter runs the REAL function and evaluates the SAME clause on every
point it produces - first with exactly the model's parameters, then (spirals only) with a small deterministic family that
keeps what the model says about the case (which function, dr_y given or not, the aspect dr_y/dr, the tilt) and only rescales
ranges and step so that the real spiral actually has points near the border.  A failing input found this way is a native
confirmation; if none is found the verdict is `not-constructible` (never `contradicted`: the model's iteration is not an input)."""
import itertools
import math

from .common import get


def _clause_spiral(pt, xm, ym, x_start, y_start, x_range, y_range, aspect, T, tilted):
    """R-y and R-x (R-x0 for the default tilt) on one produced point, with a float tolerance (A-REAL)"""
    X, Y = pt[xm], pt[ym]
    u, v = X - x_start, Y - y_start
    scale = 1.0 + abs(x_start) + abs(y_start) + abs(x_range) + abs(y_range)
    tol = 1e-9 * scale
    ok_y = abs(v) <= y_range / 2 + tol
    if tilted:
        ok_x = abs(u - (v / aspect) / T) <= x_range / 2 + tol
    else:
        ok_x = abs(u) <= x_range / 2 + abs(v / aspect) / 1e16 + tol
    return ok_y and ok_x, (ok_y, ok_x)


def _run_spiral(which, x_start, y_start, x_range, y_range, dr, last, dr_y, tilt):
    import numpy as np
    from bluesky import plan_patterns as pp
    f = getattr(pp, which)
    kw = {}
    if dr_y is not None:
        kw["dr_y"] = dr_y
    if tilt is not None:
        kw["tilt"] = tilt
    desc = f"{which}('x','y',{x_start!r},{y_start!r},{x_range!r},{y_range!r},{dr!r},{last!r}" + "".join(f",{k}={v!r}" for k, v in kw.items()) + ")"
    try:
        cyc = f("x", "y", x_start, y_start, x_range, y_range, dr, last, **kw)
    except Exception as e:
        return desc, None, f"raised {type(e).__name__}: {e}"
    if set(cyc.keys) != {"x", "y"}:
        return desc, None, f"result keys {cyc.keys}"
    pts = list(cyc)
    aspect = 1.0 if dr_y is None else dr_y / dr
    tilted = tilt is not None
    T = float(np.tan(tilt + np.pi / 2.0)) if tilted else None
    bad = []
    for k, pt in enumerate(pts):
        ok, which_ok = _clause_spiral(pt, "x", "y", x_start, y_start, x_range, y_range, aspect, T, tilted)
        if not ok:
            bad.append((k, pt, which_ok))
    return desc, (len(pts), bad), None


def spiral_bounds(model, info, art):
    which = info.get("which", "spiral")
    given = info.get("dr_y") == "given"
    tilted = bool(info.get("tilted"))
    x_start, y_start = get(model, "x_start", "real", 0.0), get(model, "y_start", "real", 0.0)
    x_range, y_range = get(model, "x_range", "real", 1.0), get(model, "y_range", "real", 1.0)
    dr = get(model, "dr", "real", 0.1)
    last = get(model, "nth" if which == "spiral" else "factor", "real", 1.0)
    dr_y = get(model, "dr_y", "real", dr) if given else None
    T = get(model, "tilt_tan", "real", 1.0) if tilted else None
    tilt = (math.atan(T) - math.pi / 2.0) if tilted else None
    aspect = (dr_y / dr) if given else None
    tried = []
    obligation = art.get("obligation") or ""
    exc_clause = "exception" in obligation or "#raises" in obligation

    def attempt(xs, ys, xr, yr, d, l):
        dy = aspect * d if given else None
        desc, res, err = _run_spiral(which, xs, ys, xr, yr, d, l, dy, tilt)
        tried.append(desc)
        if err is not None:
            # an exception produces no point: it violates only the exception clause (cycler raises StopIteration when it adds
            # two EMPTY cycles; that case is licensed by the contract)
            if exc_clause and not err.startswith("raised StopIteration"):
                return "confirmed", f"{desc}: {err}"
            return None
        n, bad = res
        if exc_clause:
            return None
        if bad:
            k, pt, (oky, okx) = bad[0]
            return "confirmed", (f"{desc}: {len(bad)} of {n} points violate the clause, first: point #{k} {pt} "
                                 f"(y bound {'ok' if oky else 'VIOLATED'}, x bound {'ok' if okx else 'VIOLATED'}); "
                                 f"x_range/2={xr / 2!r}, y_range/2={yr / 2!r}")
        return None

    # 1. exactly the model's parameters
    if all(math.isfinite(v) for v in (x_start, y_start, x_range, y_range, dr, last)) and dr > 0 and last > 0:
        est = (max(abs(x_range), abs(y_range), 1e-300) / (dr / last if which != "spiral" else dr)) ** 2
        if est < 4e6:
            r = attempt(x_start, y_start, x_range, y_range, dr, last)
            if r:
                return r
    # 2. same case (function, dr_y given?, aspect, tilt), rescaled so that the real spiral has points around the border
    lasts = [5.0, 1.0, 12.0] if which == "spiral" else [1.0, 2.0]
    for (xr, yr), frac, l, (xs, ys) in itertools.product([(2.0, 2.0), (2.0, 1.0), (1.0, 3.0)], [10.0, 23.0], lasts, [(0.0, 0.0), (x_start, y_start)]):
        if not (math.isfinite(xs) and math.isfinite(ys) and abs(xs) < 1e6 and abs(ys) < 1e6):
            continue
        d = min(xr, yr) / frac
        if given and aspect * d > 0 and (max(xr, yr) / min(d, aspect * d)) > 400:
            continue
        r = attempt(xs, ys, xr, yr, d, l)
        if r:
            return r[0], r[1] + "  [input from the rescaled family of the model's case]"
    return "not-constructible", (f"no violating point natively for the model's parameters nor for {len(tried)} rescaled inputs of the same "
                                 f"case (aspect={aspect!r}, tilt={tilt!r}); first tried: {tried[0] if tried else None}")


# ---------------------------------------------------------------------------------------------------- spiral_square_pattern
def _grid(center, rng, num):
    if num == 1:
        return [center]
    return [center - rng / 2 + i * (rng / (num - 1)) for i in range(num)]


def _eval_square(x_center, y_center, x_range, y_range, x_num, y_num):
    """-> (desc, problems list) for the clauses G-on, G-count, G-once evaluated on the real function"""
    from bluesky.plan_patterns import spiral_square_pattern
    desc = f"spiral_square_pattern('x','y',{x_center!r},{y_center!r},{x_range!r},{y_range!r},{x_num},{y_num})"
    try:
        cyc = spiral_square_pattern("x", "y", x_center, y_center, x_range, y_range, x_num, y_num)
    except Exception as e:
        return desc, [f"raised {type(e).__name__}: {e}"]
    pts = list(cyc)
    gx, gy = _grid(x_center, x_range, x_num), _grid(y_center, y_range, y_num)
    tol = 1e-9 * (1.0 + abs(x_center) + abs(y_center) + abs(x_range) + abs(y_range))

    def idx(v, g):
        best = min(range(len(g)), key=lambda i: abs(g[i] - v))
        return best if abs(g[best] - v) <= tol else None
    problems = []
    seen = {}
    for k, pt in enumerate(pts):
        i, j = idx(pt["x"], gx), idx(pt["y"], gy)
        if i is None or j is None:
            problems.append(f"point #{k} {pt} is not a grid point")
            continue
        seen.setdefault((i, j), []).append(k)
    if len(pts) > x_num * y_num:
        problems.append(f"{len(pts)} points for a grid of {x_num * y_num}")
    # by index, so that degenerate ranges (range 0) are judged as the statement reads: one emission per grid position
    if x_range != 0 and y_range != 0:
        dup = {ij: ks for ij, ks in seen.items() if len(ks) > 1}
        if dup:
            ij, ks = next(iter(dup.items()))
            problems.append(f"grid point {ij} produced {len(ks)} times (emissions {ks})")
        missing = [(i, j) for i in range(x_num) for j in range(y_num) if (i, j) not in seen]
        if missing:
            problems.append(f"{len(missing)} grid points never produced, e.g. {missing[0]}")
    elif len(pts) != x_num * y_num:
        problems.append(f"{len(pts)} points for a grid of {x_num * y_num}")
    return desc, problems


def square(model, info, art):
    x_num = info.get("x_num", None)
    y_num = info.get("y_num", None)
    if x_num is None:
        x_num = get(model, "x_num", "int", 2)
    if y_num is None:
        y_num = get(model, "y_num", "int", 2)
    xc, yc = get(model, "x_center", "real", 0.0), get(model, "y_center", "real", 0.0)
    xr, yr = get(model, "x_range", "real", 1.0), get(model, "y_range", "real", 1.0)
    tried = []
    sizes = [(x_num, y_num)]
    if x_num * y_num > 250000:
        sizes = []
    # the loop-cut model fixes parities / relative sizes, not a realisable iteration: also try small grids of the same parity class
    px, py = x_num % 2, y_num % 2
    for a in range(1, 8):
        for b in range(1, 8):
            if a % 2 == px and b % 2 == py and (a == 1) == (x_num == 1) and (b == 1) == (y_num == 1):
                sizes.append((a, b))
    for k, (a, b) in enumerate(sizes):
        for (c1, c2, r1, r2) in ([(xc, yc, xr, yr)] if k == 0 and sizes[0] == (x_num, y_num) else []) + [(0.0, 0.0, float(max(a - 1, 1)), float(max(b - 1, 1)))]:
            desc, problems = _eval_square(c1, c2, r1, r2, a, b)
            tried.append(desc)
            if problems:
                return "confirmed", f"{desc}: " + "; ".join(problems[:3])
    return "not-constructible", f"clauses hold natively on {len(tried)} inputs of the model's case, first: {tried[0]}"
