"""native replay for C18/C19: Dispatcher subscription bookkeeping and delivery policy"""
from event_model import DocumentNames

from bluesky.run_engine import Dispatcher


def same_callable(model, info, art):
    d = Dispatcher()
    got = []

    def f(name, doc):
        got.append(name)
    t1 = d.subscribe(f, "event")
    t2 = d.subscribe(f, "event")
    d.unsubscribe(t2)
    d.process(DocumentNames.event, {"x": 1})
    ok = t1 != t2 and got == ["event"]
    return ("contradicted" if ok else "confirmed"), f"subscribe(f) twice -> tokens {t1}, {t2}; after unsubscribe({t2}) f received {got}"


def subscriptions(model, info, art):
    problems = []
    d = Dispatcher()
    log = []
    f = lambda n, doc: log.append("f")      # noqa: E731
    g = lambda n, doc: log.append("g")      # noqa: E731
    tf = d.subscribe(f, "all")
    tg = d.subscribe(g, "event")
    d.process(DocumentNames.event, {})
    d.process(DocumentNames.start, {})
    if log != ["f", "g", "f"]:
        problems.append(f"deliveries {log}")
    log.clear()
    d.unsubscribe(tf)
    d.unsubscribe(tf)
    d.process(DocumentNames.event, {})
    if log != ["g"]:
        problems.append(f"after unsubscribe(f): {log}")
    return ("confirmed" if problems else "contradicted"), "; ".join(problems) or "subscriptions behave as documented"


def policy_case(n, raising, ignore):
    """n callbacks on 'event', those in `raising` raise (each its own exception): the clause of contracts/C19.py: process[n]"""
    d = Dispatcher()
    d.ignore_exceptions = ignore
    log = []
    booms = [ValueError(f"boom{i}") for i in range(n)]
    doc = {}

    def make(i):
        def cb(name, dd):
            log.append((i, name, dd))
            if i in raising:
                raise booms[i]
        return cb
    for i in range(n):
        d.subscribe(make(i), "event")
    try:
        d.process(DocumentNames.event, doc)
        r = ("ok", None)
    except Exception as exc:  # noqa: BLE001
        r = ("raise", exc)
    called = [i for i, nm, dd in log]
    args_ok = all(nm == "event" and dd is doc for i, nm, dd in log)
    if not raising or ignore:
        ok = r[0] == "ok" and called == list(range(n)) and args_ok
    else:
        ok = r[0] == "raise" and r[1] is booms[raising[0]] and called == list(range(raising[0] + 1)) and args_ok
    return [] if ok else [f"n={n} raising={raising} ignore_exceptions={ignore}: called {called}, outcome {r!r}, arguments ok: {args_ok}"]


def emit(model, info, art):
    """RunEngine.emit / emit_sync hand the document to the dispatcher exactly once and let its error through"""
    import asyncio

    from bluesky import RunEngine
    problems = []
    for fails in (False, True):
        for entry in ("emit", "emit_sync"):
            RE = RunEngine({}, context_managers=[])
            calls = []
            boom = ValueError("boom")

            def process(name, doc):
                calls.append((name, doc))
                if fails:
                    raise boom
            RE.dispatcher.process = process
            doc = {}
            try:
                if entry == "emit":
                    asyncio.run_coroutine_threadsafe(RE.emit(DocumentNames.event, doc), RE.loop).result(10)
                else:
                    RE.emit_sync(DocumentNames.event, doc)
                r = ("ok", None)
            except Exception as exc:  # noqa: BLE001
                r = ("raise", exc)
            ok = len(calls) == 1 and calls[0][0] is DocumentNames.event and calls[0][1] is doc and (r[0] == "raise" and r[1] is boom if fails else r[0] == "ok")
            if not ok:
                problems.append(f"{entry}, dispatcher raises={fails}: dispatcher called {len(calls)} times, outcome {r!r}")
    return ("confirmed" if problems else "contradicted"), "; ".join(problems) or "emit / emit_sync forward each document once and propagate errors"


def policy(model, info, art):
    if "n" in info:
        problems = policy_case(info["n"], info["raising"], info["ignore"])
        return ("confirmed" if problems else "contradicted"), "; ".join(problems) or f"n={info['n']} raising={info['raising']} ignore={info['ignore']}: as the statement demands"
    problems = []
    for ignore in (True, False):
        d = Dispatcher()
        d.ignore_exceptions = ignore
        log = []

        def a(n, doc):
            log.append("a")

        def bad(n, doc):
            log.append("bad")
            raise ValueError("boom")

        def c(n, doc):
            log.append("c")
        for cb in (a, bad, c):
            d.subscribe(cb, "event")
        try:
            d.process(DocumentNames.event, {})
            raised = False
        except ValueError:
            raised = True
        want = (["a", "bad", "c"], False) if ignore else (["a", "bad"], True)
        if (log, raised) != want:
            problems.append(f"ignore_exceptions={ignore}: called {log}, raised={raised}")
    return ("confirmed" if problems else "contradicted"), "; ".join(problems) or "delivery order and error policy as documented"


# ---------------------------------------------------------------------------------------------- C19: re-entrant (un)subscription
def resubscription_run(sc):
    """the scenario of contracts/C19.py: process.resubscription on the real Dispatcher -> problems (replay/c19_clause.py)"""
    from . import c19_clause as CL
    n, actor, action, target, raising = sc["n"], sc["actor"], sc["action"], sc["target"], sc["raising"]
    d = Dispatcher()
    d.ignore_exceptions = sc["ignore"]
    docs = [{"doc": 0}, {"doc": 1}]
    calls = ([], [])
    st = {"acted": None, "doc": 0, "error": None}
    tokens = {}
    boom = ValueError("boom")

    def idx(doc):
        hits = [i for i, x in enumerate(docs) if x is doc]
        return hits[0] if hits else -1

    def newcb(name, doc):
        calls[st["doc"]].append(("new", name, idx(doc)))

    def make(i):
        def cb(name, doc):
            calls[st["doc"]].append((f"cb{i}", name, idx(doc)))
            if i == actor:
                if st["acted"] is None:
                    st["acted"] = st["doc"]
                    try:
                        if action in (0, 4):
                            d.unsubscribe(tokens[i])
                        if action == 1:
                            d.unsubscribe(tokens[target])
                        if action in (2, 4):
                            tokens["new"] = d.subscribe(newcb, sc["new_kind"])
                    except Exception as exc:  # noqa: BLE001
                        st["error"] = repr(exc)
                if action == 3:
                    raise ReferenceError
            if i == raising and st["doc"] == 0:
                raise boom
        return cb
    for i in range(n):
        tokens[i] = d.subscribe(make(i), "event")
    outs = []
    for t in (0, 1):
        st["doc"] = t
        try:
            d.process(DocumentNames.event, docs[t])
            outs.append(("ok",))
        except Exception as exc:  # noqa: BLE001
            outs.append(("raise", exc is boom, repr(exc)))
    return CL.resubscription_problems(sc, st["acted"], st["error"], calls, outs)


def resubscription(model, info, art):
    sc = info.get("scenario")
    if not sc:
        return "not-constructible", "no scenario in the counter-model"
    problems = resubscription_run(sc)
    return ("confirmed" if problems else "contradicted"), "; ".join(problems[:4]) or f"scenario {sc}: every callback served as the statement demands"


# ---------------------------------------------------------------------------------------------- C19: a whole RE(plan) call
class _Det:
    name = "det"
    parent = None
    hints = {"fields": ["x"]}

    def read(self):
        return {"x": {"value": 1.0, "timestamp": 0.0}}

    def describe(self):
        return {"x": {"dtype": "number", "shape": [], "source": "det"}}

    def read_configuration(self):
        return {}

    def describe_configuration(self):
        return {}


def shape_plan(shape, det):
    """the plans of contracts/C19.py: shape_msgs, as real generators + the documents they produce when nothing fails"""
    from bluesky.utils import Msg

    def event(run):
        yield Msg("create", name="primary", run=run)
        yield Msg("read", det, run=run)
        yield Msg("save", run=run)
    if shape == "one run":
        def plan():
            yield Msg("open_run")
            yield from event(None)
            yield from event(None)
            yield Msg("close_run")
        return plan(), [("start", 0), ("descriptor", 0), ("event", 0), ("event", 0), ("stop", 0)]
    if shape == "interruptions recorded":
        def plan():
            yield Msg("open_run")
            yield from event(None)
            yield Msg("close_run")
        return plan(), [("start", 0), ("descriptor", 0), ("descriptor", 0), ("event", 0), ("stop", 0)]
    if shape == "two runs":
        def plan():
            yield Msg("open_run", run="a")
            yield Msg("open_run", run="b")
            yield from event("b")
            yield Msg("close_run", run="b")
            yield from event("a")
        return plan(), [("start", 0), ("start", 1), ("descriptor", 1), ("event", 1), ("stop", 1), ("descriptor", 0), ("event", 0), ("stop", 0)]
    raise ValueError(shape)


def run_policy_run(sc):
    """the scenario of contracts/C19.py: run[shape] on the real RunEngine -> (delivery, outcome, closing, closing at the stop)"""
    import logging
    import warnings

    from bluesky import RunEngine

    from . import c19_clause as CL
    warnings.simplefilter("ignore")
    logging.disable(logging.CRITICAL)
    shape, ignore, role, at, last_kind = sc["shape"], sc["ignore"], sc["role"], sc["at"], sc["last_kind"]
    RE = RunEngine({}, context_managers=[])
    RE.ignore_callback_exceptions = ignore
    if shape == "interruptions recorded":
        RE.record_interruptions = True
    plan, full = shape_plan(shape, _Det())
    E, En, calls, raises = [], [], [], {}
    real_process = RE.dispatcher.process

    def ledger(name, doc):
        E.append(doc)
        En.append(name.name)
        return real_process(name, doc)
    RE.dispatcher.process = ledger
    boom = ValueError("boom")
    tokens, st = {}, {"acted": None, "error": None}

    def idx(doc):
        hits = [i for i, x in enumerate(E) if x is doc]
        return hits[-1] if hits else -1

    def recorder(label):
        def cb(name, doc):
            t = idx(doc)
            calls.append((label, name, t))
            if label == "c" and role == "raises and so does the last one" and t == at:
                raise ValueError("boom of the last callback")
        return cb

    def middle(name, doc):
        t = idx(doc)
        calls.append(("x", name, t))
        if role in ("one-shot", "subscribes another", "replaces itself by another", "unsubscribes the last one") and t == at and st["acted"] is None:
            st["acted"] = t
            try:
                if role in ("one-shot", "replaces itself by another"):
                    RE.unsubscribe(tokens["x"])
                if role in ("subscribes another", "replaces itself by another"):
                    tokens["new"] = RE.subscribe(recorder("new"))
                if role == "unsubscribes the last one":
                    RE.unsubscribe(tokens["c"])
            except Exception as exc:  # noqa: BLE001
                st["error"] = repr(exc)
        if (role in ("raises", "raises and so does the last one") and t == at and not raises) or (role == "raises from then on" and t >= at):
            raises[t] = "x"
            raise boom
    tokens["a"] = RE.subscribe(recorder("a"))
    tokens["x"] = RE.subscribe(middle)
    tokens["c"] = RE.subscribe(recorder("c"), last_kind)
    try:
        RE(plan)
        outcome = ("ok",)
    except Exception as exc:  # noqa: BLE001
        outcome = ("raise", exc is boom, repr(exc))
    j = st["acted"]
    subs = [("a", "all", -1, None, None), ("x", "all", -1, j if role in ("one-shot", "replaces itself by another") else None, None),
            ("c", last_kind, -1, j if role == "unsubscribes the last one" else None, j if role == "unsubscribes the last one" else None)]
    if role in ("subscribes another", "replaces itself by another") and j is not None:
        subs.append(("new", "all", j, None, j))
    docs = [{"name": nm, "uid": x.get("uid"), "run_start": x.get("run_start"), "exit_status": x.get("exit_status")} for nm, x in zip(En, E)]
    delivery, out, closing, closing_at_stop = CL.run_problems(docs, calls, subs, raises, ignore, outcome, full)
    if RE.state != "idle":
        out.append(f"the engine is left in state {RE.state!r}")
    if st["error"]:
        delivery.append(f"(un)subscribing from inside the callback raised {st['error']}")
    if role in ("one-shot", "subscribes another", "replaces itself by another", "unsubscribes the last one") and j is None:
        delivery.append(f"the middle callback never saw document #{at}")
    return delivery, out, closing, closing_at_stop


def run_policy(model, info, art):
    sc = info.get("scenario")
    if not sc:
        return "not-constructible", "no scenario in the counter-model"
    delivery, out, closing, closing_at_stop = run_policy_run(sc)
    # the clause of the obligation being replayed
    mine = {"delivery": delivery, "outcome": out, "closing": closing, "at_stop": closing_at_stop}[info.get("clause", "delivery")]
    return ("confirmed" if mine else "contradicted"), "; ".join(mine[:4]) or f"scenario {sc}: clause holds natively"
