"""native replay for C18/C19: Dispatcher subscription bookkeeping and delivery policy"""
from event_model import DocumentNames

from bluesky.run_engine import Dispatcher


def same_callable(model, info, art):
    d = Dispatcher()
    got = []

    def f(name, doc):
        got.append(name)
    t1 = d.subscribe(f, "event")
    t2 = d.subscribe(f, "event")
    d.unsubscribe(t2)
    d.process(DocumentNames.event, {"x": 1})
    ok = t1 != t2 and got == ["event"]
    return ("contradicted" if ok else "confirmed"), f"subscribe(f) twice -> tokens {t1}, {t2}; after unsubscribe({t2}) f received {got}"


def subscriptions(model, info, art):
    problems = []
    d = Dispatcher()
    log = []
    f = lambda n, doc: log.append("f")      # noqa: E731
    g = lambda n, doc: log.append("g")      # noqa: E731
    tf = d.subscribe(f, "all")
    tg = d.subscribe(g, "event")
    d.process(DocumentNames.event, {})
    d.process(DocumentNames.start, {})
    if log != ["f", "g", "f"]:
        problems.append(f"deliveries {log}")
    log.clear()
    d.unsubscribe(tf)
    d.unsubscribe(tf)
    d.process(DocumentNames.event, {})
    if log != ["g"]:
        problems.append(f"after unsubscribe(f): {log}")
    return ("confirmed" if problems else "contradicted"), "; ".join(problems) or "subscriptions behave as documented"


def policy(model, info, art):
    problems = []
    for ignore in (True, False):
        d = Dispatcher()
        d.ignore_exceptions = ignore
        log = []

        def a(n, doc):
            log.append("a")

        def bad(n, doc):
            log.append("bad")
            raise ValueError("boom")

        def c(n, doc):
            log.append("c")
        for cb in (a, bad, c):
            d.subscribe(cb, "event")
        try:
            d.process(DocumentNames.event, {})
            raised = False
        except ValueError:
            raised = True
        want = (["a", "bad", "c"], False) if ignore else (["a", "bad"], True)
        if (log, raised) != want:
            problems.append(f"ignore_exceptions={ignore}: called {log}, raised={raised}")
    return ("confirmed" if problems else "contradicted"), "; ".join(problems) or "delivery order and error policy as documented"
