"""native replay for C18/C19: Dispatcher subscription bookkeeping and delivery policy"""
import itertools
import os
import weakref

from event_model import DocumentNames

from bluesky.run_engine import Dispatcher

ROOT = os.path.dirname(os.path.dirname(os.path.abspath(__file__)))
V = {}
exec(compile(open(os.path.join(ROOT, "contracts/refs/c18_view.py")).read(), "c18_view", "exec"), V)
DOCNAMES = V["DOCNAMES"]


def same_callable(model, info, art):
    """the scenario of the counter-model: f subscribed to 'event', then to `second subscription kind`; one of the tokens removed"""
    dec = {a: b for a, b in (art.get("decisions") or [])}
    kind2 = dec.get("second subscription kind", "event")
    removed = dec.get("token removed", "second")
    d = Dispatcher()
    got = []

    def f(name, doc):
        got.append(name)
    t1 = d.subscribe(f, "event")
    t2 = d.subscribe(f, kind2)
    gone = t1 if removed == "first" else t2
    d.unsubscribe(gone)
    d.process(DocumentNames.event, {"x": 1})
    ok = t1 != t2 and len(got) >= 1
    return ("contradicted" if ok else "confirmed"), (f"subscribe(f, 'event') -> {t1}, subscribe(f, {kind2!r}) -> {t2}; after unsubscribe({gone}) an event "
                                                     f"document was received {len(got)} time(s) by f")


# ------------------------------------------------------------------------------------------------ histories (C18)
def _callables(log):
    def mk(label):
        def cb(name, doc):
            log.append((label, name))
        cb.label = label
        cb.__qualname__ = label
        return cb
    return {c: mk(c) for c in ("f", "g")}


def _lab(proxy):
    return getattr(proxy.func, "label", repr(proxy.func))


_KEEP = []


def _concrete(d):
    """the fields REP talks about.  The registry's proxy objects seen here are kept alive for the rest of the replay: like the proof
    (weak references never die, see TRUSTED) the replay judges the code without relying on CPython's reference counting to empty the
    WeakKeyDictionary of _func_cid_map the moment a registration is deleted"""
    reg = d.cb_registry
    _KEEP.extend(p for cd in reg.callbacks.values() for p in cd.values())
    return {"tokens": {t: list(v) if isinstance(v, (list, tuple)) else [v] for t, v in d._token_mapping.items()},
            "callbacks": {sig.name: [(cid, _lab(p)) for cid, p in cd.items()] for sig, cd in reg.callbacks.items()},
            "func_cid": {sig.name: [(_lab(p), cid) for p, cid in m.items()] for sig, m in reg._func_cid_map.items()}}


def _snap(v, depth=0):
    """canonical description of the object graph below v (what 'nothing changed' is judged on)"""
    nxt = depth + 1
    if depth > 14:
        return "..."
    if v is None or isinstance(v, (int, str, bool, float)):
        return v
    if isinstance(v, DocumentNames):
        return v.name
    if isinstance(v, itertools.count):
        return repr(v)
    if isinstance(v, weakref.WeakKeyDictionary):
        return ("map", tuple((_snap(k, nxt), _snap(x, nxt)) for k, x in v.items()))
    if isinstance(v, dict):
        return ("dict", tuple((_snap(k, nxt), _snap(x, nxt)) for k, x in v.items()))
    if isinstance(v, (list, tuple)):
        return (type(v).__name__, tuple(_snap(x, nxt) for x in v))
    if isinstance(v, (set, frozenset)):
        return ("set", tuple(sorted(repr(_snap(x, nxt)) for x in v)))
    if callable(v) and hasattr(v, "__qualname__"):
        return ("fn", v.__qualname__)
    if hasattr(v, "__dict__") and type(v).__module__.startswith("bluesky"):
        return ("obj", type(v).__name__, tuple(sorted((k, _snap(x, nxt)) for k, x in vars(v).items())))
    return ("host", type(v).__name__)


def _clause(obligation):
    if "never handed out before" in obligation:
        return "fresh"
    if "#invariant[REP" in obligation:
        return "rep"
    if "changes nothing" in obligation:
        return "noop"
    return "deliveries"


def _observe(d, log):
    received = {}
    for n in DOCNAMES:
        del log[:]
        d.process(DocumentNames[n], {"probe": n})
        received[n] = [lab if name == n else f"{lab}(wrong name {name})" for lab, name in log]
    del log[:]
    return received


def _verdict(found, clause, ops):
    mine = [(i, p) for i, k, p in found if k == clause]
    other = [(i, k, p) for i, k, p in found if k != clause]
    if mine:
        i, p = mine[0]
        return "confirmed", f"history {ops[:i + 1]}: {'; '.join(p[:3])}"
    return "contradicted", f"history {ops}: clause '{clause}' holds natively after every operation" + (f" (other clauses fail: {other[:2]})" if other else "")


def history(model, info, art):
    """runs the counter-model's history on a real Dispatcher and judges every operation by the same clauses (contracts/refs/c18_view.py)"""
    ops = list(info["ops"])
    clause = _clause(art.get("obligation", ""))
    log = []
    cbs = _callables(log)
    d = Dispatcher()
    view = V["View"]()
    tokens = []
    found = []
    for i, op in enumerate(ops):
        kind, c, filt, idx = V["parse"](op)
        noop_before = None
        raised = []
        try:
            if kind == "subscribe":
                t = d.subscribe(*V["subscribe_args"](c, filt, cbs))
                p = V["fresh_token_problems"](view, t)
                if p:
                    found.append((i, "fresh", p))
                    break
                tokens.append(t)
                view.subscribed(t, c, filt)
            elif kind == "unsubscribe":
                t = V["UNKNOWN_TOKEN"] if idx == "unknown" else tokens[idx]
                if t not in view.subs:
                    noop_before = _snap(d)
                d.unsubscribe(t)
                view.unsubscribed(t)
            elif kind == "unsubscribe_all":
                if not view.subs:
                    noop_before = _snap(d)
                d.unsubscribe_all()
                view.unsubscribed_all()
        except Exception as e:          # noqa: BLE001
            raised = [f"raised {e!r}"]
        p_rep = V["rep_problems"](view, _concrete(d))
        p_del = raised + V["delivery_problems"](view, _observe(d, log))
        if noop_before is not None:
            if raised or _snap(d) != noop_before:
                found.append((i, "noop", raised + ["the state changed"] + p_rep + p_del))
                break
            continue
        if p_rep:
            found.append((i, "rep", p_rep))
        if p_del:
            found.append((i, "deliveries", p_del))
        if p_rep or p_del:
            break
    return _verdict(found, clause, ops)


class _Det:
    parent = None
    hints = {"fields": []}
    name = "det"

    def read(self):
        return {"det": {"value": 1.0, "timestamp": 0.0}}

    def describe(self):
        return {"det": {"dtype": "number", "shape": [], "source": "x"}}

    def read_configuration(self):
        return {}

    def describe_configuration(self):
        return {}


RUN_NAMES = ["start", "descriptor", "event", "stop"]


def _one_run(det):
    from bluesky.utils import Msg
    yield Msg("open_run")
    yield Msg("create", name="primary")
    yield Msg("read", det)
    yield Msg("save")
    yield Msg("close_run")


class _Stop(Exception):
    pass


def engine_history(model, info, art):
    """runs the counter-model's history on a real RunEngine: permanent operations through RE.subscribe / RE.unsubscribe, `call` as a
    new RE(plan, subs), `msg` operations as messages of that plan; after every operation inside a call the plan performs one run
    (start, descriptor, event, stop) and the same clauses are judged (before the first call: by one extra call without subscriptions)"""
    from bluesky import RunEngine
    from bluesky.utils import Msg
    ops = list(info["ops"])
    clause = _clause(art.get("obligation", ""))
    log = []
    cbs = _callables(log)
    RE = RunEngine({}, context_managers=[])
    d = RE.dispatcher
    det = _Det()
    view = V["View"]()
    tokens = []
    found = []
    returned = []       # what the real Dispatcher.subscribe returned (the per-call subscription's token is not handed to the caller)
    real_subscribe = d.subscribe

    def recording_subscribe(*a, **k):
        returned.append(real_subscribe(*a, **k))
        return returned[-1]
    d.subscribe = recording_subscribe

    def received():
        out = {n: [lab for lab, name in log if name == n] for n in RUN_NAMES}
        del log[:]
        return out

    def state():
        return (_snap(d), tuple(sorted(RE._temp_callback_ids, key=repr)))

    def judge_state(i, raised=()):
        p_rep = V["rep_problems"](view, _concrete(d), set(RE._temp_callback_ids))
        if p_rep:
            found.append((i, "rep", p_rep))
        return bool(p_rep)

    def judge_run(i):
        p_del = V["delivery_problems"](view, received(), RUN_NAMES)
        if p_del:
            found.append((i, "deliveries", p_del))
        return bool(p_del)

    def fresh(i, t, c, filt, lifetime):
        p = V["fresh_token_problems"](view, t)
        if p:
            found.append((i, "fresh", p))
            raise _Stop
        tokens.append(t)
        view.subscribed(t, c, filt, lifetime)

    def permanent(i, op):
        """-> True if the history ends here"""
        kind, c, filt, idx = V["parse"](op)
        if kind == "subscribe":
            fresh(i, RE.subscribe(cbs[c], filt), c, filt, "permanent")
        else:
            t = tokens[idx]
            if t not in view.subs:
                before = state()
                RE.unsubscribe(t)
                if state() != before:
                    found.append((i, "noop", ["the state changed"] + V["rep_problems"](view, _concrete(d), set(RE._temp_callback_ids))))
                raise _Stop
            RE.unsubscribe(t)
            view.unsubscribed(t)

    def plan(i0, segment):
        # i0: index of the `call` operation; segment: the operations up to the next `call`
        kind, c, filt, _ = V["parse"](ops[i0])
        view.call_started()
        if c is not None:
            mine = list(returned)
            if len(mine) != 1:
                found.append((i0, "fresh", [f"the per-call subscription produced the tokens {mine} (expected one)"]))
                raise _Stop
            fresh(i0, mine[0], c, filt, "per-call")
        bad = judge_state(i0)
        del log[:]
        yield from _one_run(det)
        if judge_run(i0) or bad:
            raise _Stop
        for i, op in segment:
            kind, c, filt, idx = V["parse"](op)
            if kind == "msg subscribe":
                t = yield Msg("subscribe", None, cbs[c], filt)
                fresh(i, t, c, filt, "in-plan")
            elif kind == "msg unsubscribe":
                t = tokens[idx]
                yield (Msg("unsubscribe", None, t) if t % 2 else Msg("unsubscribe", None, token=t))
                view.unsubscribed(t)
            else:
                permanent(i, op)
            bad = judge_state(i)
            del log[:]
            yield from _one_run(det)
            if judge_run(i) or bad:
                raise _Stop

    calls = [i for i, op in enumerate(ops) if op.startswith("call")]
    try:
        for i, op in enumerate(ops[:calls[0]] if calls else ops):
            permanent(i, op)
            if judge_state(i):
                raise _Stop
        if not calls:
            del log[:]
            RE(_one_run(det))
            if judge_run(len(ops) - 1):
                raise _Stop
        for k, i0 in enumerate(calls):
            end = calls[k + 1] if k + 1 < len(calls) else len(ops)
            kind, c, filt, _ = V["parse"](ops[i0])
            subs = None if c is None else (cbs[c] if filt == "all" else {filt: [cbs[c]]})
            del returned[:]
            try:
                RE(plan(i0, [(i, ops[i]) for i in range(i0 + 1, end)]), subs)
            except _Stop:
                raise
            except Exception as e:      # noqa: BLE001
                if isinstance(e.__cause__, _Stop) or isinstance(e.__context__, _Stop):
                    raise _Stop from None
                found.append((end - 1, "deliveries", [f"raised {e!r}"]))
                raise _Stop from None
    except _Stop:
        pass
    return _verdict(found, clause, ops)


def subscriptions(model, info, art):
    """the scenario of dispatcher.distinct_callables with the counter-model's choices"""
    dec = {a: b for a, b in (art.get("decisions") or [])}
    kind_f = dec.get("f subscribed to", "all")
    which = dec.get("unsubscribed", "f")
    problems = []
    d = Dispatcher()
    log = []
    f = lambda n, doc: log.append("f")      # noqa: E731
    g = lambda n, doc: log.append("g")      # noqa: E731
    tf = d.subscribe(f, kind_f)
    tg = d.subscribe(g, "event")
    d.process(DocumentNames.event, {})
    d.process(DocumentNames.start, {})
    if tf == tg or log != ["f", "g"] + (["f"] if kind_f == "all" else []):
        problems.append(f"tokens {tf}, {tg}; deliveries {log}")
    log.clear()
    t = tf if which == "f" else tg
    d.unsubscribe(t)
    d.unsubscribe(t)
    d.unsubscribe(12345)
    d.process(DocumentNames.event, {})
    if log != (["g"] if which == "f" else ["f"]):
        problems.append(f"after unsubscribe({which}): {log}")
    log.clear()
    d.unsubscribe_all()
    d.process(DocumentNames.event, {})
    if log:
        problems.append(f"after unsubscribe_all: {log}")
    return ("confirmed" if problems else "contradicted"), "; ".join(problems) or "subscriptions behave as documented"


def engine_tokens(model, info, art):
    """the scenario of engine.tokens on a real RunEngine: a permanent, an in-plan and a per-call subscription to 'event'; the next call
    must deliver to the permanent one only; the permanent one ends with its token"""
    from bluesky import RunEngine
    from bluesky.utils import Msg
    log = []
    mk = lambda lab: (lambda n, doc: log.append(lab))       # noqa: E731
    perm, temp, inplan = mk("permanent"), mk("per-call"), mk("in-plan")
    RE = RunEngine({}, context_managers=[])
    det = _Det()
    tp = RE.subscribe(perm, "event")

    def plan1():
        yield Msg("subscribe", None, inplan, "event")
        yield from _one_run(det)
    RE(plan1(), {"event": [temp]})
    before, log[:] = sorted(log), []
    RE(_one_run(det))
    after, log[:] = list(log), []
    left = set(RE._temp_callback_ids)
    RE.unsubscribe(tp)
    RE(_one_run(det))
    problems = []
    if before != sorted(["permanent", "in-plan", "per-call"]) or after != ["permanent"] or left:
        problems.append(f"first call delivered an event to {before}, the next call to {after}; temporary ids left: {left}")
    if log:
        problems.append(f"after RE.unsubscribe({tp}) an event was still delivered to {log}")
    return ("confirmed" if problems else "contradicted"), "; ".join(problems) or f"subscriptions end as asked (temporary ids left: {left})"


def policy_case(n, raising, ignore):
    """n callbacks on 'event', those in `raising` raise (each its own exception): the clause of contracts/C19.py: process[n]"""
    d = Dispatcher()
    d.ignore_exceptions = ignore
    log = []
    booms = [ValueError(f"boom{i}") for i in range(n)]
    doc = {}

    def make(i):
        def cb(name, dd):
            log.append((i, name, dd))
            if i in raising:
                raise booms[i]
        return cb
    for i in range(n):
        d.subscribe(make(i), "event")
    try:
        d.process(DocumentNames.event, doc)
        r = ("ok", None)
    except Exception as exc:  # noqa: BLE001
        r = ("raise", exc)
    called = [i for i, nm, dd in log]
    args_ok = all(nm == "event" and dd is doc for i, nm, dd in log)
    if not raising or ignore:
        ok = r[0] == "ok" and called == list(range(n)) and args_ok
    else:
        ok = r[0] == "raise" and r[1] is booms[raising[0]] and called == list(range(raising[0] + 1)) and args_ok
    return [] if ok else [f"n={n} raising={raising} ignore_exceptions={ignore}: called {called}, outcome {r!r}, arguments ok: {args_ok}"]


def emit(model, info, art):
    """RunEngine.emit / emit_sync hand the document to the dispatcher exactly once and let its error through"""
    import asyncio

    from bluesky import RunEngine
    problems = []
    for fails in (False, True):
        for entry in ("emit", "emit_sync"):
            RE = RunEngine({}, context_managers=[])
            calls = []
            boom = ValueError("boom")

            def process(name, doc):
                calls.append((name, doc))
                if fails:
                    raise boom
            RE.dispatcher.process = process
            doc = {}
            try:
                if entry == "emit":
                    asyncio.run_coroutine_threadsafe(RE.emit(DocumentNames.event, doc), RE.loop).result(10)
                else:
                    RE.emit_sync(DocumentNames.event, doc)
                r = ("ok", None)
            except Exception as exc:  # noqa: BLE001
                r = ("raise", exc)
            ok = len(calls) == 1 and calls[0][0] is DocumentNames.event and calls[0][1] is doc and (r[0] == "raise" and r[1] is boom if fails else r[0] == "ok")
            if not ok:
                problems.append(f"{entry}, dispatcher raises={fails}: dispatcher called {len(calls)} times, outcome {r!r}")
    return ("confirmed" if problems else "contradicted"), "; ".join(problems) or "emit / emit_sync forward each document once and propagate errors"


def policy(model, info, art):
    if "n" in info:
        problems = policy_case(info["n"], info["raising"], info["ignore"])
        return ("confirmed" if problems else "contradicted"), "; ".join(problems) or f"n={info['n']} raising={info['raising']} ignore={info['ignore']}: as the statement demands"
    problems = []
    for ignore in (True, False):
        d = Dispatcher()
        d.ignore_exceptions = ignore
        log = []

        def a(n, doc):
            log.append("a")

        def bad(n, doc):
            log.append("bad")
            raise ValueError("boom")

        def c(n, doc):
            log.append("c")
        for cb in (a, bad, c):
            d.subscribe(cb, "event")
        try:
            d.process(DocumentNames.event, {})
            raised = False
        except ValueError:
            raised = True
        want = (["a", "bad", "c"], False) if ignore else (["a", "bad"], True)
        if (log, raised) != want:
            problems.append(f"ignore_exceptions={ignore}: called {log}, raised={raised}")
    return ("confirmed" if problems else "contradicted"), "; ".join(problems) or "delivery order and error policy as documented"


# ---------------------------------------------------------------------------------------------- C19: re-entrant (un)subscription
def resubscription_run(sc):
    """the scenario of contracts/C19.py: process.resubscription on the real Dispatcher -> problems (replay/c19_clause.py)"""
    from . import c19_clause as CL
    n, actor, action, target, raising = sc["n"], sc["actor"], sc["action"], sc["target"], sc["raising"]
    d = Dispatcher()
    d.ignore_exceptions = sc["ignore"]
    docs = [{"doc": 0}, {"doc": 1}]
    calls = ([], [])
    st = {"acted": None, "doc": 0, "error": None}
    tokens = {}
    boom = ValueError("boom")

    def idx(doc):
        hits = [i for i, x in enumerate(docs) if x is doc]
        return hits[0] if hits else -1

    def newcb(name, doc):
        calls[st["doc"]].append(("new", name, idx(doc)))

    def make(i):
        def cb(name, doc):
            calls[st["doc"]].append((f"cb{i}", name, idx(doc)))
            if i == actor:
                if st["acted"] is None:
                    st["acted"] = st["doc"]
                    try:
                        if action in (0, 4):
                            d.unsubscribe(tokens[i])
                        if action == 1:
                            d.unsubscribe(tokens[target])
                        if action in (2, 4):
                            tokens["new"] = d.subscribe(newcb, sc["new_kind"])
                    except Exception as exc:  # noqa: BLE001
                        st["error"] = repr(exc)
                if action == 3:
                    raise ReferenceError
            if i == raising and st["doc"] == 0:
                raise boom
        return cb
    for i in range(n):
        tokens[i] = d.subscribe(make(i), "event")
    outs = []
    for t in (0, 1):
        st["doc"] = t
        try:
            d.process(DocumentNames.event, docs[t])
            outs.append(("ok",))
        except Exception as exc:  # noqa: BLE001
            outs.append(("raise", exc is boom, repr(exc)))
    return CL.resubscription_problems(sc, st["acted"], st["error"], calls, outs)


def resubscription(model, info, art):
    sc = info.get("scenario")
    if not sc:
        return "not-constructible", "no scenario in the counter-model"
    problems = resubscription_run(sc)
    return ("confirmed" if problems else "contradicted"), "; ".join(problems[:4]) or f"scenario {sc}: every callback served as the statement demands"


# ---------------------------------------------------------------------------------------------- C19: a whole RE(plan) call
class _Det:
    name = "det"
    parent = None
    hints = {"fields": ["x"]}

    def read(self):
        return {"x": {"value": 1.0, "timestamp": 0.0}}

    def describe(self):
        return {"x": {"dtype": "number", "shape": [], "source": "det"}}

    def read_configuration(self):
        return {}

    def describe_configuration(self):
        return {}


def shape_plan(shape, det):
    """the plans of contracts/C19.py: shape_msgs, as real generators + the documents they produce when nothing fails"""
    from bluesky.utils import Msg

    def event(run):
        yield Msg("create", name="primary", run=run)
        yield Msg("read", det, run=run)
        yield Msg("save", run=run)
    if shape == "one run":
        def plan():
            yield Msg("open_run")
            yield from event(None)
            yield from event(None)
            yield Msg("close_run")
        return plan(), [("start", 0), ("descriptor", 0), ("event", 0), ("event", 0), ("stop", 0)]
    if shape == "interruptions recorded":
        def plan():
            yield Msg("open_run")
            yield from event(None)
            yield Msg("close_run")
        return plan(), [("start", 0), ("descriptor", 0), ("descriptor", 0), ("event", 0), ("stop", 0)]
    if shape == "two runs":
        def plan():
            yield Msg("open_run", run="a")
            yield Msg("open_run", run="b")
            yield from event("b")
            yield Msg("close_run", run="b")
            yield from event("a")
        return plan(), [("start", 0), ("start", 1), ("descriptor", 1), ("event", 1), ("stop", 1), ("descriptor", 0), ("event", 0), ("stop", 0)]
    raise ValueError(shape)


def run_policy_run(sc):
    """the scenario of contracts/C19.py: run[shape] on the real RunEngine -> (delivery, outcome, closing, closing at the stop)"""
    import logging
    import warnings

    from bluesky import RunEngine

    from . import c19_clause as CL
    warnings.simplefilter("ignore")
    logging.disable(logging.CRITICAL)
    shape, ignore, role, at, last_kind = sc["shape"], sc["ignore"], sc["role"], sc["at"], sc["last_kind"]
    RE = RunEngine({}, context_managers=[])
    RE.ignore_callback_exceptions = ignore
    if shape == "interruptions recorded":
        RE.record_interruptions = True
    plan, full = shape_plan(shape, _Det())
    E, En, calls, raises = [], [], [], {}
    real_process = RE.dispatcher.process

    def ledger(name, doc):
        E.append(doc)
        En.append(name.name)
        return real_process(name, doc)
    RE.dispatcher.process = ledger
    boom = ValueError("boom")
    tokens, st = {}, {"acted": None, "error": None}

    def idx(doc):
        hits = [i for i, x in enumerate(E) if x is doc]
        return hits[-1] if hits else -1

    def recorder(label):
        def cb(name, doc):
            t = idx(doc)
            calls.append((label, name, t))
            if label == "c" and role == "raises and so does the last one" and t == at:
                raise ValueError("boom of the last callback")
        return cb

    def middle(name, doc):
        t = idx(doc)
        calls.append(("x", name, t))
        if role in ("one-shot", "subscribes another", "replaces itself by another", "unsubscribes the last one") and t == at and st["acted"] is None:
            st["acted"] = t
            try:
                if role in ("one-shot", "replaces itself by another"):
                    RE.unsubscribe(tokens["x"])
                if role in ("subscribes another", "replaces itself by another"):
                    tokens["new"] = RE.subscribe(recorder("new"))
                if role == "unsubscribes the last one":
                    RE.unsubscribe(tokens["c"])
            except Exception as exc:  # noqa: BLE001
                st["error"] = repr(exc)
        if (role in ("raises", "raises and so does the last one") and t == at and not raises) or (role == "raises from then on" and t >= at):
            raises[t] = "x"
            raise boom
    tokens["a"] = RE.subscribe(recorder("a"))
    tokens["x"] = RE.subscribe(middle)
    tokens["c"] = RE.subscribe(recorder("c"), last_kind)
    try:
        RE(plan)
        outcome = ("ok",)
    except Exception as exc:  # noqa: BLE001
        outcome = ("raise", exc is boom, repr(exc))
    j = st["acted"]
    subs = [("a", "all", -1, None, None), ("x", "all", -1, j if role in ("one-shot", "replaces itself by another") else None, None),
            ("c", last_kind, -1, j if role == "unsubscribes the last one" else None, j if role == "unsubscribes the last one" else None)]
    if role in ("subscribes another", "replaces itself by another") and j is not None:
        subs.append(("new", "all", j, None, j))
    docs = [{"name": nm, "uid": x.get("uid"), "run_start": x.get("run_start"), "exit_status": x.get("exit_status")} for nm, x in zip(En, E)]
    delivery, out, closing, closing_at_stop = CL.run_problems(docs, calls, subs, raises, ignore, outcome, full)
    if RE.state != "idle":
        out.append(f"the engine is left in state {RE.state!r}")
    if st["error"]:
        delivery.append(f"(un)subscribing from inside the callback raised {st['error']}")
    if role in ("one-shot", "subscribes another", "replaces itself by another", "unsubscribes the last one") and j is None:
        delivery.append(f"the middle callback never saw document #{at}")
    return delivery, out, closing, closing_at_stop


def run_policy(model, info, art):
    sc = info.get("scenario")
    if not sc:
        return "not-constructible", "no scenario in the counter-model"
    delivery, out, closing, closing_at_stop = run_policy_run(sc)
    # the clause of the obligation being replayed
    mine = {"delivery": delivery, "outcome": out, "closing": closing, "at_stop": closing_at_stop}[info.get("clause", "delivery")]
    return ("confirmed" if mine else "contradicted"), "; ".join(mine[:4]) or f"scenario {sc}: clause holds natively"
