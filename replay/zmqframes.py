"""native replay for C33: the real Publisher.__call__ and RemoteDispatcher._poll over an in-memory transport
(fake sockets; no zmq context is created)"""
import asyncio
import pickle

from bluesky.callbacks.zmq import Bluesky0MQDecodeError, Publisher, RemoteDispatcher
from event_model import DocumentNames

from .common import boolean, string


class _Done(Exception):
    pass


class _Sock:
    def __init__(self, frames):
        self.frames = list(frames)
        self.sent = []

    async def recv(self):
        if not self.frames:
            raise _Done()
        return self.frames.pop(0)

    def send(self, frame):
        self.sent.append(frame)


class _Loop:
    def __init__(self):
        self.calls = []

    def call_soon(self, f, *a):
        self.calls.append(a)


def poll(frames, prefix=b"", strict=False, deserializer=pickle.loads):
    d = object.__new__(RemoteDispatcher)
    d._prefix, d._strict, d._socket, d.loop, d._deserializer = prefix, strict, _Sock(frames), _Loop(), deserializer
    d.process = lambda name, doc: None
    try:
        asyncio.run(d._poll())
        end = "returned"
    except _Done:
        end = "consumed all frames"
    except Bluesky0MQDecodeError:
        end = "Bluesky0MQDecodeError"
    except Exception as e:           # noqa
        end = f"{type(e).__name__}: {e}"
    return end, d.loop.calls, len(d._socket.frames)


def publish(prefix, docs, serializer=pickle.dumps):
    p = object.__new__(Publisher)
    p._prefix, p._socket, p._serializer = prefix, _Sock([]), serializer
    for n, doc in docs:
        p(n, doc)
    return p._socket.sent


def well_formed(frame, deserializer):
    parts = frame.split(b" ", 2)
    if len(parts) != 3:
        return False
    try:
        name = parts[1].decode()
    except UnicodeDecodeError:
        return False
    if name not in DocumentNames.__members__:
        return False
    try:
        deserializer(parts[2])
    except Exception:
        return False
    return True


def check_frame(frame, strict, deserializer, problems):
    end, calls, left = poll([frame, b" start " + pickle.dumps({"uid": "after"})], strict=strict, deserializer=deserializer)
    wf = well_formed(frame, deserializer)
    tag = f"frame {frame[:60]!r} strict={strict}"
    if wf:
        if end != "consumed all frames" or len(calls) != 2:
            problems.append(f"{tag}: well-formed frame -> {end}, {len(calls)} deliveries")
    elif strict:
        if end != "Bluesky0MQDecodeError" or calls:
            problems.append(f"{tag}: malformed frame in strict mode -> {end}, {len(calls)} deliveries (expected Bluesky0MQDecodeError, none)")
    else:
        if end != "consumed all frames" or len(calls) != 1:
            problems.append(f"{tag}: malformed frame in non-strict mode -> {end}, {len(calls)} deliveries, {left} frames unread "
                            "(expected: dropped, the following frame delivered)")


BATTERY = [b"", b"nospace", b"one space", b"  ", b"p  x", b"p \xff\xfe x", b"p nosuchdoc " + pickle.dumps({}), b"p start notapickle",
           b"p start " + pickle.dumps({"uid": "u"}), b" event " + pickle.dumps({"a b": " c  d "})]


def malformed(model, info, art):
    problems = []
    frames = []
    if "message" in model:
        frames.append(string(model["message"]).encode("latin-1", "replace"))
    ok = boolean(model.get("payload_deserializes"), True)
    for fr in frames:
        for strict in (False, True):
            check_frame(fr, strict, (lambda b: ("deserialized", b)) if ok else pickle.loads, problems)
    for fr in BATTERY:
        for strict in (False, True):
            check_frame(fr, strict, pickle.loads, problems)
    return ("confirmed" if problems else "contradicted"), "; ".join(problems) or "malformed frames are dropped / raise in strict mode; nothing delivered"


def roundtrip(model, info, art):
    problems = []
    docs = [("start", {"uid": "a b", "x": b" \x00 "}), ("descriptor", {"uid": "d", "data_keys": {" ": 1}}), ("event", {"uid": "e", "data": {"s": "  "}}),
            ("stream_datum", {"uid": "sd"}), ("stop", {"uid": "s"})]
    prefixes = [b"", b"abc", b"\xff\x00"]
    if "pub_prefix" in model:
        p = string(model["pub_prefix"]).encode("latin-1", "replace")
        if b" " not in p:
            prefixes.append(p)
    for pp in prefixes:
        frames = publish(pp, docs)
        others = [b"zzz"] + ([string(model["disp_prefix"]).encode("latin-1", "replace")] if "disp_prefix" in model else [])
        for dp in [b"", pp] + others:
            if b" " in dp:
                continue
            for strict in (False, True):
                end, calls, left = poll(frames, prefix=dp, strict=strict)
                want = [(DocumentNames[n], d) for n, d in docs] if (not dp or dp == pp) else []
                if end != "consumed all frames" or [tuple(c) for c in calls] != want:
                    problems.append(f"publisher prefix {pp!r}, dispatcher prefix {dp!r}, strict={strict}: {end}, delivered {calls!r}")
    for cls, kw in ((Publisher, {}), (RemoteDispatcher, {})):
        for bad in ("text", b"a b"):
            try:
                cls("localhost:1", prefix=bad)
                problems.append(f"{cls.__name__} accepted prefix {bad!r}")
            except ValueError:
                pass
    return ("confirmed" if problems else "contradicted"), "; ".join(problems) or "documents delivered intact, in order, filtered by prefix"
