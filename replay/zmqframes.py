"""native replay for C33: the real Publisher.__call__ and RemoteDispatcher._poll over an in-memory transport
(fake sockets; no zmq context is created)"""
import asyncio
import pickle

from bluesky.callbacks.zmq import Bluesky0MQDecodeError, Publisher, RemoteDispatcher
from event_model import DocumentNames

from .common import boolean, string


class _Done(Exception):
    pass


class _Sock:
    def __init__(self, frames):
        self.frames = list(frames)
        self.sent = []

    async def recv(self):
        if not self.frames:
            raise _Done()
        return self.frames.pop(0)

    def send(self, frame):
        self.sent.append(frame)


class _Loop:
    """deliveries: the arguments handed to Dispatcher.process, through call_soon (FIFO) or by a direct call"""

    def __init__(self):
        self.calls = []
        self.routes = set()

    def call_soon(self, f, *a):
        self.calls.append(a)
        self.routes.add("soon")

    def direct(self, *a):
        self.calls.append(a)
        self.routes.add("direct")


def poll(frames, prefix=b"", strict=False, deserializer=pickle.loads):
    d = object.__new__(RemoteDispatcher)
    d._prefix, d._strict, d._socket, d.loop, d._deserializer = prefix, strict, _Sock(frames), _Loop(), deserializer
    d.process = d.loop.direct
    try:
        asyncio.run(d._poll())
        end = "returned"
    except _Done:
        end = "consumed all frames" if len(d.loop.routes) < 2 else "mixed delivery routes (order not kept)"
    except Bluesky0MQDecodeError:
        end = "Bluesky0MQDecodeError"
    except Exception as e:           # noqa
        end = f"{type(e).__name__}: {e}"
    return end, d.loop.calls, len(d._socket.frames)


def publish(prefix, docs, serializer=pickle.dumps):
    p = object.__new__(Publisher)
    p._prefix, p._socket, p._serializer = prefix, _Sock([]), serializer
    for n, doc in docs:
        p(n, doc)
    return p._socket.sent


def model_bytes(model, key):
    if key not in model:
        return None
    b = string(model[key]).encode("latin-1", "replace")
    return None if b" " in b else b


def other_prefixes(pp):
    """space-free byte strings different from pp, in every position relative to it (shorter, longer, sharing head / tail)"""
    cand = [b"zzz", pp + b"x", pp + b"2", pp + b"_test", b"x" + pp, pp[:-1], pp[1:], pp[:1], pp[-1:], pp + pp, pp[::-1], pp.swapcase(), b"\x00", pp + b"\x00",
            pp + b"\n", b"\t"]
    out = []
    for c in cand:
        if c and c != pp and b" " not in c and c not in out:
            out.append(c)
    return out


# ----------------------------------------------------------------------------- malformed frames
class _Unrelated(Exception):
    """an exception class of the deserializer's own"""


def _raiser(cls):
    def deserializer(b):
        if cls is UnicodeDecodeError:
            raise UnicodeDecodeError("utf-8", b"\xff", 0, 1, "deserializer failure")
        raise cls("deserializer failure")
    return deserializer


class _Gone:
    pass


def _missing_class_pickle():
    data = pickle.dumps(_Gone())
    return data.replace(b"_Gone", b"_Lost")            # names a class the receiving process does not have


def _missing_module_pickle():
    return pickle.dumps(_Gone()).replace(b"replay.zmqframes", b"replay.zmqframez")     # same length: the pickle stays well-formed


def well_formed(frame, deserializer):
    parts = frame.split(b" ", 2)
    if len(parts) != 3:
        return False
    try:
        name = parts[1].decode()
    except UnicodeDecodeError:
        return False
    if name not in DocumentNames.__members__:
        return False
    try:
        deserializer(parts[2])
    except Exception:
        return False
    return True


def check_frame(frame, strict, deserializer, problems, prefix=b"", dname=""):
    """the clause of the obligation on one frame: [frame, a good frame for this dispatcher]"""
    after = {"uid": "after"}
    good = lambda b: after if b == b"<after>" else deserializer(b)      # noqa: E731
    end, calls, left = poll([frame, prefix + b" stop <after>"], prefix=prefix, strict=strict, deserializer=good)
    parts = frame.split(b" ", 2)
    wf = well_formed(frame, good)
    foreign = len(parts) == 3 and bool(prefix) and parts[0] != prefix
    tag = f"frame {frame[:60]!r} dispatcher prefix={prefix!r} strict={strict} deserializer={dname or getattr(deserializer, '__name__', deserializer)}"
    last_ok = bool(calls) and tuple(calls[-1]) == (DocumentNames.stop, after)
    if wf and not foreign:
        want = (DocumentNames[parts[1].decode()], good(parts[2]))
        if end != "consumed all frames" or len(calls) != 2 or tuple(calls[0]) != want or not last_ok:
            problems.append(f"{tag}: well-formed frame -> {end}, {len(calls)} deliveries {calls!r}")
    elif foreign:
        if end == "consumed all frames":
            if len(calls) != 1 or not last_ok:
                problems.append(f"{tag}: frame of another publisher -> {len(calls)} deliveries {calls!r}")
        elif not (strict and not wf and end == "Bluesky0MQDecodeError" and not calls):
            problems.append(f"{tag}: frame of another publisher -> {end}, {len(calls)} deliveries, {left} frames unread")
    elif strict:
        if end != "Bluesky0MQDecodeError" or calls:
            problems.append(f"{tag}: malformed frame in strict mode -> {end}, {len(calls)} deliveries (expected Bluesky0MQDecodeError, none)")
    else:
        if end != "consumed all frames" or len(calls) != 1 or not last_ok:
            problems.append(f"{tag}: malformed frame in non-strict mode -> {end}, {len(calls)} deliveries, {left} frames unread "
                            "(expected: dropped, the following frame delivered)")


def battery():
    good = pickle.dumps({"uid": "u"})
    return [b"", b"nospace", b"one space", b"  ", b"p  x", b"p \xff\xfe x", b"p nosuchdoc " + good, b"p start notapickle",
            b"p start " + good, b" event " + pickle.dumps({"a b": " c  d "}), b"p start ", b"p start \x80\x04", b"p start " + good[:-3],
            b"p event " + _missing_class_pickle(), b"p event " + _missing_module_pickle(), b"pq start " + good, b"pq start notapickle",
            b"p START " + good, b"p start" + good, b" start " + good, b"p\tstart\t" + good, b"p start " + b"x y" * 1000, b"p stop " + b"\x80" * 1025]


def malformed(model, info, art):
    problems = []
    dprefixes = [b"", b"p"]
    dp = model_bytes(model, "disp_prefix")
    if dp:
        dprefixes.append(dp)
    deserializers = [("pickle.loads", pickle.loads)] + [(f"raises {c.__name__}", _raiser(c)) for c in
                                                        (_Unrelated, ValueError, KeyError, UnicodeDecodeError, EOFError, AttributeError, ModuleNotFoundError,
                                                         TypeError, pickle.UnpicklingError, IndexError, MemoryError)]
    frames = battery()
    if "message" in model:
        frames.insert(0, string(model["message"]).encode("latin-1", "replace"))
        if boolean(model.get("payload_deserializes"), True):
            deserializers.insert(0, ("accepts", lambda b: ("deserialized", b)))
    for prefix in dprefixes:
        for fr in frames:
            for strict in (False, True):
                for dname, des in deserializers:
                    check_frame(fr, strict, des, problems, prefix=prefix, dname=dname)
    return ("confirmed" if problems else "contradicted"), "; ".join(problems[:12]) or "malformed frames are dropped / raise in strict mode; nothing delivered"


# ----------------------------------------------------------------------------- round trip / histories
DOCS = [("start", {"uid": "a b", "x": b" \x00 "}), ("descriptor", {"uid": "d", "data_keys": {" ": 1}}), ("event", {"uid": "e", "data": {"s": "  "}}),
        ("stream_datum", {"uid": "sd"}), ("stop", {"uid": "s"})]


def roundtrip(model, info, art):
    problems = []
    docs = DOCS + [(n, {"uid": n, "pad": " " * k}) for k, n in enumerate(DocumentNames.__members__)]
    prefixes = [b"", b"abc", b"\xff\x00", b"sb"]
    p = model_bytes(model, "pub_prefix")
    if p is not None:
        prefixes.insert(0, p)
    for pp in prefixes:
        frames = publish(pp, docs)
        if len(frames) != len(docs):
            problems.append(f"publisher prefix {pp!r}: {len(frames)} frames sent for {len(docs)} documents")
            continue
        others = other_prefixes(pp)
        dp = model_bytes(model, "disp_prefix")
        if dp:
            others.insert(0, dp)
        for dp in [b"", pp] + others:
            for strict in (False, True):
                end, calls, left = poll(frames, prefix=dp, strict=strict)
                want = [(DocumentNames[n], d) for n, d in docs] if (not dp or dp == pp) else []
                if end != "consumed all frames" or [tuple(c) for c in calls] != want:
                    problems.append(f"publisher prefix {pp!r}, dispatcher prefix {dp!r}, strict={strict}: {end}, delivered {len(calls)} documents "
                                    f"(expected {len(want)}): {calls[:3]!r}")
    for cls, kw in ((Publisher, {}), (RemoteDispatcher, {})):
        for bad in ("text", b"a b"):
            try:
                cls("localhost:1", prefix=bad)
                problems.append(f"{cls.__name__} accepted prefix {bad!r}")
            except ValueError:
                pass
    return ("confirmed" if problems else "contradicted"), "; ".join(problems[:12]) or "documents delivered intact, in order, filtered by prefix"


class _FakeZmq:
    PUB, SUB, SUBSCRIBE = 1, 2, 6

    class Context:
        def socket(self, kind):
            return _FakeZmq.Socket()

        def destroy(self):
            pass

    class Socket(_Sock):
        def __init__(self):
            super().__init__([])

        def connect(self, url):
            pass

        def close(self):
            pass


def constructed(model, info, art):
    """objects built by the real constructors behave as configured: serializer / deserializer / strict flag reach __call__ / _poll"""
    problems = []
    good = b"p start " + pickle.dumps({"uid": "u"})
    for strict in (False, True, None):
        kw = {} if strict is None else {"strict": strict}
        d = RemoteDispatcher(("localhost", 1), prefix=b"p", zmq=_FakeZmq, zmq_asyncio=_FakeZmq, deserializer=lambda b: ("mine", pickle.loads(b)), **kw)
        real_loop = d.loop
        try:
            d._socket, d.loop = _Sock([b"p start notapickle", good]), _Loop()
            try:
                asyncio.run(d._poll())
                end = "returned"
            except _Done:
                end = "consumed all frames"
            except Bluesky0MQDecodeError:
                end = "Bluesky0MQDecodeError"
            except Exception as e:           # noqa
                end = f"{type(e).__name__}: {e}"
            calls = [tuple(c[-2:]) for c in d.loop.calls]
            want = ("Bluesky0MQDecodeError", []) if strict else ("consumed all frames", [(DocumentNames.start, ("mine", {"uid": "u"}))])
            if (end, calls) != want:
                problems.append(f"RemoteDispatcher(strict={strict}, deserializer=mine): {end}, delivered {calls!r}; expected {want!r}")
        finally:
            real_loop.close()
    p = Publisher(("localhost", 1), prefix=b"p", zmq=_FakeZmq, serializer=lambda doc: b"<" + repr(sorted(doc.items())).encode() + b">")
    p("start", {"uid": "u"})
    if p._socket.sent != [b"p start <[('uid', 'u')]>"]:
        problems.append(f"Publisher(serializer=mine) sent {p._socket.sent!r}")
    return ("confirmed" if problems else "contradicted"), "; ".join(problems) or "constructed objects use the given serializer / deserializer / strict flag"


def _short(call):
    try:
        n, d = call
        return (getattr(n, "name", n), d.get("by") if isinstance(d, dict) else d)
    except Exception:      # noqa
        return call


def history(model, info, art):
    """two publishers interleave their documents on one proxy; every dispatcher (no prefix, A's prefix, B's prefix, a third one)
    must deliver exactly the documents of its publisher, in arrival order"""
    problems = []
    pairs = [(b"sb", b"sb2"), (b"sb", b"not_sb"), (b"", b"a"), (b"ab", b"b"), (b"a", b"A"), (b"x\x00", b"x")]
    pa, pb = model_bytes(model, "prefix_a"), model_bytes(model, "prefix_b")
    if pa is not None and pb is not None and pa != pb:
        pairs.insert(0, (pa, pb))
    third = model_bytes(model, "disp_prefix")
    for pa, pb in pairs:
        da, db = [(n, dict(d, by="A")) for n, d in DOCS], [(n, dict(d, by="B")) for n, d in DOCS]
        fa, fb = publish(pa, da), publish(pb, db)
        if len(fa) != len(da) or len(fb) != len(db):
            problems.append(f"publishers A={pa!r} B={pb!r}: {len(fa)} / {len(fb)} frames sent for {len(da)} / {len(db)} documents")
            continue
        for pattern in ("ABABABABAB", "AABBBABAAB", "BBBBBAAAAA", "BABAABABAB"):
            ia, ib, frames, sent = iter(zip(fa, da)), iter(zip(fb, db)), [], []
            for c in pattern:
                f, (n, doc) = next(ia if c == "A" else ib)
                frames.append(f)
                sent.append((c, DocumentNames[n], doc))
            for dp in [b"", pa, pb] + ([third] if third else []) + other_prefixes(pa)[:6]:
                for strict in (False, True):
                    end, calls, left = poll(frames, prefix=dp, strict=strict)
                    want = [(n, d) for c, n, d in sent if not dp or dp == (pa if c == "A" else pb)]
                    if end != "consumed all frames" or [tuple(c) for c in calls] != want:
                        problems.append(f"publishers A={pa!r} B={pb!r} interleaved {pattern}, dispatcher prefix {dp!r}, strict={strict}: {end}, "
                                        f"delivered {[_short(c) for c in calls]!r}, expected {[_short(c) for c in want]!r}")
    return ("confirmed" if problems else "contradicted"), "; ".join(problems[:12]) or "each dispatcher delivered exactly its publisher's documents, in order"
