"""Native replay for C29 (adaptive_scan, tune_centroid): runs the real plans under CPython with fake devices.

A counter-model of a loop-cut obligation is a state at the loop head (possibly from the middle of a run) plus the readings
of one iteration.  The adapter starts the real plan with the model's parameters, stops at the first message of the loop body
(`checkpoint`), writes the model's state into the suspended frame of the carrier (PyFrame_LocalsToFast), answers the reads
with the model's readings and evaluates the *same clause text* (contracts/refs/c29_clauses.py) on what the real code then
does (positions of the 'set' messages, locals at the next loop head), in exact rational arithmetic on the observed floats.
Obligations about the code after the loop / the whole run are replayed by complete native runs with the model's parameters
over a few detector responses (constant, peaked, step, alternating)."""
import ast
import ctypes
import gc
import inspect
import math
import os
import sys
from fractions import Fraction

from .common import num as parse_num, boolean

ROOT = os.path.dirname(os.path.dirname(os.path.abspath(__file__)))
CL = {}
exec(compile(open(os.path.join(ROOT, "contracts/refs/c29_clauses.py")).read(), "c29_clauses", "exec"), CL)


class L:
    """logic namespace for the clauses (native instance)"""
    And = staticmethod(lambda *xs: all(xs))
    Or = staticmethod(lambda *xs: any(xs))
    ite = staticmethod(lambda c, a, b: a if c else b)
    half = staticmethod(lambda x: x / 2)


class Dev:
    parent = None

    def __init__(self, name):
        self.name = name
        self.hints = {"fields": [name]}

    def __repr__(self):
        return f"Dev({self.name})"

    def read(self):
        return {}

    def describe(self):
        return {}

    def trigger(self):
        pass

    def set(self, v):
        pass

    def read_configuration(self):
        return {}

    def describe_configuration(self):
        return {}


def fr(x):
    if x is None:
        return None
    return Fraction(x) if not isinstance(x, Fraction) else x


def val(model, name, default=0):
    if name is None:
        return None
    if not isinstance(name, str):
        return float(name)
    s = model.get(name)
    return float(parse_num(s, default)) if s is not None else float(default)


def find_frame(co_name):
    for o in gc.get_objects():
        if inspect.isgenerator(o) and o.gi_code.co_name == co_name and o.gi_frame is not None:
            return o
    return None


def inject(gen, state):
    f = gen.gi_frame
    loc = f.f_locals
    loc.update(state)
    ctypes.pythonapi.PyFrame_LocalsToFast(ctypes.py_object(f), ctypes.c_int(0))


def _while(gen):
    import textwrap
    tree = ast.parse(textwrap.dedent(inspect.getsource(gen.gi_code)))
    return [n for n in ast.walk(tree) if isinstance(n, ast.While)][0]


def loop_guard(gen, local_vars=None):
    """evaluates the real `while` test of the carrier in its suspended frame (or in a recorded state of it)"""
    code = compile(ast.Expression(_while(gen).test), "<guard>", "eval")
    f = gen.gi_frame
    return bool(eval(code, f.f_globals, dict(f.f_locals) if local_vars is None else dict(local_vars)))


class HeadTrace:
    """records the carrier's locals every time control reaches the `while` line (loop head), also the last time when the
    guard turns false"""

    def __init__(self, gen):
        self.code = gen.gi_code
        self.lineno = self.code.co_firstlineno + _while(gen).lineno - 1
        self.states = []
        self.guard = compile(ast.Expression(_while(gen).test), "<guard>", "eval")
        sys.settrace(self.glob)

    def glob(self, frame, event, arg):
        return self.loc if frame.f_code is self.code else None

    def loc(self, frame, event, arg):
        if event == "line" and frame.f_lineno == self.lineno:
            loc = dict(frame.f_locals)
            self.states.append((loc, bool(eval(self.guard, frame.f_globals, dict(loc)))))
        return self.loc

    def stop(self):
        sys.settrace(None)


def one_iteration(run, gen, names):
    """continue the run until control is at the loop head again; -> (state there or None, value of the real guard there)"""
    ht = HeadTrace(gen)
    try:
        while not ht.states and run.step():
            pass
    finally:
        ht.stop()
    if not ht.states:
        return None, None
    loc, again = ht.states[0]
    return {k: (None if loc.get(k) is None else fr(float(loc[k]))) for k in names}, again


class Run:
    """drives a plan like the run engine would (answers every message; 'read' from `reader`)"""

    def __init__(self, plan, reader):
        self.plan, self.reader = plan, reader
        self.sets = []
        self.done = False
        self.exc = None
        self.msg = None
        self.n = 0
        self.resp = None

    def step(self):
        """advance to the next message; False when the plan ended"""
        try:
            self.msg = self.plan.send(self.resp)
        except StopIteration:
            self.done = True
            return False
        except Exception as e:          # noqa
            self.done, self.exc = True, e
            return False
        self.n += 1
        m = self.msg
        self.resp = None
        if m.command == "set":
            self.sets.append((m.obj, m.args[0]))
        elif m.command == "read":
            self.resp = self.reader(m.obj)
        return True

    def until(self, command, limit=100000):
        while self.step():
            if self.msg.command == command:
                return True
            if self.n > limit:
                return False
        return False


RESPONSES = {
    "constant": lambda x, k: 1.0,
    "zero": lambda x, k: 0.0,
    "peak": lambda x, k: math.exp(-((x - 0.3) ** 2) * 50),
    "step": lambda x, k: 0.0 if x < 0.25 else 5.0,
    "alternating": lambda x, k: float(k % 2),
    "negative": lambda x, k: -1.0 - (k % 3),
}


# ------------------------------------------------------------------------------------------------------ adaptive_scan
def _adaptive_setup(model, info):
    from bluesky import plans as bp
    P = {k: val(model, v) for k, v in info["params"].items()}
    backstep = boolean(model.get("backstep"), False)
    det, mot = Dev("det"), Dev("mot")
    mk = lambda: bp.adaptive_scan([det], "I", mot, P["start"], P["stop"], P["min_step"], P["max_step"], P["target_delta"], backstep, P["threshold"])  # noqa
    return P, backstep, det, mot, mk


def _state(gen, names):
    loc = gen.gi_frame.f_locals
    return {k: (None if loc.get(k) is None else fr(float(loc[k]))) for k in names}


A_LIVE = ("next_pos", "step", "past_I", "cur_I")


def adaptive(model, info, art):
    P, backstep, det, mot, mk = _adaptive_setup(model, info)
    p = {k: fr(v) for k, v in P.items()}
    ob = art.get("obligation", "")
    desc = f"params={P} backstep={backstep}"
    if "#terminates" in ob or info.get("phase") == "after":
        return _adaptive_full(P, backstep, mk, p, ob, desc)
    readings = list(info.get("readings") or [])

    def reader(obj):
        if not readings:
            return {obj.name + "_other": {"value": 0.0, "timestamp": 0}}
        name, has, sym = readings.pop(0)
        return {("I" if has else obj.name + "_other"): {"value": val(model, sym), "timestamp": 0}}
    run = Run(mk(), reader)
    if not run.until("checkpoint"):
        return "not-constructible", f"{desc}: the loop is not entered natively ({run.exc!r})"
    gen = find_frame("adaptive_core")
    if gen is None:
        return "not-constructible", "no adaptive_core frame"
    if "#loop.establish" in ob:
        s = _state(gen, A_LIVE)
        ok = CL["a_inv"](L, p, s)
        return ("contradicted" if ok else "confirmed"), f"{desc}: state at loop entry {s}, invariant {ok}"
    pre = {k: val(model, v) for k, v in (info.get("pre") or {}).items()}
    inject(gen, pre)
    s0 = {k: fr(v) for k, v in pre.items()}
    if "ranking pair bounded" in ob:
        g = loop_guard(gen)
        ok = CL["a_rank_bounded"](L, p, s0)
        if not g:
            return "not-constructible", f"{desc}: the real loop guard is false in state {pre}"
        return ("contradicted" if ok else "confirmed"), f"{desc}: guard true in {pre}; bounded clause {ok}"
    n0 = len(run.sets)
    s1, again = one_iteration(run, gen, A_LIVE)
    visited = [x for _, x in run.sets[n0:n0 + 1]]
    if "#ensures" in ob:
        bad = [x for o, x in run.sets[n0:n0 + 1] if o is not mot or not CL["a_range"](L, p, fr(float(x)))]
        return ("confirmed" if bad else "contradicted"), f"{desc}: from state {pre} the real loop body commands {visited}; outside the clause: {bad}"
    if run.exc is not None:
        return "confirmed", f"{desc}: from state {pre} the body raises {run.exc!r}"
    if s1 is None:
        return "contradicted", f"{desc}: from state {pre} control does not come back to the loop head"
    if "#loop.preserve" in ob:
        ok = CL["a_inv"](L, p, s1)
    else:
        if not again:
            return "contradicted", f"{desc}: from state {pre} the loop ends after this iteration (no decrease needed)"
        ok = CL["a_decreases_twin" if ob.startswith("twin:") else "a_decreases"](L, p, s0, s1)
    fl = lambda s: {k: (None if v is None else float(v)) for k, v in s.items()}  # noqa
    return ("contradicted" if ok else "confirmed"), (f"{desc}: loop head {fl(s0)} -> next loop head {fl(s1)} (positions commanded {visited}); "
                                                   f"ranking pairs {tuple(map(float, CL['a_rank'](L, p, s0)))} -> {tuple(map(float, CL['a_rank'](L, p, s1)))}; clause holds: {ok}")


def _adaptive_full(P, backstep, mk, p, ob, desc):
    """complete native runs with the model's parameters: range of every set, termination within a message budget"""
    out = []
    for label, f in RESPONSES.items():
        pos = [P["start"]]
        k = [0]

        def reader(obj, f=f):
            k[0] += 1
            return {"I": {"value": f(pos[0], k[0]), "timestamp": 0}} if obj.name == "det" else {"mot": {"value": pos[0], "timestamp": 0}}
        run = Run(mk(), reader)
        while run.step():
            if run.msg.command == "set":
                pos[0] = float(run.msg.args[0])
            if run.n > 20000:
                break
        bad = [x for _, x in run.sets if not CL["a_range"](L, p, fr(float(x)))]
        if run.exc is not None and not (isinstance(run.exc, ValueError) and not run.sets):
            return "confirmed", f"{desc}: response '{label}': raised {run.exc!r} after {run.n} messages"
        if not run.done:
            return "confirmed", f"{desc}: response '{label}': still running after {run.n} messages, last positions {[float(x) for _, x in run.sets[-4:]]}"
        if bad:
            return "confirmed", f"{desc}: response '{label}': positions outside the clause {bad[:4]}"
        out.append(f"{label}: {len(run.sets)} positions, ended {'by ' + type(run.exc).__name__ if run.exc else 'normally'}")
    return "not-constructible", f"{desc}: complete runs satisfy the clauses ({'; '.join(out)})"


# ------------------------------------------------------------------------------------------------------ tune_centroid
T_LIVE = ("start", "stop", "next_pos", "step", "sum_I", "sum_xI", "peak_position")


def _tune_setup(model, info):
    from bluesky import plans as bp
    names = info["params"]
    Q = {k: val(model, names[k]) for k in ("start0", "stop0", "min_step", "step_factor")}
    num = int(parse_num(model.get("num"), 3))
    snake = boolean(model.get("snake"), False)
    det, mot = Dev("det"), Dev("mot")
    mk = lambda: bp.tune_centroid([det], "I", mot, Q["start0"], Q["stop0"], Q["min_step"], num, Q["step_factor"], snake)  # noqa
    q = {k: fr(v) for k, v in Q.items()}
    q["num1"] = Fraction(num - 1)
    return Q, num, snake, det, mot, mk, q


def tune(model, info, art):
    Q, num, snake, det, mot, mk, q = _tune_setup(model, info)
    ob = art.get("obligation", "")
    nonneg = bool(info.get("nonneg"))
    desc = f"params={Q} num={num} snake={snake}"
    if "#terminates" in ob or info.get("phase") == "after":
        return _tune_full(Q, mk, q, ob, desc, nonneg or "parking" in ob)
    readings = list(info.get("readings") or [])

    def reader(obj):
        v = val(model, readings.pop(0)[1]) if readings else 0.0
        return {("I" if obj is det else "mot"): {"value": v, "timestamp": 0}}
    run = Run(mk(), reader)
    if not run.until("checkpoint"):
        return "not-constructible", f"{desc}: the loop is not entered natively ({run.exc!r})"
    gen = find_frame("_tune_core")
    if gen is None:
        return "not-constructible", "no _tune_core frame"
    if "#loop.establish" in ob:
        s = _state(gen, T_LIVE)
        ok = CL["t_inv"](L, q, s, nonneg)
        return ("contradicted" if ok else "confirmed"), f"{desc}: state at loop entry {s}, invariant {ok}"
    pre = {k: val(model, v) for k, v in (info.get("pre") or {}).items()}
    inject(gen, pre)
    s0 = {k: fr(v) for k, v in pre.items()}
    if "ranking pair bounded" in ob:
        if not loop_guard(gen):
            return "not-constructible", f"{desc}: the real loop guard is false in state {pre}"
        ok = CL["t_rank_bounded"](L, q, s0)
        return ("contradicted" if ok else "confirmed"), f"{desc}: guard true in {pre}; bounded clause {ok}"
    n0 = len(run.sets)
    s1, again = one_iteration(run, gen, T_LIVE)
    visited = [x for _, x in run.sets[n0:n0 + 1]]
    if "#ensures" in ob:
        bad = [x for o, x in run.sets[n0:n0 + 1] if o is not mot or not CL["t_in_window"](L, q, fr(float(x)))]
        return ("confirmed" if bad else "contradicted"), f"{desc}: from state {pre} the real loop body commands {visited}; outside the window: {bad}"
    if run.exc is not None:
        return "confirmed", f"{desc}: from state {pre} the body raises {run.exc!r}"
    if s1 is None:
        return "contradicted", f"{desc}: from state {pre} control does not come back to the loop head"
    if "#loop.preserve" in ob:
        ok = CL["t_inv"](L, q, s1, nonneg)
    else:
        if not again:
            return "contradicted", f"{desc}: from state {pre} the loop ends after this iteration (no decrease needed)"
        ok = CL["t_decreases_twin" if ob.startswith("twin:tune") else "t_decreases"](L, q, s0, s1)
    fl = lambda s: {k: (None if v is None else float(v)) for k, v in s.items()}  # noqa
    return ("contradicted" if ok else "confirmed"), (f"{desc}: loop head {fl(s0)} -> next loop head {fl(s1)} (positions commanded {visited}); "
                                                   f"ranking pairs {tuple(map(float, CL['t_rank'](L, q, s0)))} -> {tuple(map(float, CL['t_rank'](L, q, s1)))}; clause holds: {ok}")


def _tune_full(Q, mk, q, ob, desc, nonneg):
    out = []
    lo, hi = min(Q["start0"], Q["stop0"]), max(Q["start0"], Q["stop0"])
    for label, f in RESPONSES.items():
        if nonneg and label == "negative" and not ob.startswith("twin:park"):
            continue
        pos = [Q["start0"]]
        k = [0]

        def reader(obj, f=f):
            k[0] += 1
            x = (pos[0] - lo) / (hi - lo) if hi > lo else 0.0
            return {"I": {"value": f(x, k[0]), "timestamp": 0}} if obj.name == "det" else {"mot": {"value": pos[0], "timestamp": 0}}
        run = Run(mk(), reader)
        while run.step():
            if run.msg.command == "set":
                pos[0] = float(run.msg.args[0])
            if run.n > 50000:
                break
        bad = [x for _, x in run.sets if not CL["t_in_window"](L, q, fr(float(x)))]
        if run.exc is not None and not ((isinstance(run.exc, ValueError) and run.n == 0 or isinstance(run.exc, ZeroDivisionError)) and not run.sets):
            return "confirmed", f"{desc}: response '{label}': raised {run.exc!r} after {run.n} messages"
        if not run.done:
            return "confirmed", f"{desc}: response '{label}': still running after {run.n} messages, last positions {[float(x) for _, x in run.sets[-4:]]}"
        if bad:
            return "confirmed", f"{desc}: response '{label}': positions outside the window {bad[:4]}"
        out.append(f"{label}: {len(run.sets)} positions, ended {'by ' + type(run.exc).__name__ if run.exc else 'normally'}")
    return "not-constructible", f"{desc}: complete runs satisfy the clauses ({'; '.join(out)})"


# ------------------------------------------------------------------------------------------------------ contract validation
def validate_contracts():
    """run-time validation of the assumed callee contract (contracts/refs/c29.py) against the real bluesky.plan_stubs.mv"""
    from bluesky import plan_stubs as bps
    ns = {}
    exec(compile(open(os.path.join(ROOT, "contracts/refs/c29.py")).read(), "c29", "exec"), ns)
    a, b = Dev("a"), Dev("b")
    for args in [(a, 1.5), (a, 0.0, b, -2.0)]:
        real = [(m.command, m.obj, m.args, {k: v for k, v in m.kwargs.items() if k != "group"}) for m in bps.mv(*args, group="g")]
        spec = [(m.command, m.obj, m.args, {k: v for k, v in m.kwargs.items() if k != "group"}) for m in ns["mv_contract"](*args, group="g")]
        assert real == spec, (real, spec)
    return "ok"


if __name__ == "__main__":
    print(validate_contracts())
