"""helpers for native replay adapters: parsing z3 model values"""
import re
from fractions import Fraction


def num(s, default=0):
    if s is None:
        return default
    s = s.strip()
    if s.endswith("?"):
        s = s[:-1]
    m = re.fullmatch(r"\(?\s*-\s*(.*?)\)?", s)
    if s.startswith("(- "):
        return -num(s[3:-1])
    if "/" in s:
        a, b = s.split("/")
        f = Fraction(int(a), int(b))
        return float(f)
    try:
        return int(s)
    except ValueError:
        return float(s)


def real(s, default=0.0):
    return float(num(s, default))


def boolean(s, default=False):
    if s is None:
        return default
    return s.strip() == "True"


def string(s, default=""):
    if s is None:
        return default
    s = s.strip()
    if s.startswith('"') and s.endswith('"'):
        s = s[1:-1]
    s = s.replace('""', '"')
    return re.sub(r"\\u\{([0-9a-fA-F]+)\}", lambda m: chr(int(m.group(1), 16)), s)


def get(model, name, kind, default=None):
    v = model.get(name)
    return {"real": real, "int": lambda s, d=0: int(num(s, d)), "str": string, "bool": boolean}[kind](v, *( [default] if default is not None else []))
