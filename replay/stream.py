"""replay adapter for C39: drive a real LiveDispatcher subclass through a run (two streams, optionally a misbehaving
environment) and evaluate the statement's clauses on the documents its first subscriber received:
  * events of each stream are numbered 1..N in the order they were handed over,
  * every event references a descriptor (of this run) handed over before it,
  * exactly one RunStop, last, whose num_events is {stream: N} for the streams with events.
The scenario is chosen by the obligation's info (same pre-state / environment as the contract's task):
  steps        kb events in 'b', ka in 'a', then the step (new / known / re-described / other id_args), two more events, stop
  fault        as steps, but on the step one document is rejected by the schema / makes the second subscriber raise / makes
               the second subscriber feed another event back
  stop         a transforming subclass that drops raw events (all of them when the counter-model has no events): the raw
               RunStop carries the RAW run's num_events
  passthrough  the base class' own event()
"""
from bluesky.callbacks.stream import LiveDispatcher
from .common import get

NUM = {"dtype": "number", "shape": [], "source": "dev"}
STREAM_OF_KEY = {"x": "a", "y": "b"}


class Routed(LiveDispatcher):
    """a transforming dispatcher: `plan[uid]` says what becomes of the raw event (None: dropped)"""

    def __init__(self):
        super().__init__()
        self.plan = {}

    def event(self, doc, **kwargs):
        p = self.plan.get(doc["uid"])
        if p is None:
            return
        new = dict(doc)          # like the contract's harness: the document still has the raw uid / seq_num / time / timestamps
        new.update(p.get("extra", {}))
        self.process_event(new, **p["kw"])


def oracle(docs, stream_of):
    """-> list of violated clauses over the documents one subscriber received"""
    bad = []
    starts = [d for n, d in docs if n == "start"]
    stops = [d for n, d in docs if n == "stop"]
    if len(starts) != 1 or not docs or docs[0][0] != "start":
        return [f"not exactly one leading RunStart: {[n for n, d in docs]}"]
    suid = starts[0]["uid"]
    seen_desc = set()
    per_stream = {}
    for n, d in docs:
        if n == "descriptor":
            if d.get("run_start") != suid:
                bad.append("descriptor of another run")
            seen_desc.add(d["uid"])
        elif n == "event":
            s = stream_of(d)
            per_stream.setdefault(s, []).append(d.get("seq_num"))
            if d.get("descriptor") not in seen_desc:
                bad.append(f"event {s}#{len(per_stream[s])} references a descriptor that was never handed over")
    for s, v in per_stream.items():
        if v != list(range(1, len(v) + 1)):
            bad.append(f"stream {s} numbered {v}")
    if len(stops) != 1 or docs[-1][0] != "stop":
        bad.append(f"not exactly one closing RunStop: {[n for n, d in docs]}")
    else:
        want = {s: len(v) for s, v in per_stream.items()}
        ne = stops[0].get("num_events")
        same = isinstance(ne, dict) and all(ne.get(s, 0) == want.get(s, 0) for s in set(ne) | set(want))   # not listed: 0 events
        if not same or stops[0].get("run_start") != suid:
            bad.append(f"stop.num_events={stops[0].get('num_events')} but events handed over per stream={want}")
    return bad


class Second:
    """the dispatcher's second subscriber (the first one, the collector, has already received the document)"""

    def __init__(self, ld):
        self.ld, self.mode, self.on = ld, None, None

    def __call__(self, name, doc):
        if self.mode and name == self.on:
            mode, self.mode = self.mode, None
            if mode == "subscriber":
                raise RuntimeError("a subscriber failed")
            if mode == "reenter":
                self.ld.process_event({"uid": "fed-back", "data": {"x": 5.0}, "timestamps": {"x": 0.0}, "descriptor": "raw1",
                                       "seq_num": 99, "time": 0.0, "filled": {}}, stream_name="a")


def exit_status(model, name):
    """the raw RunStop's exit status as in the counter-model (any of the three legal values)"""
    v = get(model, name, "str", "success")
    return v if v in ("success", "abort", "fail") else "success"


def _raw_descriptors(ld):
    ld.descriptor({"uid": "raw1", "data_keys": {"x": dict(NUM), "w": dict(NUM)}, "name": "primary",
                   "run_start": "raw-start", "time": 0.0, "configuration": {}, "hints": {}, "object_keys": {}})
    ld.descriptor({"uid": "raw2", "data_keys": {"y": dict(NUM)}, "name": "primary",
                   "run_start": "raw-start", "time": 0.0, "configuration": {}, "hints": {}, "object_keys": {}})


def live_dispatcher(model, info, art):
    scenario = info.get("scenario", "steps")
    known = info.get("known", True)
    ka = min(max(get(model, "count_a", "int", 1), 0), 20)
    kb = min(max(get(model, "count_b", "int", 1), 0), 20)
    if scenario == "passthrough":
        return passthrough()
    ka = 0 if not known else max(ka, 1)
    if "has_b" in info:
        kb = max(kb, 1) if info["has_b"] else 0
    ld = Routed()
    out = []
    ld.subscribe(lambda n, d: out.append((n, d)))
    second = Second(ld)
    ld.subscribe(second)
    ld.start({"uid": "raw-start", "time": 0.0})
    _raw_descriptors(ld)
    seq = [0]
    raw_counts = {}
    errors = []

    def feed(stream, keys, plan):
        seq[0] += 1
        uid = f"e{seq[0]}"
        raw = "raw1" if stream == "a" else "raw2"
        raw_counts["primary"] = raw_counts.get("primary", 0) + 1
        data = dict.fromkeys(keys, 1.0)
        ld.plan[uid] = plan
        try:
            ld.event({"uid": uid, "descriptor": raw, "data": data, "timestamps": dict.fromkeys(keys, 0.0), "seq_num": seq[0] + 100,
                      "time": 0.0, "filled": {}})
        except Exception as e:        # what the RunEngine does with RE.ignore_callback_exceptions = True: log and go on
            errors.append(f"{type(e).__name__}")

    pre_kw = {"stream_name": "a"}
    step_kw = {"stream_name": "a"}
    pre_keys = ("x",)
    if known == "other":
        pre_keys = ("x", "w")
    if known == "other-id":
        pre_kw["id_args"] = ("cfg1",)
        step_kw.update(id_args=("cfg2",), config={"det": {"data": {}, "timestamps": {}, "data_keys": {}}})
    for _ in range(kb):
        feed("b", ("y",), {"kw": {"stream_name": "b"}})
    for _ in range(ka):
        feed("a", pre_keys, {"kw": dict(pre_kw)})
    what = f"{kb} events in stream b, {ka} in stream a"
    if scenario == "stop":
        for _ in range(3):
            feed("a", ("x",), None)                     # raw events the transforming subclass does not re-emit
        what += ", 3 raw events dropped"
    else:
        step = {"kw": dict(step_kw)}
        if scenario == "fault":
            kind, on = info["kind"], info["on"]
            if kind == "validator" and on == "event":
                step["extra"] = {"bogus": 1}              # additional properties are not allowed in an Event
            elif kind == "validator":
                step["kw"]["config"] = "not-a-mapping"    # EventDescriptor.configuration must be an object
            else:
                second.mode, second.on = kind, on
            what += f", then an event on which {('the schema rejects the ' + on) if kind == 'validator' else ('the 2nd subscriber does: ' + kind + ' on the ' + on)}"
        feed("a", ("x",), step)
        second.mode = None
        feed("a", ("x",), {"kw": dict(step_kw)})
        feed("b", ("y",), {"kw": {"stream_name": "b"}})
        what += ", then one event in a and one in b"
    raw_ne = dict(raw_counts)
    ld.stop({"uid": "stop", "run_start": "raw-start", "exit_status": exit_status(model, "exit_status"), "time": 0.0, "reason": "",
             "num_events": dict(raw_ne)})
    stream_of = lambda d: STREAM_OF_KEY[[k for k in d["data"] if k in STREAM_OF_KEY][0]]  # noqa: E731
    n_first = len(out)
    # the next run through the same dispatcher starts from zero (state reset clause)
    ld.start({"uid": "raw-start-2", "time": 0.0})
    _raw_descriptors(ld)
    feed("a", ("x",), {"kw": {"stream_name": "a"}})
    ld.stop({"uid": "stop2", "run_start": "raw-start-2", "exit_status": exit_status(model, "exit_status_2"), "time": 0.0, "reason": "",
             "num_events": {"primary": 1}})
    second_run, out = out[n_first:], out[:n_first]
    bad = oracle(out, stream_of) + ["next run: " + b for b in oracle(second_run, stream_of)]
    per = {}
    for n, d in out:
        if n == "event":
            per.setdefault("a" if "x" in d["data"] else "b", []).append(d.get("seq_num"))
    stop = [d for n, d in out if n == "stop"]
    detail = (f"{what} (exceptions seen by the caller: {errors}): seq_nums per stream {per}, "
              f"stop.num_events={stop[0].get('num_events') if stop else None}, raw num_events={raw_ne}; violated: {bad or 'nothing'}")
    return ("confirmed" if bad else "contradicted"), detail


def passthrough():
    ld = LiveDispatcher()
    out = []
    ld.subscribe(lambda n, d: out.append((n, d)))
    ld.start({"uid": "raw-start", "time": 0.0})
    _raw_descriptors(ld)
    for i in (1, 2):
        ld.event({"uid": f"e{i}", "descriptor": "raw1", "data": {"x": 1.0}, "timestamps": {"x": 0.0}, "seq_num": i + 4, "time": 0.0, "filled": {}})
    ld.stop({"uid": "stop", "run_start": "raw-start", "exit_status": "success", "time": 0.0, "reason": "", "num_events": {"primary": 2, "baseline": 2}})
    bad = oracle(out, lambda d: "primary")
    return ("confirmed" if bad else "contradicted"), f"two raw events through LiveDispatcher.event: {[(n, d.get('seq_num'), d.get('num_events')) for n, d in out]}; violated: {bad or 'nothing'}"
