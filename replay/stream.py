"""replay adapter for C39: drive a real LiveDispatcher with two streams and check numbering / num_events"""
from bluesky.callbacks.stream import LiveDispatcher
from .common import get


class TwoStreams(LiveDispatcher):
    def event(self, doc, **kwargs):
        self.process_event(doc, stream_name={"raw1": "a", "raw2": "b"}[doc["descriptor"]])


def live_dispatcher(model, info, art):
    ka = max(get(model, "count_a", "int", 1), 0)
    kb = max(get(model, "count_b", "int", 1), 0)
    ka, kb = min(ka, 50), min(kb, 50)
    ld = TwoStreams()
    out = []
    ld.subscribe(lambda n, d: out.append((n, d)))
    import time
    ld.start({"uid": "raw-start", "time": time.time()})
    ld.descriptor({"uid": "raw1", "data_keys": {"x": {"dtype": "number", "shape": [], "source": "dev"},
                                                 "w": {"dtype": "number", "shape": [], "source": "dev"}}, "name": "primary",
                   "run_start": "raw-start", "time": 0.0, "configuration": {}, "hints": {}, "object_keys": {}})
    ld.descriptor({"uid": "raw2", "data_keys": {"y": {"dtype": "number", "shape": [], "source": "dev"}}, "name": "primary",
                   "run_start": "raw-start", "time": 0.0, "configuration": {}, "hints": {}, "object_keys": {}})
    seq = 0
    order = ["b"] * kb + ["a"] * (ka + 1)
    for j, s in enumerate(order):
        seq += 1
        key, raw = ("x", "raw1") if s == "a" else ("y", "raw2")
        data = {key: 1.0}
        if s == "a" and j < len(order) - 1:
            data["w"] = 2.0          # the last event of stream a has other data keys: the stream is re-described
        ld.event({"uid": f"e{seq}", "descriptor": raw, "data": data, "timestamps": dict.fromkeys(data, 0.0), "seq_num": seq,
                  "time": 0.0, "filled": {}})
    ld.stop({"uid": "stop", "run_start": "raw-start", "exit_status": "success", "time": 0.0, "reason": ""})
    descs = {d["uid"]: d for n, d in out if n == "descriptor"}
    per_stream = {}
    for n, d in out:
        if n == "event":
            stream = "a" if "x" in d["data"] else "b"
            per_stream.setdefault(stream, []).append(d["seq_num"])
    stop = [d for n, d in out if n == "stop"][0]
    numbering_ok = all(v == list(range(1, len(v) + 1)) for v in per_stream.values())
    num_ok = stop["num_events"] == {k: len(v) for k, v in per_stream.items()}
    detail = f"{kb} events in stream b then {ka + 1} in stream a: seq_nums per stream {list(per_stream.values())}, stop.num_events={stop['num_events']}"
    return ("contradicted" if numbering_ok and num_ok else "confirmed"), detail
