"""native replay for C42: recording fake tracer, interleaved run keys, rejected open, engine-closed run"""
import bluesky.run_engine as rem
from bluesky import RunEngine
from bluesky.utils import Msg, IllegalMessageSequence


class FakeSpan:
    def __init__(self, name):
        self.name, self.attrs, self.ended = name, {}, 0

    def set_attribute(self, k, v):
        self.attrs[k] = v

    def end(self):
        self.ended += 1

    def is_recording(self):
        return True


class FakeTracer:
    def __init__(self):
        self.spans = []

    def start_span(self, name, *a, **k):
        s = FakeSpan(name)
        self.spans.append(s)
        return s

    def start_as_current_span(self, *a, **k):
        def deco(f):
            return f
        return deco


def spans(model, info, art):
    problems = []
    orig = rem.tracer
    fake = FakeTracer()
    rem.tracer = fake
    try:
        RE = RunEngine(context_managers=[])
        # 1. interleaved runs: open A, open B, close A (fail), close B (success)

        def interleaved():
            yield Msg("open_run", run="A")
            yield Msg("open_run", run="B")
            yield Msg("close_run", exit_status="fail", reason="a failed", run="A")
            yield Msg("close_run", exit_status="success", run="B")
        RE(interleaved())
        run_spans = [s for s in fake.spans if s.name.endswith(" run")]
        if len(run_spans) == 2:
            a, b = run_spans
            if a.attrs.get("exit_status") != "fail" or b.attrs.get("exit_status") != "success":
                problems.append(f"interleaved runs: span A got {a.attrs.get('exit_status')}, span B got {b.attrs.get('exit_status')} (A failed, B succeeded)")
            if a.ended != 1 or b.ended != 1:
                problems.append(f"interleaved runs: end counts {a.ended}, {b.ended}")
        else:
            problems.append(f"expected 2 run spans, got {len(run_spans)}")
        # 2. rejected duplicate open must not leave an un-ended span
        fake.spans.clear()

        def duplicate():
            yield Msg("open_run", run="A")
            try:
                yield Msg("open_run", run="A")
            except IllegalMessageSequence:
                pass
            yield Msg("close_run", run="A")
        RE(duplicate())
        run_spans = [s for s in fake.spans if s.name.endswith(" run")]
        if any(s.ended != 1 for s in run_spans):
            problems.append(f"rejected duplicate open: span end counts {[s.ended for s in run_spans]}")
        # 3. run closed by the engine (plan fails)
        fake.spans.clear()

        def failing():
            yield Msg("open_run")
            yield Msg("open_run", run="K")
            raise RuntimeError("boom")
        try:
            RE(failing())
        except RuntimeError:
            pass
        run_spans = [s for s in fake.spans if s.name.endswith(" run")]
        if [s.ended for s in run_spans] != [1, 1] or [s.attrs.get("exit_status") for s in run_spans] != ["fail", "fail"]:
            problems.append(f"engine-closed run: end counts {[s.ended for s in run_spans]}, status {[s.attrs.get('exit_status') for s in run_spans]}")
        # 4. a close_run the bundler rejects must not end the span early: the run is still open and is closed (as failed)
        #    by the engine afterwards
        fake.spans.clear()
        import bluesky.bundlers as bb
        orig_close = bb.RunBundler.close_run
        state = {"first": True}

        async def flaky_close(self, msg):
            if state["first"]:
                state["first"] = False
                raise RuntimeError("bundler refused to close")
            return await orig_close(self, msg)
        bb.RunBundler.close_run = flaky_close
        try:
            def rejected_close():
                yield Msg("open_run")
                yield Msg("close_run", exit_status="success")
            try:
                RE(rejected_close())
            except RuntimeError:
                pass
        finally:
            bb.RunBundler.close_run = orig_close
        run_spans = [s for s in fake.spans if s.name.endswith(" run")]
        if [s.ended for s in run_spans] != [1] or run_spans[0].attrs.get("exit_status") != "fail":
            problems.append(f"rejected close_run: span ended {[s.ended for s in run_spans]} times with status {[s.attrs.get('exit_status') for s in run_spans]} (the run ended as 'fail')")
        left = getattr(RE, "_run_tracing_spans")
        if len(left):
            problems.append(f"{len(left)} span(s) left registered after the call")
    finally:
        rem.tracer = orig
    return ("confirmed" if problems else "contradicted"), "; ".join(problems) or "all spans ended once with their own run's outcome"


# ------------------------------------------------------------------------------------------------ the T2 obligations (whole call)
def call_replay(model, info, art):
    """the counter-example's decision list (plan choices, which close_run fails, schedule, requests) re-played on the real RunEngine by the
    stepping harness of replay/lifecycle.py, with the recording tracer and with RunBundler.close_run failing where the model's bundler did;
    the clauses of contracts/C42.py (C42Mon) are then evaluated on what the real engine did with its spans"""
    import bluesky.bundlers as bb
    from . import lifecycle as lc
    lc.MESSAGES.setdefault("close_run_fail", lambda: Msg("close_run", exit_status="fail", reason="gave up"))
    lc.MESSAGES.setdefault("close_run_b_abort", lambda: Msg("close_run", run="b", exit_status="abort", reason="not needed"))
    fake = FakeTracer()
    rem.tracer = fake
    runs = []          # one record per RunBundler the engine created: {bundler, spans, stop, attempt}
    opens = []         # one record per open_run message: (accepted run record | None, spans started while it was processed)
    orig_open, orig_close, orig_bopen, orig_on_msg = rem.RunEngine._open_run, bb.RunBundler.close_run, bb.RunBundler.open_run, lc.Controller.on_msg
    open_may_fail = any(lab == "open_run outcome" for lab, _ in (art.get("decisions") or []))
    early = []

    def on_msg(ctl, msg):
        # (RE.msg_hook: the plan has just yielded `msg`)
        for i, r in enumerate(runs):
            if r["bundler"].run_is_open and any(s.ended for s in r["spans"]):
                early.append(f"run #{i + 1} is still open when the plan yields {msg.command!r}, its span was already ended "
                             f"({[(s.ended, s.attrs.get('exit_status')) for s in r['spans']]})")
        return orig_on_msg(ctl, msg)

    async def bundler_open(self, msg):
        d = lc._CTL["ctl"].next_decision(["open_run outcome"]) if open_may_fail else None
        c = d[1] if d is not None else "ok"
        if c.startswith("before"):
            raise RuntimeError("the start document was not delivered")
        ret = await orig_bopen(self, msg)
        if c.startswith("after"):
            raise RuntimeError("the start document was not delivered")
        return ret

    def rec_of(b):
        for r in runs:
            if r["bundler"] is b:
                return r
        r = {"bundler": b, "spans": [], "stop": None, "attempt": None}
        runs.append(r)
        return r

    async def open_run(self, msg):
        n0 = len(fake.spans)
        before = list(self._run_bundlers.values())
        try:
            return await orig_open(self, msg)
        finally:
            new_b = [b for b in self._run_bundlers.values() if not any(b is x for x in before)]
            new_sp = [s for s in fake.spans[n0:] if s.name.endswith(" run")]
            r = None
            if new_b:
                r = rec_of(new_b[0])
                r["spans"] = new_sp
            # (the clause about a rejected open_run is evaluated the moment the rejection is handed back, as in the model)
            opens.append((r, new_sp, sum(1 for s in new_sp if s.ended < 1)))

    async def close_run(self, msg):
        status = msg.kwargs.get("exit_status", "success") or "success"
        r = rec_of(self)
        if self.run_is_open:
            d = lc._CTL["ctl"].next_decision(["close_run outcome"])
            r["attempt"] = status
            if d is not None and d[1] == "raise":
                raise RuntimeError("the stop document was not delivered")
        ret = await orig_close(self, msg)
        r["attempt"] = r["stop"] = status
        return ret
    rem.RunEngine._open_run = open_run
    bb.RunBundler.close_run, bb.RunBundler.open_run = close_run, bundler_open
    lc.Controller.on_msg = on_msg
    try:
        res = lc.run_native(art.get("decisions") or [], (info.get("scenario") or {}).get("msgs") or list(lc.MESSAGES))
        RE = lc._CTL["ctl"].RE
        left = len(RE._run_tracing_spans)
    finally:
        rem.RunEngine._open_run, bb.RunBundler.close_run, bb.RunBundler.open_run = orig_open, orig_close, orig_bopen
        lc.Controller.on_msg = orig_on_msg
    tag = art.get("obligation", "").split("#", 1)[-1]
    idle = bool(res["calls"]) and res["calls"][-1]["state"] == "idle"
    bad = []
    if tag.startswith("ensures[every run opened during the call got exactly one span"):
        for r, sps, unended in opens:
            if r is not None and len(sps) != 1:
                bad.append(f"an accepted open_run started {len(sps)} spans")
            if r is None and unended:
                bad.append(f"a rejected open_run left {unended} span(s) un-ended")
    elif tag.startswith("ensures[once the engine is idle every opened run's span"):
        if idle:
            for i, r in enumerate(runs):
                want = r["stop"] if r["stop"] is not None else r["attempt"]
                for s in r["spans"]:
                    if s.ended != 1:
                        bad.append(f"run #{i + 1}: span ended {s.ended} times")
                    elif want is not None and s.attrs.get("exit_status") != want:
                        bad.append(f"run #{i + 1}: span carries exit_status {s.attrs.get('exit_status')!r}, the run ended as {want!r}")
    elif tag.startswith("ensures[once the engine is idle no span is left registered"):
        if idle:
            if left:
                bad.append(f"{left} span(s) left on RE._run_tracing_spans")
            for r, sps, _ in opens:
                if r is None and any(s.ended < 1 for s in sps):
                    bad.append("a span started by a rejected open_run was never ended")
    elif tag.startswith("ensures[whenever the plan yields a message the span of every run that is still open"):
        bad.extend(early[:3])
    else:
        return "not-constructible", f"no native oracle for {tag!r}"
    summary = "; ".join(f"{c['call']} -> {c['outcome']}{'(' + type(c['exc']).__name__ + ')' if c['exc'] is not None else ''} state={c['state']}" for c in res["calls"])
    spans = [(s.ended, s.attrs.get("exit_status")) for s in fake.spans if s.name.endswith(" run")]
    if bad:
        return "confirmed", "; ".join(bad) + f"  [native run: {summary}; run spans (ended, exit_status): {spans}; diverged: {res['diverged']}]"
    if res["diverged"]:
        return "not-constructible", f"native run diverged from the model's schedule ({res['diverged']}) and did not violate the obligation: {summary}"
    return "contradicted", f"native run followed the schedule and satisfied the obligation: {summary}; run spans (ended, exit_status): {spans}"
