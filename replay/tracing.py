"""native replay for C42: recording fake tracer, interleaved run keys, rejected open, engine-closed run"""
import bluesky.run_engine as rem
from bluesky import RunEngine
from bluesky.utils import Msg, IllegalMessageSequence


class FakeSpan:
    def __init__(self, name):
        self.name, self.attrs, self.ended = name, {}, 0

    def set_attribute(self, k, v):
        self.attrs[k] = v

    def end(self):
        self.ended += 1

    def is_recording(self):
        return True


class FakeTracer:
    def __init__(self):
        self.spans = []

    def start_span(self, name, *a, **k):
        s = FakeSpan(name)
        self.spans.append(s)
        return s

    def start_as_current_span(self, *a, **k):
        def deco(f):
            return f
        return deco


def spans(model, info, art):
    problems = []
    orig = rem.tracer
    fake = FakeTracer()
    rem.tracer = fake
    try:
        RE = RunEngine(context_managers=[])
        # 1. interleaved runs: open A, open B, close A (fail), close B (success)

        def interleaved():
            yield Msg("open_run", run="A")
            yield Msg("open_run", run="B")
            yield Msg("close_run", exit_status="fail", reason="a failed", run="A")
            yield Msg("close_run", exit_status="success", run="B")
        RE(interleaved())
        run_spans = [s for s in fake.spans if s.name.endswith(" run")]
        if len(run_spans) == 2:
            a, b = run_spans
            if a.attrs.get("exit_status") != "fail" or b.attrs.get("exit_status") != "success":
                problems.append(f"interleaved runs: span A got {a.attrs.get('exit_status')}, span B got {b.attrs.get('exit_status')} (A failed, B succeeded)")
            if a.ended != 1 or b.ended != 1:
                problems.append(f"interleaved runs: end counts {a.ended}, {b.ended}")
        else:
            problems.append(f"expected 2 run spans, got {len(run_spans)}")
        # 2. rejected duplicate open must not leave an un-ended span
        fake.spans.clear()

        def duplicate():
            yield Msg("open_run", run="A")
            try:
                yield Msg("open_run", run="A")
            except IllegalMessageSequence:
                pass
            yield Msg("close_run", run="A")
        RE(duplicate())
        run_spans = [s for s in fake.spans if s.name.endswith(" run")]
        if any(s.ended != 1 for s in run_spans):
            problems.append(f"rejected duplicate open: span end counts {[s.ended for s in run_spans]}")
        # 3. run closed by the engine (plan fails)
        fake.spans.clear()

        def failing():
            yield Msg("open_run")
            yield Msg("open_run", run="K")
            raise RuntimeError("boom")
        try:
            RE(failing())
        except RuntimeError:
            pass
        run_spans = [s for s in fake.spans if s.name.endswith(" run")]
        if [s.ended for s in run_spans] != [1, 1] or [s.attrs.get("exit_status") for s in run_spans] != ["fail", "fail"]:
            problems.append(f"engine-closed run: end counts {[s.ended for s in run_spans]}, status {[s.attrs.get('exit_status') for s in run_spans]}")
        # 4. a close_run the bundler rejects must not end the span early: the run is still open and is closed (as failed)
        #    by the engine afterwards
        fake.spans.clear()
        import bluesky.bundlers as bb
        orig_close = bb.RunBundler.close_run
        state = {"first": True}

        async def flaky_close(self, msg):
            if state["first"]:
                state["first"] = False
                raise RuntimeError("bundler refused to close")
            return await orig_close(self, msg)
        bb.RunBundler.close_run = flaky_close
        try:
            def rejected_close():
                yield Msg("open_run")
                yield Msg("close_run", exit_status="success")
            try:
                RE(rejected_close())
            except RuntimeError:
                pass
        finally:
            bb.RunBundler.close_run = orig_close
        run_spans = [s for s in fake.spans if s.name.endswith(" run")]
        if [s.ended for s in run_spans] != [1] or run_spans[0].attrs.get("exit_status") != "fail":
            problems.append(f"rejected close_run: span ended {[s.ended for s in run_spans]} times with status {[s.attrs.get('exit_status') for s in run_spans]} (the run ended as 'fail')")
        left = getattr(RE, "_run_tracing_spans")
        if len(left):
            problems.append(f"{len(left)} span(s) left registered after the call")
    finally:
        rem.tracer = orig
    return ("confirmed" if problems else "contradicted"), "; ".join(problems) or "all spans ended once with their own run's outcome"
