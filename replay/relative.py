"""replay adapters for C24: coupled (pseudo-positioner) families in reset_positions_wrapper, end to end on the real wrapper"""
from bluesky import preprocessors as bpp
from bluesky.utils import Msg


class _Axis:
    def __init__(self, name, parent, i):
        self.name, self.parent, self._i = name, parent, i

    @property
    def position(self):
        return self.parent._pos[self._i]


class _Pseudo:
    """duck-typed pseudo-positioner: RealPosition marks it as one for merge_axis; set() on an axis moves it"""
    RealPosition = tuple
    parent = None
    name = "pp"

    def __init__(self, n):
        self._pos = [float(10 * (i + 1)) for i in range(n)]
        self.pseudo_positioners = tuple(_Axis(f"ax{i}", self, i) for i in range(n))
        self.real_positioners = ()

    @property
    def position(self):
        return tuple(self._pos)


def stash_family(model, info, art):
    n, who = info["axes"], info["who"]
    pp = _Pseudo(n)
    initial = pp.position
    axes = pp.pseudo_positioners
    first = pp if who == "parent" else axes[int(who[2:])]
    others = [a for a in axes if a is not first]

    def plan():
        # two members of one family are set one after the other; the device moves in between
        if first is pp:
            yield Msg("set", pp, *[p + 1 for p in initial])
            pp._pos = [p + 1 for p in initial]
        else:
            yield Msg("set", first, first.position + 1)
            pp._pos[first._i] += 1
        o = others[0]
        yield Msg("set", o, o.position + 2)
        pp._pos[o._i] += 2
    msgs = list(bpp.reset_positions_wrapper(plan(), devices=[axes[0]] if first is not pp else [pp]))
    resets = [m for m in msgs if m.command == "set" and str(m.kwargs.get("group", "")).startswith("reset-")]
    back = [m for m in resets if m.obj is pp]
    ok = len(back) == 1 and tuple(back[0].args[0] if len(back[0].args) == 1 and isinstance(back[0].args[0], tuple) else back[0].args) == initial
    detail = (f"{n} pseudo axes initially at {initial}; set {getattr(first, 'name', 'pp')} then {others[0].name}; clean-up commands "
              f"{[(m.obj.name, m.args) for m in resets]}")
    return ("contradicted" if ok else "confirmed"), detail
