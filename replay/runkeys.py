"""native replay for C14: two interleaved runs with run keys on a real RunEngine; every document must belong to its own run"""
from bluesky import RunEngine
from bluesky.utils import Msg, IllegalMessageSequence


class Det:
    parent = None
    hints = {"fields": []}

    def __init__(self, name):
        self.name = name

    def read(self):
        return {self.name: {"value": 1.0, "timestamp": 0.0}}

    def describe(self):
        return {self.name: {"dtype": "number", "shape": [], "source": "x"}}

    def read_configuration(self):
        return {}

    def describe_configuration(self):
        return {}

    def trigger(self):
        from bluesky.protocols import Status

        class Done:
            done = True
            success = True

            def add_callback(self, cb):
                cb(self)

            def exception(self, timeout=None):
                return None
        return Done()


def independent(model, info, art):
    problems = []
    RE = RunEngine(context_managers=[])
    docs = []
    RE.subscribe(lambda n, d: docs.append((n, d)))
    a, b = Det("a"), Det("b")

    def plan():
        ua = yield Msg("open_run", run="A")
        ub = yield Msg("open_run", run="B")
        try:
            yield Msg("open_run", run="A")
            problems.append("second open of key A accepted")
        except IllegalMessageSequence:
            pass
        for det, key in ((a, "A"), (b, "B"), (a, "A")):
            yield Msg("create", name="primary", run=key)
            yield Msg("read", det, run=key)
            yield Msg("save", run=key)
        yield Msg("close_run", run="B")
        yield Msg("create", name="primary", run="A")
        yield Msg("read", a, run="A")
        yield Msg("save", run="A")
        yield Msg("close_run", run="A")
        return ua, ub
    RE(plan())
    starts = [d["uid"] for n, d in docs if n == "start"]
    by_run = {u: [] for u in starts}
    desc_run = {}
    for n, d in docs:
        if n == "descriptor":
            desc_run[d["uid"]] = d["run_start"]
            by_run[d["run_start"]].append(n)
        elif n == "event":
            by_run[desc_run[d["descriptor"]]].append((n, d["seq_num"], list(d["data"])))
        elif n == "stop":
            by_run[d["run_start"]].append((n, d["num_events"]))
    if len(starts) != 2:
        problems.append(f"{len(starts)} start documents")
    else:
        ra, rb = by_run[starts[0]], by_run[starts[1]]
        if [x for x in ra if x[0] == "event"] != [("event", 1, ["a"]), ("event", 2, ["a"]), ("event", 3, ["a"])] or ra[-1] != ("stop", {"primary": 3}):
            problems.append(f"run A documents {ra}")
        if [x for x in rb if x[0] == "event"] != [("event", 1, ["b"])] or rb[-1] != ("stop", {"primary": 1}):
            problems.append(f"run B documents {rb}")
    return ("confirmed" if problems else "contradicted"), "; ".join(problems) or "both runs complete and independent"
