"""native replays for C14 on a real RunEngine: concurrent runs with run keys (documents grouped by run_start; routing of messages;
set_run_key_wrapper on keys of every kind; numbering of interleaved runs across a pause / resume)"""
from bluesky import RunEngine
from bluesky.utils import Msg, IllegalMessageSequence, RunEngineInterrupted

from .common import get


class Done:
    done = True
    success = True

    def add_callback(self, cb):
        cb(self)

    def exception(self, timeout=None):
        return None


class Det:
    parent = None

    def __init__(self, name):
        self.name = name
        self.hints = {"fields": [name]}
        self.subs = []
        self.n = 0

    def read(self):
        self.n += 1
        return {self.name: {"value": float(self.n), "timestamp": 0.0}}

    def describe(self):
        return {self.name: {"dtype": "number", "shape": [], "source": "x"}}

    def read_configuration(self):
        return {}

    def describe_configuration(self):
        return {}

    def configure(self, *a, **k):
        return {}, {}

    def trigger(self):
        return Done()

    def kickoff(self):
        return Done()

    def complete(self):
        return Done()

    def collect(self):
        return iter(())

    def describe_collect(self):
        return {}

    def subscribe(self, cb, **kw):
        self.subs.append(cb)

    def clear_sub(self, cb):
        if cb in self.subs:
            self.subs.remove(cb)


def independent(model, info, art):
    problems = []
    RE = RunEngine(context_managers=[])
    docs = []
    RE.subscribe(lambda n, d: docs.append((n, d)))
    a, b = Det("a"), Det("b")

    def plan():
        ua = yield Msg("open_run", run="A")
        ub = yield Msg("open_run", run="B")
        try:
            yield Msg("open_run", run="A")
            problems.append("second open of key A accepted")
        except IllegalMessageSequence:
            pass
        for det, key in ((a, "A"), (b, "B"), (a, "A")):
            yield Msg("create", name="primary", run=key)
            yield Msg("read", det, run=key)
            yield Msg("save", run=key)
        yield Msg("close_run", run="B")
        yield Msg("create", name="primary", run="A")
        yield Msg("read", a, run="A")
        yield Msg("save", run="A")
        yield Msg("close_run", run="A")
        return ua, ub
    RE(plan())
    starts = [d["uid"] for n, d in docs if n == "start"]
    by_run = {u: [] for u in starts}
    desc_run = {}
    for n, d in docs:
        if n == "descriptor":
            desc_run[d["uid"]] = d["run_start"]
            by_run[d["run_start"]].append(n)
        elif n == "event":
            by_run[desc_run[d["descriptor"]]].append((n, d["seq_num"], list(d["data"])))
        elif n == "stop":
            by_run[d["run_start"]].append((n, d["num_events"]))
    if len(starts) != 2:
        problems.append(f"{len(starts)} start documents")
    else:
        ra, rb = by_run[starts[0]], by_run[starts[1]]
        if [x for x in ra if x[0] == "event"] != [("event", 1, ["a"]), ("event", 2, ["a"]), ("event", 3, ["a"])] or ra[-1] != ("stop", {"primary": 3}):
            problems.append(f"run A documents {ra}")
        if [x for x in rb if x[0] == "event"] != [("event", 1, ["b"])] or rb[-1] != ("stop", {"primary": 1}):
            problems.append(f"run B documents {rb}")
    return ("confirmed" if problems else "contradicted"), "; ".join(problems) or "both runs complete and independent"


# ------------------------------------------------------------------------------------------------ F: routing of one message
KEYS = {"default": None, "a": "a", "zero": 0, "empty": "", "zz": "zz"}
OPEN = ["default", "a", "zero"]
METHOD = {"_create": "create", "_declare_stream": "declare_stream", "_save": "save", "_drop": "drop", "_monitor": "monitor", "_unmonitor": "unmonitor",
          "_kickoff": "kickoff", "_collect": "collect", "_read": "read", "_configure": "configure", "_close_run": "close_run"}


def frame(model, info, art):
    """one message with the given run key while runs None / 'a' / 0 are open: which bundler sees it (spies on the real bundlers)"""
    h, label = info["handler"], info["key"]
    key = KEYS[label]
    RE = RunEngine(context_managers=[])
    docs = []
    RE.subscribe(lambda n, d: docs.append((n, d)))
    det = Det("det")
    seen, out = [], {}

    if h == "_open_run":
        opened = OPEN if info.get("open") == "all" else [info["open"]]

        def plan():
            for k in opened:
                yield Msg("open_run", run=KEYS[k])
            out["bundlers"] = dict(RE._run_bundlers)
            out["ndocs"] = len(docs)
            try:
                out["ret"] = yield Msg("open_run", run=key)
            except IllegalMessageSequence as e:
                out["exc"] = e
            out["after"] = dict(RE._run_bundlers)
            out["docs"] = list(docs[out["ndocs"]:])
            for k in list(RE._run_bundlers):
                yield Msg("close_run", run=k)
        RE(plan())
        same = all(k in out["after"] and out["after"][k] is v for k, v in out["bundlers"].items())
        if label in opened:
            bad = "exc" not in out or out["docs"] or not same or len(out["after"]) != len(out["bundlers"])
            return ("confirmed" if bad else "contradicted"), f"duplicate open_run(run={key!r}): raised={out.get('exc')!r}, documents emitted={[n for n, d in out['docs']]}, open runs kept={same}"
        starts = [d for n, d in out["docs"] if n == "start"]
        bad = "exc" in out or not same or len(out["after"]) != len(out["bundlers"]) + 1 or key not in out["after"] or len(starts) != 1 \
            or out["after"][key]._run_start_uid != starts[0]["uid"] or out["ret"] != starts[0]["uid"]
        return ("confirmed" if bad else "contradicted"), f"open_run(run={key!r}) next to {opened}: raised={out.get('exc')!r}, open afterwards={list(out['after'])}, starts={len(starts)}"

    meth = METHOD[h]

    def spy(name):
        async def f(*a, **k):
            seen.append((name, a[0] if a else None))
            return None
        return f

    def plan():
        for k in OPEN:
            yield Msg("open_run", run=KEYS[k])
        for k in OPEN:
            setattr(RE._run_bundlers[KEYS[k]], meth, spy(k))
        out["before"] = dict(RE._run_bundlers)
        msg = Msg(h[1:], det, run=key) if h in ("_read", "_configure", "_kickoff", "_monitor", "_unmonitor", "_collect") else Msg(h[1:], run=key)
        out["msg"] = msg
        try:
            yield msg
        except IllegalMessageSequence as e:
            out["exc"] = e
        out["after"] = dict(RE._run_bundlers)
        for k in OPEN:
            b = out["before"][KEYS[k]]
            if meth in vars(b):
                delattr(b, meth)
        for k in list(RE._run_bundlers):
            yield Msg("close_run", run=k)
    RE(plan())
    detail = f"{h[1:]}(run={key!r}) with runs {OPEN} open: bundlers that saw it {[k for k, m in seen]}, raised={out.get('exc')!r}"
    if label not in OPEN:
        if h in ("_read", "_configure"):
            bad = bool(seen) or "exc" in out
        else:
            bad = bool(seen) or "exc" not in out
        bad = bad or list(out["after"]) != list(out["before"])
        return ("confirmed" if bad else "contradicted"), detail
    bad = [k for k, m in seen] != [label] or seen[0][1] is not out["msg"] or "exc" in out
    want = [k for k in OPEN if k != label] if h == "_close_run" else OPEN
    bad = bad or [k for k in OPEN if KEYS[k] in out["after"]] != want
    return ("confirmed" if bad else "contradicted"), detail


# ------------------------------------------------------------------------------------------------ K: set_run_key_wrapper
class Key:
    def __init__(self, truth):
        self.truth = truth

    def __bool__(self):
        return self.truth


def _key(model, kind, name):
    if kind == "int":
        return get(model, f"{name}_int", "int", 0)
    if kind == "str":
        return get(model, f"{name}_str", "str", "")
    if kind == "object":
        t = [v for k, v in model.items() if k.startswith(f"truth({name})")]
        return Key(bool(t) and t[0].strip() == "True")
    return {"empty-tuple": (), "false": False}[kind]


def set_run_key(model, info, art):
    from bluesky.preprocessors import set_run_key_wrapper
    own, inner, depth = info["own"], info["inner"], int(info["depth"])
    k_own = None if own == "none" else _key(model, own, "msg_key")
    k_inner = _key(model, inner, "inner_key")
    dev = object()
    msg = Msg("read", dev, 1, k=2, run=k_own)
    got_back = []

    def one():
        got_back.append((yield msg))
        return got_back[-1]
    g = set_run_key_wrapper(one(), k_inner)
    if depth == 2:
        g = set_run_key_wrapper(g, "outer")
    try:
        got = g.send(None)
    except Exception as e:      # noqa: BLE001
        return "confirmed", f"message key {k_own!r}, wrapper key {k_inner!r}, depth {depth}: the wrapped plan raised {e!r} instead of yielding the message"
    want = k_own if own != "none" else k_inner
    same = got.run is want or (type(got.run) is type(want) and not isinstance(want, Key) and got.run == want)
    fields = got.command == "read" and got.obj is dev and got.args == (1,) and got.kwargs == {"k": 2}
    answer = object()
    try:
        g.send(answer)
        returned = None
    except StopIteration as e:
        returned = e.value
    detail = f"message key {k_own!r}, wrapper key {k_inner!r}, depth {depth}: yielded run={got.run!r} (wanted {want!r}); fields kept={fields}; answer reached the plan={returned is answer}"
    clause = art.get("obligation") or ""
    if "answer reaches the plan" in clause:
        return ("contradicted" if returned is answer else "confirmed"), detail
    ok = same and fields and (own == "none" or got is msg)
    return ("contradicted" if ok else "confirmed"), detail


# ------------------------------------------------------------------------------------------------ I: interleaved runs, pause / resume
PAIRS = {"default+str": (None, "b"), "str+zero": ("a", 0), "zero+default": (0, None), "empty+str": ("", "b")}


def interleaved(model, info, art):
    """runs A and B brought to (snap, next) by events around an explicit checkpoint; then the checkpoint under test, the events of
    the shape (a duplicate open_run before the first), a pause, resume, close: the clauses of the obligation on the documents"""
    clause = art.get("obligation") or ""
    M = info.get("checkpoint", "checkpoint")
    ka, kb = PAIRS[info["keys"]]
    shape, dup, cache = list(info.get("shape") or []), bool(info.get("dup")), info.get("cache", "messages")
    n = {"A": get(model, "next_A", "int", 2), "B": get(model, "next_B", "int", 1)}
    s = {"A": get(model, "snap_A", "int", 1), "B": get(model, "snap_B", "int", 1)}
    if max(n.values()) > 3000 or min(s.values()) < 1:
        return "not-constructible", f"counters {n} / {s}"
    key = {"A": ka, "B": kb}
    det = {"A": Det("detA"), "B": Det("detB")}
    sig = Det("sig")
    RE = RunEngine(context_managers=[])
    docs = []
    RE.subscribe(lambda nm, d: docs.append((nm, d)))
    marks, dup_result, state = {}, {}, {}

    def event(R):
        yield Msg("create", name="primary", run=key[R])
        yield Msg("read", det[R], run=key[R])
        yield Msg("save", run=key[R])

    def plan():
        uids = {}
        for R in ("A", "B"):
            uids[R] = yield Msg("open_run", run=key[R])
            yield Msg("declare_stream", None, det[R], name="primary", run=key[R])
        marks["uids"] = uids
        for R in ("A", "B"):
            for _ in range(s[R] - 1):
                yield from event(R)
        if M == "unmonitor_B":
            yield Msg("monitor", sig, name="mon", run=kb)
        yield Msg("checkpoint")
        for R in ("A", "B"):
            for _ in range(n[R] - s[R]):
                yield from event(R)
        if cache == "messages":
            yield Msg("null")
        # ---- the checkpoint under test
        open_now = ["A", "B"]
        if M == "close_run_B":
            yield Msg("close_run", run=kb)
            open_now = ["A"]
        elif M == "monitor_B":
            yield Msg("monitor", sig, name="mon", run=kb)
        elif M == "unmonitor_B":
            yield Msg("unmonitor", sig, run=kb)
        else:
            yield Msg("checkpoint")
        state["ckpt"] = {R: (dict(RE._run_bundlers[key[R]]._sequence_counters), dict(RE._run_bundlers[key[R]]._sequence_counters_copy)) for R in open_now}
        state["cache"] = None if RE._msg_cache is None else len(RE._msg_cache)
        marks["first"] = len(docs)
        todo = [R for R in shape if R in open_now]
        marks["todo"] = todo
        for i, R in enumerate(todo):
            if dup and i == 0:
                before = (len(docs), dict(RE._run_bundlers), list(RE._run_start_uids), dict(RE.md))
                try:
                    yield Msg("open_run", run=key[R])
                    dup_result["raised"] = False
                except IllegalMessageSequence:
                    dup_result["raised"] = True
                now = dict(RE._run_bundlers)
                dup_result["unchanged"] = len(docs) == before[0] and len(now) == len(before[1]) and all(now.get(k) is v for k, v in before[1].items()) \
                    and list(RE._run_start_uids) == before[2] and dict(RE.md) == before[3]
            yield from event(R)
        marks["pause"] = len(docs)
        yield Msg("pause")
        marks["resumed"] = len(docs)
        if M == "monitor_B":
            yield Msg("unmonitor", sig, run=kb)
        for R in open_now:
            yield Msg("close_run", run=key[R])
    setup = f"keys A={ka!r} B={kb!r}, next/snap A={n['A']}/{s['A']} B={n['B']}/{s['B']}, checkpoint={M}, events={shape}, dup={dup}"
    rejected = None
    try:
        RE(plan())
        return "not-constructible", "the plan did not pause"
    except RunEngineInterrupted:
        pass
    except Exception as e:      # noqa: BLE001 - a message of the plan was rejected / failed
        rejected = e
    n_pause = len(docs)
    if rejected is None:
        try:
            RE.resume()
        except Exception as e:      # noqa: BLE001
            rejected = e
    if rejected is not None:
        if RE.state != "idle":
            try:
                RE.abort()
            except Exception:      # noqa: BLE001
                pass
        if "duplicate open_run" in clause or "every open run's snapshot" in clause:
            return "not-constructible", setup + f": the plan failed with {rejected!r}"
        return "confirmed", setup + f": a message of the plan was not applied to the run of its key: the plan failed with {rejected!r}"
    desc = {d["uid"]: d for nm, d in docs if nm == "descriptor"}
    num, own, ck, dp = [], [], [], []
    for R, (cnt, copy) in state["ckpt"].items():
        if cnt.get("primary") != copy.get("primary"):
            ck.append(f"run {R} (key {key[R]!r}): after the checkpoint '{M}' the snapshot of 'primary' is {copy.get('primary')} while the run is at {cnt.get('primary')}")
    if state["cache"] != 0:
        ck.append(f"message cache after the checkpoint: {state['cache']}")
    if dup and marks["todo"]:
        if not dup_result.get("raised"):
            dp.append("the duplicate open_run was accepted")
        if not dup_result.get("unchanged"):
            dp.append("the duplicate open_run changed the open runs / emitted documents")
    for R in ("A", "B"):
        uid = marks["uids"][R]
        k = len([x for x in marks["todo"] if x == R])
        mine = lambda lo, hi: [d for nm, d in docs[lo:hi] if nm == "event" and desc[d["descriptor"]]["run_start"] == uid and desc[d["descriptor"]]["name"] == "primary"]  # noqa: E731
        first, second = mine(marks["first"], n_pause), mine(n_pause, len(docs))
        stops = [d for nm, d in docs if nm == "stop" and d["run_start"] == uid]
        if len(first) != k or len(second) != k or len(stops) != 1:
            own.append(f"run {R}: {len(first)} events before / {len(second)} after the pause (expected {k} each), {len(stops)} stop documents")
            continue
        for e in first + second:
            if set(e["data"]) != {f"det{R}"}:
                own.append(f"run {R}: event with data of {sorted(e['data'])}")
        want = [n[R] + i for i in range(k)]
        if [e["seq_num"] for e in first] != want or [e["seq_num"] for e in second] != want:
            num.append(f"run {R} (key {key[R]!r}): seq_nums {[e['seq_num'] for e in first]} before the pause, {[e['seq_num'] for e in second]} for the replayed events, expected {want} both times")
        if stops[0]["num_events"].get("primary") != n[R] - 1 + k:
            num.append(f"run {R}: stop.num_events = {stops[0]['num_events']}, expected primary = {n[R] - 1 + k}")
    if "every open run's snapshot" in clause:
        problems = ck
    elif "duplicate open_run" in clause:
        problems = dp
    elif "belongs to the run" in clause:
        problems = own
    else:
        problems = num
    return ("confirmed" if problems else "contradicted"), setup + ": " + ("; ".join(problems) or "every clause holds")


def checkpoint_all(model, info, art):
    """runs None / 'a' / 0 open, each one event past its snapshot; then the implicit-checkpoint message of `handler` for run `key`:
    afterwards the snapshot of every run that is still open is its current numbering and the engine's message cache is empty"""
    h, label = info["handler"], info["key"]
    key = KEYS[label]
    RE = RunEngine(context_managers=[])
    det = {k: Det(f"det_{k}") for k in OPEN}
    sig = Det("sig")
    state = {}

    def event(k):
        yield Msg("create", name="primary", run=KEYS[k])
        yield Msg("read", det[k], run=KEYS[k])
        yield Msg("save", run=KEYS[k])

    def plan():
        for k in OPEN:
            yield Msg("open_run", run=KEYS[k])
        for k in OPEN:
            yield from event(k)
        if h == "_unmonitor":
            yield Msg("monitor", sig, name="mon", run=key)
        yield Msg("checkpoint")
        for k in OPEN:
            yield from event(k)
        if h == "_close_run":
            yield Msg("close_run", run=key)
        elif h == "_monitor":
            yield Msg("monitor", sig, name="mon", run=key)
        else:
            yield Msg("unmonitor", sig, run=key)
        state["runs"] = {k: (dict(RE._run_bundlers[KEYS[k]]._sequence_counters), dict(RE._run_bundlers[KEYS[k]]._sequence_counters_copy))
                         for k in OPEN if KEYS[k] in RE._run_bundlers}
        state["cache"] = None if RE._msg_cache is None else len(RE._msg_cache)
        if h == "_monitor":
            yield Msg("unmonitor", sig, run=key)
        for k in list(RE._run_bundlers):
            yield Msg("close_run", run=k)
    RE(plan())
    stale = [f"run {k!r}: snapshot of 'primary' is {copy.get('primary')} while the run is at {cnt.get('primary')}"
             for k, (cnt, copy) in state["runs"].items() if copy.get("primary") != cnt.get("primary")]
    want = [k for k in OPEN if not (h == "_close_run" and k == label)]
    if sorted(state["runs"]) != sorted(want):
        stale.append(f"open runs afterwards {sorted(state['runs'])}")
    if state["cache"] != 0:
        stale.append(f"message cache afterwards: {state['cache']}")
    return ("confirmed" if stale else "contradicted"), f"{h[1:]}(run={key!r}) with runs {OPEN} open, each one event past its snapshot: " + ("; ".join(stale) or "every open run's snapshot refreshed")


def baseline(model, info, art):
    """baseline_wrapper over two interleaved keyed runs on a real RunEngine: every message between the plan's own messages (seen through
    msg_hook) must carry the key of the run whose open_run / close_run triggered the baseline readings"""
    from bluesky.preprocessors import baseline_wrapper
    kinds = info["kinds"]
    keys = [None if k == "none" else _key(model, k, f"key{i}") for i, k in enumerate(kinds)]
    if keys[0] is not None and keys[1] is not None and type(keys[0]) is type(keys[1]) and not isinstance(keys[0], Key) and keys[0] == keys[1]:
        return "not-constructible", f"equal keys {keys!r}"
    det = Det("bdet")
    user = [Msg("open_run", run=keys[0]), Msg("open_run", run=keys[1]), Msg("checkpoint"), Msg("close_run", run=keys[0]), Msg("close_run", run=keys[1])]
    seen = []
    RE = RunEngine(context_managers=[])
    RE.msg_hook = seen.append
    docs = []
    RE.subscribe(lambda n, d: docs.append((n, d)))

    def plan():
        for m in user:
            yield m
    try:
        RE(baseline_wrapper(plan(), [det]))
    except Exception as e:      # noqa: BLE001
        return "confirmed", f"keys {keys!r}: the wrapped plan failed with {e!r} after messages {[(m.command, m.run) for m in seen]}"
    owner = {0: 0, 1: 1, 2: 0, 3: 1}          # segment after user[i] (before user[i + 1]) belongs to run ...
    problems, seg = [], None
    for m in seen:
        hit = [i for i, u in enumerate(user) if m is u]
        if hit:
            seg = hit[0]
            continue
        if seg is None or seg not in owner:
            problems.append(f"unexpected message {m.command} outside the runs")
            continue
        k = keys[owner[seg]]
        if not (m.run is k or (k is not None and not isinstance(k, Key) and type(m.run) is type(k) and m.run == k)):
            problems.append(f"{m.command} inserted for the run with key {k!r} carries run={m.run!r}")
    if [m for m in seen if any(m is u for u in user)] != user:
        problems.append("the plan's own messages did not pass unchanged")
    starts = [d["uid"] for n, d in docs if n == "start"]
    desc = {d["uid"]: d["run_start"] for n, d in docs if n == "descriptor" and d["name"] == "baseline"}
    for i, u in enumerate(starts):
        nb = len([1 for n, d in docs if n == "event" and desc.get(d["descriptor"]) == u])
        if nb != 2:
            problems.append(f"run #{i + 1} has {nb} baseline events, expected 2")
    return ("confirmed" if problems else "contradicted"), f"keys {keys!r}: " + ("; ".join(problems[:6]) or "every inserted message carries the key of its run")
