"""native replay for C34: real writers on a temp directory, parse the files back"""
import json
import tempfile
from pathlib import Path

from bluesky.callbacks.json_writer import JSONLinesWriter, JSONWriter


def roundtrip(model, info, art):
    problems = []
    docs = [("start", {"uid": "abc-123", "v": 1.5}), ("descriptor", {"uid": "d", "x": [1, 2]}), ("event", {"uid": "e", "s": "a\nb"}),
            ("stop", {"uid": "s", "exit_status": "success"})]
    with tempfile.TemporaryDirectory() as d:
        (Path(d) / "abc.json").write_text("stale")
        w = JSONWriter(d)
        for n, doc in docs:
            w(n, doc)
        got = json.loads((Path(d) / "abc.json").read_text())
        if got != [{"name": n, "doc": doc} for n, doc in docs]:
            problems.append(f"JSONWriter file parses to {got!r}")
        for pre in (None, '{"name": "old", "doc": {}}\n'):
            p = Path(d) / "abc.jsonl"
            if p.exists():
                p.unlink()
            if pre is not None:
                p.write_text(pre)
            lw = JSONLinesWriter(d)
            for n, doc in docs:
                lw(n, doc)
            lines = p.read_text().splitlines()
            parsed = [json.loads(line) for line in lines]
            want = ([json.loads(pre)] if pre else []) + [{"name": n, "doc": doc} for n, doc in docs]
            if parsed != want:
                problems.append(f"JSONLinesWriter (pre-existing={pre is not None}) lines parse to {parsed!r}")
    return ("confirmed" if problems else "contradicted"), "; ".join(problems) or "files parse back to the documents"


def non_ascii(model, info, art):
    """C34: a run whose metadata holds text the platform's file encoding cannot represent (a lone surrogate, as os.fsdecode returns for a
    non-UTF-8 path): both writers must still leave files that parse back to the documents"""
    import json
    import os
    import tempfile
    from bluesky.callbacks.json_writer import JSONWriter, JSONLinesWriter
    d = tempfile.mkdtemp()
    name = os.fsdecode(b"/data/raw/\xe9chantillon_12/scan.h5")
    docs = [("start", {"uid": "abc-123", "time": 0.0, "data_file": name}), ("stop", {"uid": "s", "run_start": "abc-123", "time": 1.0, "exit_status": "success"})]
    bad = []
    for cls, fn in ((JSONWriter, "abc.json"), (JSONLinesWriter, "abc.jsonl")):
        wtr = cls(d, fn)
        try:
            for n, doc in docs:
                wtr(n, doc)
        except Exception as e:   # noqa
            bad.append(f"{cls.__name__} raised {type(e).__name__}")
            continue
        text = open(os.path.join(d, fn)).read()
        try:
            got = json.loads(text) if fn.endswith(".json") else [json.loads(line) for line in text.splitlines()]
        except Exception as e:   # noqa
            bad.append(f"{cls.__name__}: file does not parse ({type(e).__name__})")
            continue
        if [g["doc"] for g in got] != [dict(doc) for n, doc in docs]:
            bad.append(f"{cls.__name__}: parsed documents differ")
    return ("confirmed" if bad else "contradicted"), "; ".join(bad) or "both files parse back to the documents, non-ASCII metadata included"
