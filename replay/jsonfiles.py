"""native replay for C34: real writers on a temp directory, parse the files back"""
import json
import tempfile
from pathlib import Path

from bluesky.callbacks.json_writer import JSONLinesWriter, JSONWriter


def roundtrip(model, info, art):
    problems = []
    docs = [("start", {"uid": "abc-123", "v": 1.5}), ("descriptor", {"uid": "d", "x": [1, 2]}), ("event", {"uid": "e", "s": "a\nb"}),
            ("stop", {"uid": "s", "exit_status": "success"})]
    with tempfile.TemporaryDirectory() as d:
        (Path(d) / "abc.json").write_text("stale")
        w = JSONWriter(d)
        for n, doc in docs:
            w(n, doc)
        got = json.loads((Path(d) / "abc.json").read_text())
        if got != [{"name": n, "doc": doc} for n, doc in docs]:
            problems.append(f"JSONWriter file parses to {got!r}")
        for pre in (None, '{"name": "old", "doc": {}}\n'):
            p = Path(d) / "abc.jsonl"
            if p.exists():
                p.unlink()
            if pre is not None:
                p.write_text(pre)
            lw = JSONLinesWriter(d)
            for n, doc in docs:
                lw(n, doc)
            lines = p.read_text().splitlines()
            parsed = [json.loads(line) for line in lines]
            want = ([json.loads(pre)] if pre else []) + [{"name": n, "doc": doc} for n, doc in docs]
            if parsed != want:
                problems.append(f"JSONLinesWriter (pre-existing={pre is not None}) lines parse to {parsed!r}")
    return ("confirmed" if problems else "contradicted"), "; ".join(problems) or "files parse back to the documents"
