"""C40 - the clause "every pause, suspension and resume that happens while a run is open produces exactly one event in that run's
'interruptions' stream", stated once for the ghost monitor of the T2 tasks (contracts/run_mon5.py, over the events of the abstract
bundlers) and for the native oracle (replay/lifecycle.py, over the documents of the real RunBundler).  Import-free on purpose.

When an interruption *happens* (definitions used on both sides, observable through state_hook / msg_hook):
  pause       the engine enters 'pausing'
  resume      the engine leaves 'paused' for 'running'
  suspension  the engine executes a '_start_suspender' message; its record carries the justification ('suspended' if none was given)
The record of an interruption may be written a little before or after that moment, but
  * by the time the engine goes on (it reaches 'paused', or executes the next message) every run that was open when the interruption
    happened holds its record                                                                                   (else: MISSING)
  * when a run is closed, and when the blocking call returns, the records of a run are exactly the interruptions that happened while
    it was open: none is missing (MISSING), and there is no record that no interruption accounts for - no duplicate, no record of a
    pause that was only asked for (EXTRA); a record written into a run that is not open is EXTRA at once.
Balances are saturated at one unmatched interruption / record per run and kind (a second one is reported at once), so the ledger is
bounded ghost state."""
MISSING = "missing"
EXTRA = "extra"


class Ledger:
    def __init__(self):
        self.bal = {}          # open recording run -> {content: interruptions that happened - records written}

    def state(self):
        return tuple(sorted((str(r), tuple(sorted((k, v) for k, v in b.items() if v))) for r, b in self.bal.items()))

    def open(self, run):
        self.bal[run] = {}

    def effect(self, content):
        bad = []
        for r, b in self.bal.items():
            if b.get(content, 0) >= 1:
                bad.append((MISSING, r, content, "the interruption happened again before the previous one was recorded"))
            else:
                b[content] = b.get(content, 0) + 1
        return bad

    def record(self, run, content):
        b = self.bal.get(run)
        if b is None:
            return [(EXTRA, run, content, "the run is not open")]
        if b.get(content, 0) <= -1:
            return [(EXTRA, run, content, "second record with no interruption of this kind in between")]
        b[content] = b.get(content, 0) - 1
        return []

    def progress(self, where):
        """the engine goes on (reached 'paused' / executes a message): nothing that happened may still be unrecorded"""
        bad = []
        for r, b in self.bal.items():
            for k, v in b.items():
                if v > 0:
                    bad.append((MISSING, r, k, f"no record by the time the engine {where}"))
                    b[k] = 0
        return bad

    def settle(self, run, where):
        bad = []
        b = self.bal.get(run, {})
        for k, v in b.items():
            if v > 0:
                bad.append((MISSING, run, k, f"no record when {where}"))
            elif v < 0:
                bad.append((EXTRA, run, k, f"a record that no interruption accounts for when {where}"))
            b[k] = 0
        return bad

    def close(self, run):
        bad = self.settle(run, "the run is closed")
        self.bal.pop(run, None)
        return bad

    def returned(self, call):
        bad = []
        for r in list(self.bal):
            bad += self.settle(r, f"{call} returns")
        return bad
