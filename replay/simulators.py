"""replay adapters for C32: search natively (small exhaustive space around the counterexample's shape) for a concrete
plan / handler set on which the real simulator deviates from the documented behaviour"""
import asyncio
import itertools
import warnings

from bluesky.simulators import RunEngineSimulator, check_limits_async
from bluesky.utils import Msg


def simulate_plan(model, info, art):
    for nh in (0, 1, 2):
        for accepts in itertools.product([False, True], repeat=nh * 2):
            for results in itertools.product([None, "value"], repeat=nh):
                sim = RunEngineSimulator()
                received = []

                def plan():
                    r1 = yield Msg("a")
                    received.append(r1)
                    r2 = yield Msg("b")
                    received.append(r2)
                    return "done"
                # handlers registered oldest first; add_handler prepends, so the newest is consulted first
                for i in range(nh):
                    acc = {"a": accepts[2 * i], "b": accepts[2 * i + 1]}
                    sim.add_handler(["a", "b"], (lambda m, _i=i, _r=results[i]: (f"h{_i}" if _r else None)),
                                    (lambda m, _acc=acc: _acc[m.command]))
                msgs = sim.simulate_plan(plan())
                want = []
                for cmd in ("a", "b"):
                    v = None
                    for i in reversed(range(nh)):          # newest first
                        if accepts[2 * i + (cmd == "b")]:
                            v = f"h{i}" if results[i] else None
                            break
                    want.append(v)
                if [m.command for m in msgs] != ["a", "b"] or received != want or sim.return_value != "done":
                    return "confirmed", (f"{nh} handlers (oldest first) accepting {accepts} returning {results}: plan received {received} "
                                         f"(documented {want}), messages {[m.command for m in msgs]}, return_value {sim.return_value!r}")
    # a simulator that is used again: return_value is the return value of the plan simulated last, also when that is None
    sim = RunEngineSimulator()

    def first():
        yield Msg("a")
        return "done"

    def second():
        yield Msg("b")
    sim.simulate_plan(first())
    sim.simulate_plan(second())
    if sim.return_value is not None:
        return "confirmed", f"two plans on one simulator (returning 'done', then None): return_value {sim.return_value!r} after the second"
    return "contradicted", "no deviation on plans with 2 messages and up to 2 handlers"


class Dev:
    def __init__(self, name, limit=None):
        self.name, self.limit, self.calls = name, limit, []


class Checked(Dev):
    def check_value(self, v):
        self.calls.append(v)
        if self.limit is not None and v > self.limit:
            raise ValueError("limit")


class AsyncChecked(Dev):
    async def check_value(self, v):
        self.calls.append(v)
        if self.limit is not None and v > self.limit:
            raise ValueError("limit")


def check_limits(model, info, art):
  for cls in (Checked, AsyncChecked):
    for cmds in itertools.product(["set", "read"], repeat=3):
        for objs in itertools.product(["m", "x"], repeat=3):
            for vals in itertools.product([1, 9], repeat=3):
                m, x = cls("m", limit=5), Dev("x")
                plan = [Msg(c, {"m": m, "x": x}[o], v) for c, o, v in zip(cmds, objs, vals)]
                with warnings.catch_warnings(record=True) as rec:
                    warnings.simplefilter("always")
                    try:
                        asyncio.run(check_limits_async(iter(plan)))
                        raised = False
                    except ValueError:
                        raised = True
                exp_calls = []
                exp_raise = False
                for c, o, v in zip(cmds, objs, vals):
                    if c == "set" and o == "m":
                        exp_calls.append(v)
                        if v > 5:
                            exp_raise = True
                            break
                nwarn = 1 if any(c == "set" and o == "x" for c, o in zip(cmds, objs)) else 0
                if m.calls != exp_calls or raised != exp_raise or (not exp_raise and len(rec) != nwarn):
                    return "confirmed", f"{cls.__name__} device, plan {list(zip(cmds, objs, vals))}: check_value calls {m.calls} (documented {exp_calls}), raised={raised} (documented {exp_raise}), warnings={len(rec)}"
  return "contradicted", "no deviation on plans with 3 messages (synchronous and asynchronous check_value)"


def add_handler_names(model, info, art):
    """a handler registered for one command (a string) is consulted for exactly that command"""
    bad = []
    for reg, other in (("wait_for", "wait"), ("unstage", "stage"), ("unmonitor", "monitor"), ("unsubscribe", "subscribe"), ("wait", "wait_for"),
                       (info.get("registered", "set"), info.get("message", "settle"))):
        sim = RunEngineSimulator()
        sim.add_handler(reg, lambda m: "handled")
        got = []

        def plan():
            got.append((yield Msg(reg)))
            got.append((yield Msg(other)))
        sim.simulate_plan(plan())
        want = ["handled", "handled" if other == reg else None]
        if got != want:
            bad.append(f"handler registered for {reg!r}: plan yielding {reg!r}, {other!r} received {got} (documented {want})")
    return ("confirmed" if bad else "contradicted"), "; ".join(bad) or "handlers are consulted for exactly their command"
