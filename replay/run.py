"""Native replay of a counter-model on the real code (run under /venv/bin/python).
usage: run.py <artefact.json>; prints 'REPLAY: confirmed|contradicted|not-constructible <detail>'.
exit 0 confirmed, 4 contradicted, 5 not constructible / adapter error."""
import importlib
import json
import os
import sys
import traceback

sys.path.insert(0, os.path.dirname(os.path.dirname(os.path.abspath(__file__))))
REPO = os.environ.get("VERIF_REPO", "/repo")
if REPO != "/repo":
    sys.path.insert(0, os.path.join(REPO, "src"))


def main():
    art = json.load(open(sys.argv[1]))
    info = art.get("info") or {}
    name = info.get("replay")
    if not name:
        print("REPLAY: no-adapter")
        return 5
    modname, fn = name.rsplit(".", 1)
    try:
        mod = importlib.import_module("replay." + modname)
        verdict, detail = getattr(mod, fn)(art.get("model") or {}, info, art)
    except Exception:
        traceback.print_exc()
        print("REPLAY: adapter-error")
        return 5
    print("obligation:", art.get("obligation"))
    print("detail:", detail)
    print(f"REPLAY: {verdict}")
    return {"confirmed": 0, "contradicted": 4}.get(verdict, 5)


if __name__ == "__main__":
    sys.exit(main())
