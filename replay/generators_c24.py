"""replay adapter for C24 (relative_set_wrapper / reset_positions_wrapper): scripted plan over native fake devices"""
from bluesky.utils import Msg

from . import generators as G


class Loc:
    """Locatable"""
    parent = None

    def __init__(self, name):
        self.name = name

    def set(self, v):
        pass

    def locate(self):
        pass

    def __repr__(self):
        return f"<{self.name}>"


class Pos:
    parent = None

    def __init__(self, name, position):
        self.name, self.position = name, position

    def __repr__(self):
        return f"<{self.name}>"


class Rd:
    parent = None

    def __init__(self, name):
        self.name = name
        self.hints = {"fields": [name]}

    def __repr__(self):
        return f"<{self.name}>"


def script(model, info, art):
    fn = info.get("fn", "relative_set_wrapper")
    ref = "ref_relative_set" if fn.startswith("relative") else "ref_reset_positions"
    msgs = info.get("messages", {})
    for numeric in (0.0, 2.5):
        U = {"L": Loc("L"), "P": Pos("P", numeric), "R": Rd("R")}

        def factory(key, _U=U):
            cmd, obj = msgs.get(key, ["null", None])
            return Msg("set", _U[obj], 1.5, group="g") if cmd == "set" else Msg("null")
        i2 = dict(info)
        i2["cfg"] = {"module": "bluesky.preprocessors", "ref_file": "contracts/refs/c24.py", "objects": {"plan": "gen"},
                     "impl_build": f"{fn}(plan)", "ref_build": f"{ref}(plan, None)", "numeric": numeric}
        verdict, detail = G.script(model, i2, art, msg_factory=factory)
        if verdict == "confirmed":
            return verdict, f"(initial position / reading = {numeric}) " + detail
    return verdict, detail
