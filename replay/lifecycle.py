"""Native replay for the T2 (RunEngine lifecycle) obligations: the *real* RunEngine and the *real* asyncio Task / Future /
Event implementation of CPython, driven step by step according to the decision list of a counter-example.

How the schedule is reproduced without touching /repo:
  * StepLoop implements the part of asyncio.AbstractEventLoop the RunEngine uses (call_soon, call_soon_threadsafe, call_later,
    create_task, create_future, time); the controller thread executes exactly one ready handle per 'step' decision;
  * the blocking public calls (RunEngine(), RE(...), resume, abort, stop, halt) run on a 'main' thread; bluesky.run_engine's
    `threading` name is replaced (in this process only) by a shim whose Event.wait, when called on the main thread, also
    waits for the controller's go-ahead, given when the event is set and the loop is quiescent (assumption A-MAIN);
  * environment decisions call the real public entry points from short-lived threads (request_pause, request_suspend,
    abort, stop, halt) and wait until their call_soon_threadsafe callback is queued; device / timer / release completions
    are queued with call_soon_threadsafe;
  * the plan is a generator that takes its choices (message kind, return, raise; re-raise / handle on throw) from the
    decision list; registered custom commands take theirs ('custom outcome') likewise.
The model's abstract replay of the message cache has no native counterpart: 'replay' decisions are skipped; if the native
run then asks for a decision of another kind than the list provides, the run has diverged and the remaining schedule is
completed with 'step' decisions."""
import asyncio
import collections
import json
import threading
import time
import types

import bluesky.run_engine as bre
from bluesky.run_engine import RunEngine
from bluesky.utils import DuringTask, FailedPause, Msg, PlanHalt, RequestAbort, RequestStop, RunEngineInterrupted

WAIT = 60.0      # generous: the stepping harness only waits this long when something is wrong (or the machine is very busy)


class StepLoop(asyncio.AbstractEventLoop):
    def __init__(self):
        self._ready = collections.deque()
        self._lock = threading.Lock()
        self._timers = []
        self._now = 0.0
        self.errors = []
        self.appended = threading.Condition()

    def call_soon(self, callback, *args, context=None):
        h = asyncio.Handle(callback, args, self, context)
        with self.appended:
            self._ready.append(h)
            self.appended.notify_all()
        return h

    call_soon_threadsafe = call_soon

    def call_at(self, when, callback, *args, context=None):
        h = asyncio.TimerHandle(when, callback, args, self, context)
        self._timers.append(h)
        return h

    def call_later(self, delay, callback, *args, context=None):
        return self.call_at(self._now + delay, callback, *args, context=context)

    def _timer_handle_cancelled(self, h):
        pass

    def time(self):
        return self._now

    def create_future(self):
        return asyncio.Future(loop=self)

    def create_task(self, coro, *, name=None, context=None):
        return asyncio.Task(coro, loop=self, name=name, context=context)

    def is_running(self):
        return True

    def is_closed(self):
        return False

    def get_debug(self):
        return False

    def call_exception_handler(self, context):
        self.errors.append(context)

    def nready(self):
        with self.appended:
            return sum(1 for h in self._ready if not h._cancelled)

    def step(self):
        while True:
            with self.appended:
                if not self._ready:
                    return False
                h = self._ready.popleft()
            if h._cancelled:
                continue
            asyncio.events._set_running_loop(self)
            try:
                h._run()
            finally:
                asyncio.events._set_running_loop(None)
            return True

    def fire_timer(self):
        live = [t for t in self._timers if not t._cancelled]
        if not live:
            return False
        t = min(live, key=lambda x: x._when)
        self._timers.remove(t)
        self._now = max(self._now, t._when)
        with self.appended:
            self._ready.append(t)
            self.appended.notify_all()
        return True


class Diverged(Exception):
    pass


class Controller:
    def __init__(self, decisions, msgs, opts=None):
        self.decisions = [tuple(d) for d in decisions]
        # scenario option: every suspension request brings its own condition (released by 'release#k' decisions)
        self.independent = str((opts or {}).get("independent_conditions", "False")) == "True"
        self.releases = []
        self.pos = 0
        self.diverged = None
        self.loop = StepLoop()
        self.main_thread = None
        self.blocked_on = None
        self.go = threading.Semaphore(0)
        self.state_lock = threading.Condition()
        self.cmd_done = True
        self.cmd_result = None
        self.cmds = collections.deque()
        self.log = []
        self.devfuts = []
        self.release = None
        self.RE = None
        self.msgs = msgs
        self.plan_done = None
        self.calls = []
        # observations through the public hooks (msg_hook, state_hook)
        self.section_nr = False        # statement's non-resumable section: after clear_checkpoint, before the next checkpoint
        self.doomed = None             # an interruption took effect inside it
        self.doomed_bad = []
        self.seen_msgs = set()
        self.trace = []                # ('msg', command, replayed?) / ('state', new) / ('yield', choice, deferred flag)
        self.results = {}              # id(msg) -> responses / errors the handlers produced for it
        self.errors = {}
        self.nresp = 0
        self.c04_expected, self.c04_rewindable, self.c04_nr, self.c04_bad = [], True, False, []
        self.aux_msgs = {}                 # id(message of a suspender's pre / post plan) -> 'pre<n>' / 'post<n>'
        self.aux_names = {}                # id(post-plan generator) -> 'post<n>'
        self.after_start_suspender = False
        self.mot_calls = []
        self.c11_stop_bad = []
        _Mot.ledger = self.mot_calls.append
        self.n_susp = 0
        self.mon_trace = []            # C41: ('msg', command, aux?, engine state, live subscriptions, monitors of open runs) / ('state', new, live, monitors)
        # (the scenario's option when the check passes it on; a counter-example may end before the first decision of a pre-plan)
        self.suspend_plans = any(str(lab).startswith("pre") for lab, _ in self.decisions) or str((opts or {}).get("suspend_plans", "False")) == "True"
        self.c40 = []                  # C40: documents, state changes, messages and returns of blocking calls in the order they happened

    NONREPLAYABLE = ("pause", "subscribe", "unsubscribe", "stage", "unstage", "monitor", "unmonitor", "open_run", "close_run",
                     "install_suspender", "remove_suspender", "_start_suspender")

    def c04_compare(self, where):
        """the statement's replay list against the engine's message cache (C04)"""
        cache = self.RE._msg_cache
        exp = self.c04_expected
        if self.c04_nr:
            ok = cache is None
        else:
            ok = cache is not None and len(cache) == len(exp) and all(x is y for x, y in zip(cache, exp))
        if not ok:
            self.c04_bad.append(f"at {where}: the engine would replay {None if cache is None else [m.command for m in cache]}, "
                                f"the statement wants {[m.command for m in exp]} (non-resumable section: {self.c04_nr})")

    def c04_update(self, msg):
        cmd = msg.command
        if cmd == "_start_suspender":
            self.c04_compare("suspension")
        if not self.c04_nr and self.c04_rewindable and cmd not in self.NONREPLAYABLE:
            self.c04_expected.append(msg)
        if cmd == "clear_checkpoint":
            self.c04_nr, self.c04_expected = True, []
        elif cmd == "checkpoint":
            self.c04_nr, self.c04_expected = False, []
        elif cmd == "close_run" and any(b.run_is_open for b in self.RE._run_bundlers.values()):
            self.c04_expected = []
        elif cmd in ("stage", "unstage", "monitor", "unmonitor", "subscribe", "unsubscribe"):
            self.c04_expected = []
        elif cmd == "rewindable" and msg.args and msg.args[0] is not None and bool(msg.args[0]) != self.c04_rewindable:
            self.c04_rewindable = bool(msg.args[0])
            self.c04_expected = []
        elif cmd == "_start_suspender":
            self.c04_expected = []

    def monitors(self):
        """(live engine subscriptions on the monitored devices, monitors the open runs hold)"""
        live = len(_SIG.cbs) + len(_SIG_B.cbs)
        held = sum(len(b._monitor_params) for b in self.RE._run_bundlers.values() if b.run_is_open)
        return live, held

    def on_msg(self, msg):
        self.c40.append(("msg", msg.command, msg.args[2] if msg.command == "_start_suspender" and len(msg.args) > 2 else None))
        self.mon_trace.append(("msg", msg.command, id(msg) in self.aux_msgs, str(self.RE.state)) + self.monitors())
        if self.after_start_suspender:
            # the message right after _start_suspender: the handler has run, every moved device must have been told to stop
            self.after_start_suspender = False
            if self.mot_calls and self.mot_calls[-1] != "stop" and "set" in self.mot_calls:
                self.c11_stop_bad.append("the motor was set but not told to stop when the suspension started")
        if msg.command == "_start_suspender":
            self.after_start_suspender = True
            # which condition this suspension waits for (the bound `wait` of one of the events handed to request_suspend)
            cond = getattr(msg.args[3], "__self__", None) if len(msg.args) > 3 else None
            # the post-plan is the one REQUESTED together with this condition (roles as given to request_suspend, not as the message carries them)
            cands = [q for q in getattr(self, "susp_requests", []) if not q["started"] and q["cond"] is cond]
            mine = [q for q in cands if any(id(a) in (id(q["pre"]), id(q["post"])) for a in msg.args[:2])]
            q = (mine or cands or [None])[0]
            if q is not None:
                q["started"] = True
            for k, r in enumerate(self.releases):
                if r is cond:
                    self.trace.append(("in-effect", k, q["postname"] if q is not None else None))
        self.c04_update(msg)
        replayed = id(msg) in self.seen_msgs
        self.seen_msgs.add(id(msg))
        self.keep = getattr(self, "keep", [])
        self.keep.append(msg)
        self.trace.append(("msg", msg.command, replayed, self.aux_msgs.get(id(msg), False)))
        if msg.command == "clear_checkpoint":
            self.section_nr = True
        elif msg.command == "checkpoint":
            self.section_nr = False

    def on_state(self, new, old):
        new = str(new)
        self.c40.append(("state", new, str(old)))
        self.trace.append(("state", new))
        self.mon_trace.append(("state", new) + self.monitors())
        if new == "paused":
            self.c04_compare("pause")
        if new == "running" and str(old) == "paused":
            self.c04_expected = []           # resume has handed the cache to the rewind plan
        if new in ("pausing", "suspending") and self.section_nr and self.doomed is None:
            self.doomed = new
        if new == "aborting" and self.section_nr and self.doomed is None and isinstance(self.RE._exception, FailedPause):
            self.doomed = "suspending"
        if new == "paused" and self.doomed:
            self.doomed_bad.append(f"the engine reached 'paused' although the {self.doomed} took effect in a non-resumable section")

    # ---------------------------------------------------------------- decisions
    def peek_decision(self, label):
        """the next decision if it carries `label` (consumed), else None (nothing consumed, no divergence recorded)"""
        while self.pos < len(self.decisions) and self.decisions[self.pos][0] == "replay":
            self.pos += 1
        if self.pos < len(self.decisions) and self.decisions[self.pos][0] == label:
            self.pos += 1
            return self.decisions[self.pos - 1]
        return None

    def next_decision(self, kinds):
        """next decision whose label is one of `kinds` (prefix match); model-only decisions ('replay') are skipped"""
        while self.pos < len(self.decisions):
            lab, val = self.decisions[self.pos]
            if lab == "replay":
                self.pos += 1
                continue
            if any(lab == k or lab.startswith(k) for k in kinds):
                self.pos += 1
                return lab, val
            if self.diverged is None:
                self.diverged = f"decision {self.pos} is {lab}={val}, the native run needs one of {kinds}"
            return None
        if self.diverged is None:
            self.diverged = f"decision list exhausted, the native run needs one of {kinds}"
        return None

    # ---------------------------------------------------------------- the main thread
    def main(self):
        while True:
            with self.state_lock:
                while not self.cmds:
                    self.state_lock.wait()
                cmd = self.cmds.popleft()
            if cmd is None:
                return
            try:
                r = ("ok", cmd())
            except BaseException as e:     # noqa
                r = ("raise", e)
            with self.state_lock:
                self.cmd_result, self.cmd_done = r, True
                self.state_lock.notify_all()

    def submit(self, f):
        with self.state_lock:
            self.cmd_done, self.cmd_result, self.blocked_on = False, None, None
            self.cmds.append(f)
            self.state_lock.notify_all()

    def main_blocked(self, ev):
        with self.state_lock:
            self.blocked_on = ev
            self.state_lock.notify_all()

    def wait_main_settled(self):
        """until the main thread has finished its command or is blocked in an Event.wait"""
        t0 = time.time()
        with self.state_lock:
            while not self.cmd_done and self.blocked_on is None:
                self.state_lock.wait(0.05)
                if time.time() - t0 > WAIT:
                    raise RuntimeError("main thread neither finished nor blocked (native deadlock outside an Event.wait)")

    # ---------------------------------------------------------------- scheduling (mirror of aio.Loop.run_until)
    def schedule(self):
        """run the loop / environment until the main thread's command is finished; returns its result"""
        stuck = 0
        while True:
            self.wait_main_settled()
            if self.cmd_done:
                return self.cmd_result
            ev = self.blocked_on
            if ev.is_set() and self.loop.nready() == 0:
                with self.state_lock:
                    self.blocked_on = None
                self.go.release()
                continue
            d = self.next_decision(["env"]) if self.diverged is None else None
            kind = d[1] if d else "step"
            if kind == "step":
                if not self.loop.step():
                    if self.diverged is None:
                        self.diverged = "the model steps the loop but natively nothing is ready"
                    # nothing can run: fire pending environment completions, else give up
                    if not self.default_progress():
                        stuck += 1
                        if stuck > 3:
                            return ("stuck", None)
            else:
                self.env_action(kind)

    def default_progress(self):
        for k, r in enumerate(self.releases):
            if not r.is_set() and not getattr(r, "fired", False):
                r.fired = True
                self.trace.append(("released", k))
                self.loop.call_soon_threadsafe(r.set)
                return True
        if self.release is not None and not self.release.is_set():
            self.loop.call_soon_threadsafe(self.release.set)
            return True
        for f in self.devfuts:
            if not f.done():
                self.loop.call_soon_threadsafe(lambda f=f: None if f.done() else f.set_result(self._resp(f.msg)))
                return True
        return self.loop.fire_timer()

    def env_action(self, kind):
        RE, loop = self.RE, self.loop
        n0 = None

        def in_thread(f):
            before = len(loop._ready)
            th = threading.Thread(target=lambda: self._quiet(f), daemon=True)
            with loop.appended:
                th.start()
                t0 = time.time()
                while len(loop._ready) == before and th.is_alive() and time.time() - t0 < WAIT:
                    loop.appended.wait(0.05)
        self.log.append(("request", kind, str(RE.state)))
        if kind == "pause":
            in_thread(lambda: RE.request_pause(False))
        elif kind == "pause_defer":
            in_thread(lambda: RE.request_pause(True))
        elif kind == "suspend":
            if self.release is None or self.release.is_set() or self.independent:
                self.release = asyncio.Event()
                self.releases.append(self.release)
            rel = self.release
            if self.suspend_plans:
                n = self.n_susp
                self.n_susp += 1
                pre, post = self.aux_plan(f"pre{n}"), self.aux_plan(f"post{n}")
                self.aux_names[id(post)] = f"post{n}"
                self.keep_aux_plans = getattr(self, "keep_aux_plans", []) + [pre, post]
                self.susp_requests = getattr(self, "susp_requests", []) + [{"cond": rel, "pre": pre, "post": post, "postname": f"post{n}", "started": False}]
                in_thread(lambda: RE.request_suspend(rel.wait, pre_plan=pre, post_plan=post, justification="beam dump"))
            else:
                self.susp_requests = getattr(self, "susp_requests", []) + [{"cond": rel, "pre": None, "post": None, "postname": None, "started": False}]
                in_thread(lambda: RE.request_suspend(rel.wait))
        elif kind == "abort":
            in_thread(lambda: RE.abort("because"))
        elif kind in ("stop", "halt"):
            in_thread(getattr(RE, kind))
        elif kind in ("dev-ok", "dev-fail"):
            for f in self.devfuts:
                if not f.done() and not getattr(f, "fired", False):
                    f.fired = True
                    if kind == "dev-ok":
                        loop.call_soon_threadsafe(lambda f=f: None if f.done() else f.set_result(self._resp(f.msg)))
                    else:
                        loop.call_soon_threadsafe(lambda f=f: None if f.done() else f.set_exception(self._err(f.msg)))
                    break
        elif kind == "timer":
            loop.fire_timer()
        elif kind == "release" or kind.startswith("release#"):
            r = self.releases[int(kind.split("#")[1])] if "#" in kind else self.release
            r.fired = True
            self.trace.append(("released", next((k for k, x in enumerate(self.releases) if x is r), None)))
            loop.call_soon_threadsafe(r.set)
        else:
            raise RuntimeError(f"unknown environment decision {kind}")

    def _quiet(self, f):
        try:
            f()
        except BaseException as e:    # noqa: the request was refused (TransitionError ...) - recorded, not propagated
            self.log.append(("request-raised", repr(e)))

    # ---------------------------------------------------------------- plan and commands
    def aux_plan(self, prefix):
        """a suspender's pre / post plan: at most the messages the decision list gives it"""
        while True:
            d = self.next_decision([prefix + "#"])
            choice = d[1] if d else "return"
            if choice in ("return", "raise"):
                self.trace.append(("aux-done", prefix))
                return
            m = MESSAGES[choice]()
            self.aux_msgs[id(m)] = prefix
            self.keep_aux = getattr(self, "keep_aux", []) + [m]
            yield m

    def plan(self, prefix="plan"):
        if prefix == "plan2":
            self.tokens_at_second_start = None
        k = 0
        resp = None
        thrown = None
        try:
            while True:
                if thrown is not None:
                    d = self.next_decision([prefix + ": on throw"])
                    if d is None or d[1] == "reraise":
                        raise thrown
                    thrown = None
                if prefix == "plan2" and self.tokens_at_second_start is None:
                    self.tokens_at_second_start = len(self.RE.dispatcher._token_mapping)
                d = self.next_decision([prefix + "#"])
                choice = d[1] if d else "return"
                if choice == "return":
                    self.plan_done = "returned"
                    return "plan_return"
                if choice == "raise":
                    self.plan_done = "raised"
                    self.plan_exc = RuntimeError("plan error")
                    raise self.plan_exc
                m = MESSAGES[choice]()
                self.trace.append(("yield", choice, bool(self.RE.deferred_pause_requested)))
                if self.doomed and not getattr(self, "cleanup_entered", False):
                    self.doomed_bad.append(f"the plan went on to yield {choice!r} after the {self.doomed} took effect in a non-resumable section")
                try:
                    resp = yield m
                    own = any(resp is r for r in self.results.get(id(m), []))
                    self.log.append(("plan-send", choice, repr(resp)[:60]))
                    self.trace.append(("send", choice, own, resp is None, bool(self.errors.get(id(m)))))
                except GeneratorExit:
                    self.cleanup_entered = True
                    raise
                except BaseException as e:     # noqa
                    self.cleanup_entered = True
                    self.log.append(("plan-throw", choice, type(e).__name__))
                    self.trace.append(("throw", choice, type(e).__name__, any(e is x for x in self.errors.get(id(m), []))))
                    thrown = e
        finally:
            if self.plan_done is None:
                self.plan_done = "raised" if thrown is not None else "closed"
                self.plan_exc = thrown

    def _resp(self, msg):
        if msg is None:
            return None
        self.nresp += 1
        r = f"resp{self.nresp}"
        self.results.setdefault(id(msg), []).append(r)
        return r

    def _err(self, msg):
        e = ValueError("device error")
        self.errors.setdefault(id(msg), []).append(e)
        return e

    async def custom(self, msg):
        d = self.next_decision(["custom outcome"])
        if d is None or d[1] == "ok":
            return self._resp(msg)
        raise self._err(msg)

    async def custom_async(self, msg):
        f = self.loop.create_future()
        f.msg = msg
        self.devfuts.append(f)
        return await f


class _Status:
    done = True
    success = True

    def add_callback(self, cb):
        pass


class _Mot:
    name = "mot"
    parent = None
    ledger = None

    def set(self, *a, **k):
        LEDGER.append(("mot", "set"))
        if _Mot.ledger is not None:
            _Mot.ledger("set")
        return _Status()

    def stop(self, *, success=False):
        LEDGER.append(("mot", "stop"))
        if _Mot.ledger is not None:
            _Mot.ledger("stop")


_MOT = _Mot()
_CTL = {"ctl": None}


class _AMot(_Mot):
    """a motor whose stop() is a coroutine: it finishes when the environment completes its future ('dev-ok' decisions)"""
    name = "amot"

    def set(self, *a, **k):
        LEDGER.append(("amot", "set"))
        return _Status()

    async def stop(self, *, success=False):
        ctl = _CTL["ctl"]
        f = ctl.loop.create_future()
        f.msg = None
        ctl.devfuts.append(f)
        await f
        LEDGER.append(("amot", "stop"))


_AMOT = _AMot()


class _FMot(_Mot):
    """a motor whose set() takes its outcome from the decision list: returns a status (the response owed to the plan) or raises"""
    name = "fmot"

    def set(self, *a, **k):
        ctl = _CTL["ctl"]
        d = ctl.next_decision(["device set outcome"])
        m = getattr(ctl, "cur_msg", None)
        if d is not None and d[1] == "raise":
            e = ValueError("device refuses the set point")
            ctl.errors.setdefault(id(m), []).append(e)
            raise e
        LEDGER.append(("fmot", "set"))
        st = _Status()
        ctl.results.setdefault(id(m), []).append(st)
        return st


_FMOT = _FMot()


LEDGER = []      # (device, call) in call order, for the C06 clauses


class _Dev:
    name = "dev"
    parent = None

    def stage(self):
        LEDGER.append(("dev", "stage"))
        return [self]

    def unstage(self):
        LEDGER.append(("dev", "unstage"))
        return [self]


class _Fly:
    name = "fly"
    parent = None

    def kickoff(self):
        LEDGER.append(("fly", "kickoff"))
        return _Status()

    def complete(self):
        return _Status()

    def describe_collect(self):
        return {"fly_stream": {"fly_x": {"dtype": "number", "shape": [], "source": "x"}}}

    def collect(self):
        LEDGER.append(("fly", "collect"))
        return iter(())

    def read_configuration(self):
        return {}

    def describe_configuration(self):
        return {}


class _Sig:
    name = "sig"
    parent = None

    def __init__(self):
        self.cbs = []

    def read(self):
        return {"sig": {"value": 1, "timestamp": 0}}

    def describe(self):
        return {"sig": {"dtype": "number", "shape": [], "source": "x"}}

    def read_configuration(self):
        return {}

    def describe_configuration(self):
        return {}

    def subscribe(self, cb, **kw):
        self.cbs.append(cb)

    def clear_sub(self, cb):
        if cb in self.cbs:
            self.cbs.remove(cb)


_FLY, _SIG, _SIG_B = _Fly(), _Sig(), _Sig()


def _callback(name, doc):
    pass


_DEV = _Dev()

MESSAGES = {
    "set": lambda: Msg("set", _MOT, 1), "set_async": lambda: Msg("set", _AMOT, 1), "set_fallible": lambda: Msg("set", _FMOT, 1),
    "kickoff": lambda: Msg("kickoff", _FLY), "collect": lambda: Msg("collect", _FLY),
    "monitor": lambda: Msg("monitor", _SIG), "unmonitor": lambda: Msg("unmonitor", _SIG),
    "open_run_b": lambda: Msg("open_run", run="b"), "close_run_b": lambda: Msg("close_run", run="b"),
    "monitor_b": lambda: Msg("monitor", _SIG_B, run="b"), "unmonitor_b": lambda: Msg("unmonitor", _SIG_B, run="b"),
    "subscribe": lambda: Msg("subscribe", None, _callback, "all"),
    "stage": lambda: Msg("stage", _DEV), "unstage": lambda: Msg("unstage", _DEV),
    "custom": lambda: Msg("custom"), "custom_async": lambda: Msg("custom_async"), "null": lambda: Msg("null"),
    "checkpoint": lambda: Msg("checkpoint"), "clear_checkpoint": lambda: Msg("clear_checkpoint"),
    "rewindable_off": lambda: Msg("rewindable", None, False), "rewindable_on": lambda: Msg("rewindable", None, True),
    "pause": lambda: Msg("pause", None, defer=False), "pause_defer": lambda: Msg("pause", None, defer=True),
    "open_run": lambda: Msg("open_run"), "close_run": lambda: Msg("close_run"), "sleep": lambda: Msg("sleep", None, 1),
    # concurrent runs (C14): a string key and a falsy key
    "open_run@a": lambda: Msg("open_run", run="a"), "close_run@a": lambda: Msg("close_run", run="a"),
    "open_run@0": lambda: Msg("open_run", run=0), "close_run@0": lambda: Msg("close_run", run=0),
}

# C14: what the engine does to the open runs, observed by spies on the real RunBundler methods
BUNDLER_STEPS = ("record_interruption", "suspend_monitors", "restore_monitors", "rewind", "reset_checkpoint_state", "clear_checkpoint", "clear_monitors")


def install_bundler_spies(blog):
    """log ('open', n, key) / ('close', n, key) / ('step', kind, n) for every RunBundler (n = order of creation); calls a bundler
    makes on itself (open_run / close_run / monitor / unmonitor reset their own checkpoint state) are not steps of the engine"""
    import inspect

    from bluesky.bundlers import RunBundler
    numbers = {}
    saved = {}

    def number(b):
        return numbers.setdefault(id(b), len(numbers) + 1)

    def wrap(name, orig):
        outer = name in ("open_run", "close_run", "monitor", "unmonitor")

        def before(self, a):
            depth = getattr(self, "_c14_depth", 0)
            if depth == 0 and name in BUNDLER_STEPS:
                blog.append(("step", name, number(self)))
            if name == "close_run" and depth == 0:
                m = a[0]
                blog.append(("close", number(self), m.run, "exit_status" in m.kwargs))
            if outer:
                self._c14_depth = depth + 1

        def after(self, a):
            if outer:
                self._c14_depth -= 1
            if name == "open_run" and self._c14_depth == 0:
                blog.append(("open", number(self), a[0].run))
        if inspect.iscoroutinefunction(orig):
            async def f(self, *a, **k):
                before(self, a)
                try:
                    return await orig(self, *a, **k)
                finally:
                    after(self, a)
        else:
            def f(self, *a, **k):
                before(self, a)
                try:
                    return orig(self, *a, **k)
                finally:
                    after(self, a)
        return f
    for name in BUNDLER_STEPS + ("open_run", "close_run", "monitor", "unmonitor"):
        saved[name] = RunBundler.__dict__[name]
        setattr(RunBundler, name, wrap(name, saved[name]))

    def restore():
        for name, orig in saved.items():
            setattr(RunBundler, name, orig)
    return restore


def concurrent_runs_ghost(blog):
    """mirror of contracts/C14.py:C14Runs over the native log: per pair of open runs the steps each got since the younger was opened
    must be equal whenever a blocking call has returned and when one of the two is closed"""
    bad, lag, key_of, is_open, closed = [], {}, {}, set(), {}

    def compare(pairs, where):
        for p in pairs:
            for k, v in lag[p].items():
                if v:
                    bad.append(f"{where}: run #{p[0]} got {abs(v)} {k} {'more' if v > 0 else 'fewer'} than run #{p[1]}")
    for e in blog:
        if e[0] == "open":
            for o in is_open:
                lag[(o, e[1])] = {}
            is_open.add(e[1])
            key_of[e[1]] = e[2]
        elif e[0] == "close":
            compare([p for p in lag if e[1] in p], "when a run was closed")
            for p in [p for p in lag if e[1] in p]:
                del lag[p]
            is_open.discard(e[1])
            closed[e[1]] = closed.get(e[1], 0) + 1
        elif e[0] == "step":
            for (o, y), d in lag.items():
                if e[2] == o:
                    d[e[1]] = d.get(e[1], 0) + 1
                elif e[2] == y:
                    d[e[1]] = d.get(e[1], 0) - 1
        elif e[0] == "returned":
            compare(list(lag), f"after {e[1]} returned (state {e[2]})")
    return bad, key_of, closed


def install_shim(ctl):
    class GatedEvent(threading.Event):
        def wait(self, timeout=None):
            if threading.current_thread() is not ctl.main_thread:
                return super().wait(timeout)
            ctl.main_blocked(self)
            super().wait()
            ctl.go.acquire()
            return True
    shim = types.SimpleNamespace(**{k: getattr(threading, k) for k in dir(threading) if not k.startswith("__")})
    shim.Event = GatedEvent
    bre.threading = shim


def run_native(decisions, msgs, opts=None, re_attrs=None, suspend_plans=None):
    del LEDGER[:]
    del _SIG.cbs[:]
    del _SIG_B.cbs[:]
    """-> dict(calls=[(name, outcome, state after, ...)], docs=[...], diverged=..., log=[...])"""
    ctl = Controller(decisions, msgs, opts)
    if suspend_plans is not None:
        ctl.suspend_plans = bool(suspend_plans)     # (given by the scenario; otherwise inferred from the decision labels)
    _CTL["ctl"] = ctl
    install_shim(ctl)
    ctl.main_thread = threading.Thread(target=ctl.main, daemon=True)
    ctl.main_thread.start()
    bre._ensure_event_loop_running.loop_to_thread[ctl.loop] = threading.current_thread()
    docs = []
    out = {"calls": [], "docs": docs}
    blog = out["bundler_log"] = []
    restore_bundler = install_bundler_spies(blog)

    def construct():
        RE = RunEngine({}, loop=ctl.loop, context_managers=[], during_task=DuringTask())
        RE.register_command("custom", ctl.custom)
        RE.register_command("custom_async", ctl.custom_async)
        def collect(name, doc):          # (one subscription only: the C06 oracle counts the dispatcher's tokens)
            docs.append((name, dict(doc), ctl.trace[-1][:2] == ("msg", "close_run") if ctl.trace else False))
            ctl.c40.append(("doc", name, dict(doc)))
        RE.subscribe(collect)
        for k_, v_ in (re_attrs or {}).items():
            setattr(RE, k_, v_)               # public configuration attributes of the scenario (e.g. record_interruptions)
        RE.msg_hook = ctl.on_msg
        RE.state_hook = ctl.on_state
        if "'record_interruptions': True" in str((opts or {}).get("re_attrs", "")):
            RE.record_interruptions = True       # scenario option re_attrs (public configuration attribute)
        ctl.RE = RE
        return RE
    ctl.submit(construct)
    r = ctl.schedule()
    if r[0] != "ok":
        raise RuntimeError(f"RunEngine construction failed natively: {r!r}")
    RE = ctl.RE

    def record(name, r):
        ctl.c40.append(("returned", name))
        open_runs = [k for k, b in RE._run_bundlers.items() if b.run_is_open]
        out["calls"].append({"call": name, "outcome": r[0], "exc": r[1] if r[0] == "raise" else None, "value": r[1] if r[0] == "ok" else None,
                             "state": str(RE.state), "resumable": RE._msg_cache is not None, "open_runs": len(open_runs), "plan": ctl.plan_done,
                             "interrupted": RE._interrupted, "deferred": bool(RE.deferred_pause_requested), "doomed": ctl.doomed,
                             "trace_len": len(ctl.trace), "uids": list(RE._run_start_uids), "monitors_live": ctl.monitors()[0]})
        blog.append(("returned", name, str(RE.state)))
        if str(RE.state) == "idle":
            ctl.doomed = None
            out["calls"][-1]["ledger"] = list(LEDGER)
            out["calls"][-1]["monitors_left"] = len(_SIG.cbs) + len(_SIG_B.cbs)
            out["calls"][-1]["tokens"] = len(RE.dispatcher._token_mapping)
    plan = ctl.plan()
    ctl.submit(lambda: RE(plan))
    r = ctl.schedule()
    record("__call__", r)
    while r[0] != "stuck" and str(RE.state) == "paused":
        wp = ctl.peek_decision("while paused")
        if wp is not None and wp[1] != "nothing":
            # another thread makes a request while the engine sits paused: the loop thread handles it while the main thread is idle
            ctl.env_action(wp[1])
            while ctl.loop.step():
                pass
            ctl.mon_trace.append(("state", str(RE.state)) + ctl.monitors())
            if str(RE.state) != "paused":
                break
        d = ctl.next_decision(["post-pause decision"])
        if d is None:
            break
        name = d[1]
        ctl.submit((lambda: RE.abort("because")) if name == "abort" else getattr(RE, name))
        r = ctl.schedule()
        record(name, r)
    # a second call on the same engine (scenarios with `second_call`): its plan takes the decisions labelled plan2#k
    if str(RE.state) == "idle" and any(lab.startswith("plan2") for lab, _ in ctl.decisions[ctl.pos:]):
        ctl.plan_done, ctl.doomed = None, None
        ctl.section_nr = False            # a new call starts resumable
        ctl.cleanup_entered = False
        plan2 = ctl.plan(prefix="plan2")
        ctl.submit(lambda: RE(plan2))
        r = ctl.schedule()
        record("__call__", r)
        out["calls"][-1]["second"] = True
        while r[0] != "stuck" and str(RE.state) == "paused":
            d = ctl.next_decision(["post-pause decision"])
            name = d[1] if d else "abort"
            ctl.submit((lambda: RE.abort("because")) if name == "abort" else getattr(RE, name))
            r = ctl.schedule()
            record(name, r)
    out["diverged"] = ctl.diverged
    out["trace"] = ctl.trace
    out["doomed_bad"] = ctl.doomed_bad
    out["c04_bad"] = ctl.c04_bad
    out["suspend_plans"] = ctl.suspend_plans
    out["tokens_at_second_start"] = getattr(ctl, "tokens_at_second_start", None) or 1
    out["c11_stop_bad"] = ctl.c11_stop_bad
    out["mon_trace"] = ctl.mon_trace
    out["record_interruptions"] = bool(getattr(RE, "record_interruptions", False))
    out["c40"] = ctl.c40
    out["re_attrs"] = dict(re_attrs or {})
    out["log"] = ctl.log
    out["plan_exc"] = getattr(ctl, "plan_exc", None)
    out["loop_errors"] = [str(c.get("exception")) for c in ctl.loop.errors]
    restore_bundler()
    with ctl.state_lock:
        ctl.cmds.append(None)
        ctl.state_lock.notify_all()
    return out


# ------------------------------------------------------------------------------------------------ native oracles
def _violations(obligation, res):
    art_obligation = obligation
    """re-statement of the obligations of contracts/run_mon.py over the native trace"""
    bad = []
    tag = obligation.split("#", 1)[-1]
    if "[concurrent runs:" in tag:
        # C14 (contracts/C14.py:C14Runs)
        uneven, key_of, closed = concurrent_runs_ghost(res.get("bundler_log", []))
        if tag.startswith("invariant[concurrent runs: whatever an interruption does"):
            return uneven
        if tag.startswith("ensures[concurrent runs: a close_run message"):
            for e in res.get("bundler_log", []):
                if e[0] == "close" and not e[3] and not (e[1] in key_of and key_of[e[1]] == e[2] and type(key_of[e[1]]) is type(e[2])):
                    bad.append(f"close_run for key {e[2]!r} closed run #{e[1]}, opened under key {key_of.get(e[1])!r}")
            return bad
        if tag.startswith("ensures[concurrent runs: when the engine is idle again"):
            last = res["calls"][-1] if res["calls"] else None
            if last is not None and last["state"] == "idle":
                starts = [d["uid"] for n, d, _ in res["docs"] if n == "start"]
                stops = [d["run_start"] for n, d, _ in res["docs"] if n == "stop"]
                for i, u in enumerate(starts):
                    if stops.count(u) != 1:
                        bad.append(f"run #{i + 1} has {stops.count(u)} stop documents although the engine is idle")
                if last["open_runs"]:
                    bad.append(f"{last['open_runs']} runs still open although the engine is idle")
            return bad
    for c in res["calls"]:
        st = c["state"]
        if tag.startswith("lifecycle[after a blocking call"):
            if c["outcome"] == "stuck" or st not in ("idle", "paused"):
                bad.append(f"{c['call']} ended with state {st!r} ({c['outcome']})")
        elif tag.startswith("lifecycle[_run itself never attempts"):
            if c["outcome"] == "raise" and type(c["exc"]).__name__ == "TransitionError" and c["call"] in ("__call__", "resume"):
                bad.append(f"{c['call']} raised {c['exc']!r}")
        elif tag.startswith("lifecycle[a blocking call is never left waiting"):
            if c["outcome"] == "stuck":
                bad.append(f"{c['call']} never returned (state {st!r})")
        elif tag.startswith("raises[RunEngineInterrupted: paused and resumable"):
            if c["call"] in ("__call__", "resume") and c["outcome"] == "raise" and isinstance(c["exc"], RunEngineInterrupted):
                terminated = any(k in ("abort", "stop", "halt") for _, k, *_ in [x for x in res["log"] if x[0] == "request"]) or \
                    any(x["call"] in ("abort", "stop", "halt") for x in res["calls"])
                if not ((st == "paused" and c["resumable"]) or (st == "idle" and c["open_runs"] == 0 and (terminated or c.get("doomed")))):
                    bad.append(f"{c['call']} raised RunEngineInterrupted with state {st!r}, resumable={c['resumable']}, plan {c['plan']}, "
                               f"terminated={terminated}")
        elif tag.startswith("ensures[returns normally only when"):
            if c["call"] in ("__call__", "resume") and c["outcome"] == "ok" and not (st == "idle" and c["plan"] == "returned"):
                bad.append(f"{c['call']} returned normally with state {st!r}, plan {c['plan']}")
    tr = res.get("trace", [])
    quiet = not any(x[0] == "request" and x[1] in ("pause", "abort", "stop", "halt") for x in res["log"]) and \
        not any(c["call"] in ("abort", "stop", "halt") for c in res["calls"])
    if tag.startswith("ensures[the value sent into the plan at a yield"):
        for x in tr:
            if x[0] == "send":
                _, choice, own, is_none, _err = x
                if choice in ("custom", "custom_async", "set_fallible") and not own:
                    bad.append(f"the plan received a value that no handler produced for its {choice!r} message (None: {is_none})")
                if choice in ("checkpoint", "clear_checkpoint", "null", "pause", "pause_defer", "sleep", "rewindable_off", "rewindable_on") and not is_none \
                        and not choice.startswith("rewindable"):
                    bad.append(f"the plan received a non-None response for {choice!r}")
    elif tag.startswith("ensures[a device error is thrown into the plan at the yield"):
        for x in tr:
            if x[0] == "send" and x[4] and not x[2]:
                bad.append(f"the handler of a {x[1]!r} message raised, but the plan received a normal response at that yield")
    elif tag.startswith("ensures[returns the uids of the runs it opened") or tag.startswith("ensures[the result carries"):
        starts = [d[1]["uid"] for d in res["docs"] if d[0] == "start"]
        for c in res["calls"]:
            if c["outcome"] == "ok" and c["state"] == "idle":
                v = c["value"]
                uids = list(getattr(v, "run_start_uids", v))
                if uids != starts:
                    bad.append(f"{c['call']} returned run uids {uids} but the runs opened were {starts}")
    elif tag.startswith("ensures[with a deferred pause pending the engine pauses at the checkpoint"):
        due = False
        for x in tr:
            if x[0] == "state" and x[1] == "paused":
                due = False
            if x[0] == "msg" and due and quiet:
                bad.append(f"message {x[1]!r} was executed after a checkpoint with a deferred pause pending, before the engine paused")
                due = False
            if x[0] == "yield" and x[1] == "checkpoint" and x[2]:
                due = True
    elif tag.startswith("ensures[a deferred pause does not take effect before a checkpoint is processed"):
        pending, last = False, None
        for x in tr:
            if x[0] == "yield":
                pending = pending or x[2]
            if x[0] == "msg":
                last = x[1]
            if x[0] == "state" and x[1] == "pausing":
                if pending and quiet and last != "checkpoint":
                    bad.append(f"with only a deferred pause requested the engine started pausing at a {last!r} message, not at a checkpoint")
                pending = False
    elif tag.startswith("ensures[resuming from a deferred pause replays nothing"):
        due = from_deferred = False
        for x in tr:
            if x[0] == "yield" and x[1] == "checkpoint" and x[2]:
                due = True
            if x[0] == "state" and x[1] == "paused":
                from_deferred, due = due, False
            if x[0] == "state" and x[1] == "running" and from_deferred:
                from_deferred = "resumed"
            if x[0] == "msg" and from_deferred == "resumed":
                if x[2]:
                    bad.append(f"message {x[1]!r} was replayed after resuming from a deferred pause")
                from_deferred = False
    elif tag.startswith("ensures[a deferred request with no later checkpoint stays pending"):
        pending = False
        for x in tr:
            if x[0] == "yield" and x[2]:
                pending = True
            if x[0] == "state" and x[1] == "pausing":
                pending = False
        for c in res["calls"]:
            if c["call"] in ("__call__", "resume") and c["outcome"] == "ok" and c["state"] == "idle" and pending and quiet and not c["deferred"]:
                bad.append("the plan completed with a deferred pause pending, but deferred_pause_requested reads False afterwards")
    elif tag.startswith("ensures[a run still open at the end is closed with the exit status"):
        reqs = [x[1] for x in res["log"] if x[0] == "request"] + [c["call"] for c in res["calls"] if c["call"] in ("abort", "stop", "halt")]
        allowed = {}
        if "stop" in reqs:
            allowed["success"] = "RE.stop()"
        if "abort" in reqs or "halt" in reqs:
            allowed["abort"] = "RE.abort() / RE.halt()"
        if any(c.get("doomed") for c in res["calls"]):
            allowed["abort"] = "pause / suspension in a non-resumable section"
        pe = res.get("plan_exc")
        control = isinstance(pe, (RequestAbort, FailedPause, asyncio.CancelledError)) or pe is RequestStop or pe is PlanHalt or isinstance(pe, GeneratorExit)
        last_plan = [c["plan"] for c in res["calls"] if c["plan"]][-1:] or [None]
        if last_plan[0] == "returned":
            allowed["success"] = "normal completion"
        if last_plan[0] == "raised" and pe is not None and not control:
            allowed["fail"] = "unhandled exception"
        for d in res["docs"]:
            if d[0] != "stop" or (len(d) > 2 and d[2]):
                continue          # (runs the plan closed itself carry the status current at that time)
            st, reason = d[1].get("exit_status"), d[1].get("reason", "")
            ok = st in allowed
            if ok and st == "fail":
                ok = reason == (str(pe.args[0]) if len(pe.args) == 1 else "")
            if ok and st == "abort" and set(reqs) & {"abort", "stop", "halt"} == {"abort"} and not any(c.get("doomed") for c in res["calls"]):
                ok = reason == "because"
            if not ok:
                bad.append(f"the engine closed a run with exit_status={st!r} reason={reason!r}; licensed: {allowed}, plan {last_plan[0]}, requests {reqs}")
    elif "monitor subscription" not in tag and (
            "_start_suspender#ensures" in art_obligation or "request_suspend#ensures" in art_obligation or "while the plan is suspended" in tag):
        only_susp = not any(x[0] == "request" and x[1] in ("pause", "pause_defer", "abort", "stop", "halt") for x in res["log"]) and \
            not any(c["call"] in ("abort", "stop", "halt") for c in res["calls"])
        # (mirror of contracts/run_mon3.py C11) one record per suspension in effect: [condition index, post-plan name, 'started' | 'released'],
        # in the order their _start_suspender was executed; the innermost one still waiting resumes first
        phase, released, post_done, records = None, set(), {}, []
        for x in tr:
            if x[0] == "state" and x[1] == "suspending" and phase is None:
                phase = "requested"
            elif x[0] == "aux-done":
                post_done[x[1]] = True
            elif x[0] == "released":
                released.add(x[1])
            elif x[0] == "in-effect" and phase is not None:
                records.append([x[1], x[2] if len(x) > 2 else None, "started"])
            elif x[0] == "msg":
                cmd, aux = x[1], (x[3] if len(x) > 3 else False)
                if phase == "requested":
                    if cmd != "_start_suspender" and only_susp and tag.startswith("ensures[once a suspension has taken effect"):
                        bad.append(f"after the suspension took effect the next message executed was {cmd!r}")
                    if cmd == "_start_suspender":
                        phase = "started"
                elif phase in ("started", "released"):
                    if cmd == "_start_suspender":
                        phase = "started"
                    elif cmd == "_resume_from_suspender":
                        waiting = [r for r in records if r[2] == "started"]
                        if waiting:
                            r = waiting[-1]
                            if r[0] not in released and only_susp and tag.startswith("ensures[the plan stays held"):
                                bad.append(f"the helper plan of suspension {r[0]} went on to '_resume_from_suspender' although its condition was not released")
                            r[2] = "released"
                        phase = "started" if any(r[2] == "started" for r in records) else "released"
                    elif isinstance(aux, str) and aux.startswith("post"):
                        r = next((r for r in records if r[1] == aux), None)
                        if r is not None and r[0] not in released and only_susp and tag.startswith("ensures[while suspended only"):
                            bad.append(f"a message of post-plan {aux} was executed before its suspension was released")
                    elif cmd == "wait_for" and not aux:
                        waiting = [r for r in records if r[2] == "started"]
                        if waiting and waiting[-1][1] and res.get("suspend_plans") and only_susp and tag.startswith("ensures[the suspender's pre-plan has run"):
                            pre = "pre" + waiting[-1][1][len("post"):]
                            if not post_done.get(pre):
                                bad.append(f"the engine started to wait for the condition before pre-plan {pre} had finished")
                    elif cmd == "rewindable" or aux:
                        pass
                    else:
                        # a message of the plan, or a replayed one
                        if only_susp:
                            if any(r[2] == "started" for r in records) and tag.startswith("ensures[while suspended only"):
                                bad.append(f"message {cmd!r} was executed while the plan was suspended")
                            held = [r[0] for r in records if r[0] not in released]
                            if held and tag.startswith("ensures[overlapping suspensions"):
                                bad.append(f"message {cmd!r} ({'replayed' if x[2] else 'of the plan'}) was executed while the condition of suspension(s) {held} "
                                           f"(of {[r[0] for r in records]} in effect) was not released")
                            if all(r[2] == "released" for r in records) and tag.startswith("ensures[after the release the post-plan"):
                                late = [r[1] for r in records if r[1] is not None and not post_done.get(r[1])]
                                if late:
                                    bad.append(f"message {cmd!r} was executed after the release before the post-plan(s) {late} had finished")
                        phase, records = None, []
        if tag.startswith("ensures[at suspension every device that was moved"):
            bad.extend(res.get("c11_stop_bad", []))
        if tag.startswith("ensures[the interruption is recorded in every open run"):
            # the 'interruptions' stream of the documents: one event with the suspender's justification per suspension that started inside an open run
            want = "beam dump" if res.get("suspend_plans") else "suspended"
            contents = [d[1]["data"]["interruption"] for d in res["docs"] if d[0] == "event" and "interruption" in (d[1].get("data") or {})]
            run_open, started_in_run = False, 0
            for x in tr:
                if x[0] == "msg" and x[1] == "open_run":
                    run_open = True
                elif x[0] == "msg" and x[1] == "close_run":
                    run_open = False
                elif x[0] == "msg" and x[1] == "_start_suspender" and run_open:
                    started_in_run += 1
            if res.get("record_interruptions") and started_in_run and contents.count(want) < started_in_run:
                bad.append(f"{started_in_run} suspension(s) started inside an open run with justification {want!r}; the interruptions recorded are {contents}")
    elif "holds a live monitor subscription" in tag or tag.startswith("ensures[once the engine runs again after a pause or a suspension every monitor"):
        # C41: the subscription ledger of the monitored fake signals, sampled at every message (msg_hook) and state change (state_hook)
        undisturbed = not any(x[0] == "request" and x[1] in ("abort", "stop", "halt") for x in res["log"]) and \
            not any(c["call"] in ("abort", "stop", "halt") for c in res["calls"]) and not res.get("failed_pause")
        susp = False
        internal = ("_start_suspender", "rewindable", "wait_for", "_resume_from_suspender")
        for x in res.get("mon_trace", []):
            live, held = x[-2], x[-1]
            if x[0] == "state":
                if x[1] in ("pausing", "paused"):
                    susp = False
                if x[1] == "paused" and live and "while the engine is paused" in tag:
                    bad.append(f"engine paused with {live} engine subscription(s) still on the monitored device(s)")
            else:
                _, cmd, aux, st = x[:4]
                if susp and cmd != "_start_suspender" and undisturbed and live and "while the plan is suspended" in tag:
                    bad.append(f"{live} engine subscription(s) on the monitored device(s) while the plan is suspended (seen at message {cmd!r})")
                if cmd == "_start_suspender":
                    susp = True
                elif cmd == "_resume_from_suspender":
                    susp = False
                elif cmd not in internal and not susp and st == "running" and live < held and "once the engine runs again" in tag:
                    bad.append(f"message {cmd!r} executed with the engine running but only {live} of {held} monitor(s) subscribed")
        if "while the engine is paused" in tag:
            for c in res["calls"]:
                if c["state"] == "paused" and c.get("monitors_live"):
                    bad.append(f"{c['call']} returned with the engine paused and {c['monitors_live']} engine subscription(s) on the monitored device(s)")
    elif tag.startswith("ensures[at idle every"):
        for c in res["calls"]:
            if c["state"] != "idle" or "ledger" not in c:
                continue
            led = c["ledger"]

            def last(dev, calls):
                xs = [x[1] for x in led if x[0] == dev and x[1] in calls]
                return xs[-1] if xs else None
            if "staged during the call has been unstaged" in tag and last("dev", ("stage", "unstage")) == "stage":
                bad.append(f"{c['call']} ended idle with the device left staged (ledger: {led})")
            if "told to stop after its last set" in tag and (last("mot", ("set", "stop")) == "set" or last("amot", ("set", "stop")) == "set"):
                bad.append(f"{c['call']} ended idle without a stop() after the motor's last set (ledger: {led})")
            if "kicked-off flyer has been collected" in tag and last("fly", ("kickoff", "collect")) == "kickoff":
                bad.append(f"{c['call']} ended idle with a kicked-off flyer that was neither collected nor attempted (ledger: {led})")
            if "monitor subscription installed by a run has been removed" in tag and c.get("monitors_left"):
                bad.append(f"{c['call']} ended idle with {c['monitors_left']} monitor callback(s) still subscribed")
    elif tag.startswith("ensures[per-call subscriptions are removed"):
        base = 1                    # the replay harness' own document collector
        seconds = [c for c in res["calls"] if c.get("second")]
        if seconds and res.get("tokens_at_second_start", base) > base:
            bad.append(f"{res['tokens_at_second_start'] - base} per-call subscription(s) of the previous call were still registered when the next plan started")
    elif tag.startswith("invariant[the cache holds exactly") or tag.startswith("requires[what is handed to the rewind"):
        bad.extend(res.get("c04_bad", []))
    elif "no checkpoint in effect never leaves the engine paused" in tag or "no further plan message is executed before the plan's cleanup" in tag:
        bad.extend(b for b in res.get("doomed_bad", []) if ("reached 'paused'" in b) == ("never leaves the engine paused" in tag))
    elif tag.startswith("ensures[the call ends idle with every run closed and the plan's cleanup code entered"):
        for c in res["calls"]:
            if c["call"] in ("__call__", "resume") and c.get("doomed") and not (c["state"] == "idle" and c["open_runs"] == 0):
                bad.append(f"{c['call']} ended with state {c['state']!r} and {c['open_runs']} open runs after a {c['doomed']} in a non-resumable section")
    elif tag.startswith(C40_TAGS):
        bad.extend(_c40_violations(tag, res))
    elif tag.startswith("raises[the interruption is reported: RunEngineInterrupted"):
        for c in res["calls"]:
            if c["call"] in ("__call__", "resume") and c.get("doomed") and c["state"] == "idle" and not (
                    c["outcome"] == "raise" and isinstance(c["exc"], (RunEngineInterrupted, RuntimeError, ValueError))):
                bad.append(f"{c['call']} -> {c['outcome']} although a {c['doomed']} took effect in a non-resumable section")
    return bad


C40_TAGS = ("ensures[every pause, resume and suspension that happens while a run is open is recorded",
            "ensures[a run holds no interruption record that no pause, resume or suspension accounts for",
            "ensures[a run records interruptions iff the engine's record_interruptions is set")


def _c40_violations(tag, res):
    """C40: the clause of replay/c40_clause.py over the documents of the real RunBundler (the events of each run's 'interruptions' stream),
    the state changes (state_hook) and the messages (msg_hook) of the native run, in the order they happened; in addition - it is the same
    statement, and here the real bundler is in the loop - each record carries the stream's next seq_num and the RunStop counts the
    interruptions that happened while the run was open."""
    from .c40_clause import EXTRA, MISSING, Ledger
    want = MISSING if tag.startswith(C40_TAGS[0]) else EXTRA if tag.startswith(C40_TAGS[1]) else "flag"
    recording = bool((res.get("re_attrs") or {}).get("record_interruptions"))
    led, found, flag = Ledger(), [], []
    streams, nrec, nhap, runs = {}, {}, {}, []
    for tok in res.get("c40", []):
        if tok[0] == "doc":
            name, doc = tok[1], tok[2]
            if name == "start":
                runs.append(doc["uid"])
                nrec[doc["uid"]], nhap[doc["uid"]] = 0, 0
                if recording:
                    led.open(doc["uid"])
            elif name == "descriptor" and doc.get("name") == "interruptions":
                streams[doc["uid"]] = doc["run_start"]
                if not recording:
                    flag.append(f"run {runs.index(doc['run_start']) + 1} has an 'interruptions' stream although record_interruptions is off")
            elif name == "event" and doc.get("descriptor") in streams:
                run = streams[doc["descriptor"]]
                nrec[run] += 1
                if recording:
                    found += led.record(run, str(doc["data"].get("interruption")))
                    if doc.get("seq_num") != nrec[run]:
                        found.append((EXTRA if doc.get("seq_num", 0) < nrec[run] else MISSING, run, doc["data"].get("interruption"),
                                      f"record number {nrec[run]} of the stream carries seq_num {doc.get('seq_num')}"))
            elif name == "stop":
                run = doc.get("run_start")
                if recording and run in led.bal:
                    found += led.close(run)
                    n = (doc.get("num_events") or {}).get("interruptions", 0)
                    if n != nhap.get(run):
                        found.append((EXTRA if n > nhap[run] else MISSING, run, "RunStop",
                                      f"num_events['interruptions'] == {n}, but {nhap[run]} interruption(s) happened while the run was open"))
                    if run not in streams.values():
                        flag.append(f"run {runs.index(run) + 1} has no 'interruptions' stream although record_interruptions is on")
        elif tok[0] == "state":
            new, old = tok[1], tok[2]
            what = "pause" if new == "pausing" else "resume" if (old, new) == ("paused", "running") else None
            if what:
                for r in led.bal:
                    nhap[r] += 1
                found += led.effect(what)
            elif new == "paused":
                found += led.progress("reached 'paused'")
        elif tok[0] == "msg":
            found += led.progress(f"executes the next message ({tok[1]})")
            if tok[1] == "_start_suspender":
                for r in led.bal:
                    nhap[r] += 1
                found += led.effect("suspended" if tok[2] is None else str(tok[2]))
        elif tok[0] == "returned":
            found += led.returned(tok[1])
    if want == "flag":
        return flag
    return [f"run {runs.index(b[1]) + 1 if b[1] in runs else b[1]}: {b[2]!r}: {b[3]}" for b in found if b[0] == want]


def replay(model, info, art):
    decisions = art.get("decisions") or []
    msgs = (info.get("scenario") or {}).get("msgs") or list(MESSAGES)
    res = run_native(decisions, msgs, (info.get("scenario") or {}).get("opts"), re_attrs=info.get("re_attrs"), suspend_plans=info.get("suspend_plans"))
    res["failed_pause"] = any(x[0] == "plan-throw" and x[2] == "FailedPause" for x in res["log"])
    obligation = art.get("obligation", "")
    if obligation.startswith("known-"):
        # re-confirmation of a listed known finding: judge by the obligation the finding is filed under
        import os
        kf = json.load(open(os.path.join(os.path.dirname(os.path.dirname(os.path.abspath(__file__))), "known_findings.json")))["findings"]
        obligation = next((f["obligation"] for f in kf if f["id"] == obligation[len("known-"):]), obligation)
    bad = _violations(obligation, res)
    summary = "; ".join(f"{c['call']} -> {c['outcome']}{'(' + type(c['exc']).__name__ + ')' if c['exc'] is not None else ''} state={c['state']}" for c in res["calls"])
    if bad:
        return "confirmed", "; ".join(bad) + f"  [native run: {summary}; diverged: {res['diverged']}]"
    if res["diverged"]:
        return "not-constructible", f"native run diverged from the model's schedule ({res['diverged']}) and did not violate the obligation: {summary}"
    return "contradicted", f"native run followed the schedule and satisfied the obligation: {summary}"


def run_history(history, suspend_plans=False):
    """C41: the *history* of a counter-example (what took effect in which order: plan messages, requests, pauses, suspensions, main-thread
    calls - recorded by the ghost monitor of contracts/run_mon4.py) re-played on a real RunEngine with its own loop thread.  Requests that
    were in flight together are made together (back to back, from a registered command that runs between two plan messages); requests made
    while the engine sat paused are made from the main thread while it sits paused.  The subscription ledger of the monitored fake signals is
    sampled at every message and state change, exactly as in the stepping replay.  -> a result dict for `_violations`"""
    del LEDGER[:]
    del _SIG.cbs[:]
    del _SIG_B.cbs[:]
    items, main, pending = [], [], []
    for tok in history:
        tok = tuple(tok)
        if tok[0] == "plan" and tok[1] in MESSAGES:
            items.append(("m", tok[1]))
        elif tok[0] == "req":
            if tok[2] == "main-idle":
                if tok[1] not in ("abort", "stop", "halt"):
                    main.append(("req", tok[1]))
            else:
                pending.append(tok[1])
        elif tok[0] in ("state", "suspension-starts") and pending and tok[1:] != ("running",):
            items.append(("inject", tuple(pending)))
            pending = []
        elif tok[0] == "call" and tok[1] != "__call__":
            main.append(("call", tok[1]))
    if pending:
        items.append(("inject", tuple(pending)))
    RE = RunEngine({}, context_managers=[])
    mon_trace, log, calls, aux, done, releases = [], [], [], set(), set(), []

    def monitors():
        return (len(_SIG.cbs) + len(_SIG_B.cbs), sum(len(b._monitor_params) for b in RE._run_bundlers.values() if b.run_is_open))

    def on_msg(msg):
        mon_trace.append(("msg", msg.command, id(msg) in aux, str(RE.state)) + monitors())
        if msg.command == "wait_for":
            for rel in releases:          # the suspender's condition is released a little after the engine has started to wait for it
                RE.loop.call_later(0.1, rel.set)
    RE.msg_hook = on_msg
    RE.state_hook = lambda new, old: mon_trace.append(("state", str(new)) + monitors())
    keep = []

    def aux_plan():
        m = Msg("null")
        aux.add(id(m))
        keep.append(m)
        yield m

    def request(kind, in_loop=False):
        log.append(("request", kind, str(RE.state)))
        if kind in ("pause", "pause_defer") and in_loop:
            RE.loop.create_task(RE._request_pause_coro(kind == "pause_defer"))    # (request_pause itself blocks until the loop has handled it)
        elif kind in ("pause", "pause_defer"):
            RE.request_pause(kind == "pause_defer")
        elif kind == "suspend":
            rel = asyncio.Event()
            releases.append(rel)
            if suspend_plans:
                RE.request_suspend(rel.wait, pre_plan=aux_plan(), post_plan=aux_plan(), justification="beam dump")
            else:
                RE.request_suspend(rel.wait)
        else:
            threading.Thread(target=lambda: _swallow(lambda: RE.abort("because") if kind == "abort" else getattr(RE, kind)()), daemon=True).start()

    async def inject(msg):
        if id(msg) in done:
            return                      # (replayed after a rewind: the requests are made once)
        done.add(id(msg))
        for kind in msg.args[0]:
            request(kind, in_loop=True)
        await asyncio.sleep(0.05)      # the requests are handled by the loop while this command is in progress
    RE.register_command("inject", inject)

    def plan():
        for what, x in items:
            m = MESSAGES[x]() if what == "m" else Msg("inject", None, x)
            keep.append(m)
            yield m

    def blocking(name, f):
        try:
            r = ("ok", f())
        except BaseException as e:     # noqa
            r = ("raise", e)
        st = str(RE.state)
        calls.append({"call": name, "outcome": r[0], "exc": r[1] if r[0] == "raise" else None, "state": st, "monitors_live": monitors()[0],
                      "monitors_left": monitors()[0], "ledger": []})
        mon_trace.append(("state", st) + monitors())
    blocking("__call__", lambda: RE(plan()))
    while str(RE.state) == "paused":
        if not main:
            blocking("abort", lambda: RE.abort("end of the replayed history"))
            calls.pop()
            break
        what, x = main.pop(0)
        if what == "req":
            request(x)
            time.sleep(0.2)              # the loop thread handles the request while the main thread is idle
            mon_trace.append(("state", str(RE.state)) + monitors())
        else:
            blocking(x, (lambda: RE.abort("because")) if x == "abort" else getattr(RE, x))
    return {"calls": calls, "log": log, "mon_trace": mon_trace, "trace": [], "docs": [], "diverged": None,
            "failed_pause": False, "script": [x for _, x in items], "main": main}


def _swallow(f):
    try:
        f()
    except BaseException:     # noqa
        pass


def replay_monitors(model, info, art):
    """C41 (T2 obligations): first the counter-example's schedule step by step (`replay`); the real handlers of 'monitor' / 'open_run' take
    more loop steps than their contracts in the model, so a request that the model lands right after such a message natively lands inside
    it - when the stepping replay does not show the violation, the counter-example's history is re-played with the requests landing at
    message boundaries (`run_history`) and judged by the same oracle"""
    verdict, detail = replay(model, info, art)
    if verdict == "confirmed" or not info.get("history"):
        return verdict, detail
    opts = ((info.get("scenario") or {}).get("opts") or {})
    res = run_history(info["history"], suspend_plans=str(opts.get("suspend_plans")) == "True")
    bad = _violations(art.get("obligation", ""), res)
    summary = "; ".join(f"{c['call']} -> {c['outcome']} state={c['state']}" for c in res["calls"])
    if bad:
        return "confirmed", "; ".join(sorted(set(bad))) + f"  [history re-played at message boundaries: plan {res['script']}; {summary}]  [stepping replay: {detail}]"
    return verdict, detail + f"  [history re-played at message boundaries: plan {res['script']}; {summary}: obligation satisfied]"


def failed_status(model, info, art):
    """C02 / _status_object_completed: a real RunEngine, a status object that reports failure with a device exception"""
    import asyncio as aio_
    decisions = dict((a, b) for a, b in (art.get("decisions") or []))
    success = str(decisions.get("status.success", "False")) == "True"
    pardoned = str(decisions.get("pardon_failures.is_set()", "False")) == "True"
    from bluesky.utils import FailedStatus
    RE = RunEngine({}, context_managers=[])
    dev_exc = ValueError("device says no")

    class St:
        pass
    st = St()
    st.success = success
    st.exception = lambda timeout=None: dev_exc
    loop = RE.loop
    out = {}

    async def go():
        fut = loop.create_future()
        pardon = aio_.Event()
        if pardoned:
            pardon.set()
        RE._exception = None
        RE._status_object_completed(st, fut, pardon)
        out["fut_exc"] = fut.exception() if fut.done() and not fut.cancelled() else None
        out["fut_done"] = fut.done()
        out["stored"] = RE._exception
    aio_.run_coroutine_threadsafe(go(), loop).result(5)
    e = out["stored"]
    if not success and not pardoned:
        ok = isinstance(e, FailedStatus) and e.args == (st,) and e.__cause__ is dev_exc and out["fut_exc"] is e
    else:
        ok = e is None and out["fut_done"] and out["fut_exc"] is None
    return ("contradicted" if ok else "confirmed"), f"success={success} pardoned={pardoned} stored={e!r} cause={getattr(e, '__cause__', None)!r} future exception={out['fut_exc']!r}"


def wait_groups(model, info, art):
    """C12 / _wait: a real RunEngine whose groups A = {a1, a2} and W = {w1} hold pending futures; the environment decisions of the
    counter-example complete / fail them in that order while RE._wait(Msg('wait', group='A'[, watch=('W',)])) runs"""
    import asyncio as aio_
    watch = bool(info.get("watch"))
    RE = RunEngine({}, context_managers=[])
    loop = RE.loop
    order = [b for a, b in (art.get("decisions") or []) if a == "env" and b != "step"]
    out = {}

    async def go():
        futs = {n: loop.create_future() for n in ("a1", "a2", "w1")}
        fac = {n: (lambda f=f: f) for n, f in futs.items()}
        RE._groups.clear()
        RE._status_objs.clear()
        RE._groups["A"] = {fac["a1"], fac["a2"]}
        RE._groups["W"] = {fac["w1"]}
        wset = RE._groups["W"]
        wbefore = set(wset)

        class St:
            done = True
        RE._status_objs["A"] = {St()}
        RE._status_objs["W"] = {St()}
        kw = {"group": "A"}
        if watch:
            kw["watch"] = ("W",)
        t = loop.create_task(RE._wait(Msg("wait", **kw)))
        await aio_.sleep(0)
        for lab in order + ["a1-ok", "a2-ok", "w1-ok"]:
            n, how = lab.split("-")
            f = futs.get(n)
            if f is None or f.done():
                continue
            if how == "ok":
                f.set_result(None)
            else:
                f.set_exception(ValueError("failed status"))
                f.exception()
            await aio_.sleep(0)
            await aio_.sleep(0)
            if t.done():
                break
        try:
            out["ret"] = await aio_.wait_for(t, 5)
            out["raised"] = None
        except BaseException as e:   # noqa
            out["raised"] = e
        out["W_ok"] = RE._groups.get("W") is wset and set(wset) == wbefore and "W" in RE._status_objs
        out["A_gone"] = "A" not in RE._groups and "A" not in RE._status_objs
        out["a_done"] = futs["a1"].done() and futs["a2"].done()
    aio_.run_coroutine_threadsafe(go(), loop).result(30)
    tag = art.get("obligation", "").split("#", 1)[-1]
    bad = []
    if tag.startswith("frame[waiting on one group leaves every other group") and not out["W_ok"]:
        bad.append("after the wait on group A the group W is no longer registered with its statuses")
    if tag.startswith("ensures[returns done only when every status") and out["raised"] is None and not (out["ret"] is True and out["a_done"] and out["A_gone"]):
        bad.append(f"_wait returned {out.get('ret')!r} with a1/a2 done={out['a_done']} and group A consumed={out['A_gone']}")
    if bad:
        return "confirmed", "; ".join(bad)
    return "contradicted", f"watch={watch} order={order}: W intact={out['W_ok']}, returned={out.get('ret')!r}, raised={out['raised']!r}"


# ------------------------------------------------------------------------------------------------ C04 (T1 obligations)
def uncacheable(model, info, art):
    want = ["pause", "subscribe", "unsubscribe", "stage", "unstage", "monitor", "unmonitor", "open_run", "close_run",
            "install_suspender", "remove_suspender", "_start_suspender"]
    got = list(RunEngine._UNCACHEABLE_COMMANDS)
    return ("contradicted" if sorted(got) == sorted(want) else "confirmed"), f"_UNCACHEABLE_COMMANDS = {got}"


def implicit_checkpoint(model, info, art):
    """C04 H: run [two cacheable messages, <the handler's message>, one more message] on a real RunEngine and look at the message cache
    when the last message arrives (msg_hook runs before the message is cached): an (implicit) checkpoint must have emptied it; after
    clear_checkpoint only an explicit checkpoint may re-create it"""
    handler, kind = info.get("handler", "_stage"), info.get("cache", "messages")
    RE = RunEngine({}, context_managers=[])
    snap = {}
    marker = Msg("null", None, "marker")

    resets = []
    box = {}

    def hook(msg):
        if msg is box.get("m"):
            # from here on count the run bundlers' reset_checkpoint_state calls: "every open run's checkpoint state is reset" - the sequence
            # counter snapshot a later rewind restores - is part of the clause, an emptied message cache alone is not the checkpoint
            for key, rb in RE._run_bundlers.items():
                def counted(orig=rb.reset_checkpoint_state, key=key):
                    resets.append(key)
                    return orig()
                rb.reset_checkpoint_state = counted
        if msg is marker:
            c = RE._msg_cache
            snap["cache"] = None if c is None else [m.command for m in c]
            snap["open"] = list(RE._run_bundlers)
            snap["resets"] = list(resets)          # (the engine's clean-up after the plan closes the runs, which resets them once more)
    RE.msg_hook = hook

    def plan():
        yield Msg("open_run")
        yield Msg("open_run", run="b")
        if handler == "_unmonitor":
            yield Msg("monitor", _SIG)
        token = None
        if handler == "_unsubscribe":
            token = yield Msg("subscribe", None, _callback, "all")
        if handler == "_rewindable" and info.get("before") is False:
            yield Msg("rewindable", None, False)
        if kind == "none":
            yield Msg("clear_checkpoint")
        elif kind == "messages":
            yield Msg("null")
            yield Msg("null")
        else:
            yield Msg("checkpoint")
        m = {"_stage": Msg("stage", _DEV), "_unstage": Msg("unstage", _DEV), "_monitor": Msg("monitor", _SIG), "_unmonitor": Msg("unmonitor", _SIG),
             "_subscribe": Msg("subscribe", None, _callback, "all"), "_unsubscribe": Msg("unsubscribe", token=token),
             "_close_run": Msg("close_run"), "_checkpoint": Msg("checkpoint"), "_clear_checkpoint": Msg("clear_checkpoint"),
             "_rewindable": Msg("rewindable", None, info.get("requested"))}[handler]
        box["m"] = m
        yield m
        yield marker
    try:
        RE(plan())
    except Exception as e:   # noqa
        return "not-constructible", f"native plan failed: {e!r}"
    got = snap.get("cache", "no snapshot")
    if handler == "_clear_checkpoint":
        ok = got is None
    elif handler == "_rewindable":
        toggled = info.get("requested") is not None and info.get("requested") != info.get("before")
        ok = (got is None) if kind == "none" else ((got == []) if toggled else (got is not None and len(got) >= 2))
    elif kind == "none":
        ok = (got == []) if handler == "_checkpoint" else (got is None)
    else:
        ok = got == []
    # an (implicit) checkpoint reaches every run that is still open: each bundler's reset_checkpoint_state was called
    must_reset = kind != "none" and handler != "_clear_checkpoint" and \
        (handler != "_rewindable" or (info.get("requested") is not None and info.get("requested") != info.get("before")))
    resets = snap.get("resets", [])
    not_reset = [k for k in snap.get("open", []) if k not in resets] if must_reset else []
    if not_reset:
        ok = False
    return ("contradicted" if ok else "confirmed"), (f"{handler} with cache {kind}: the cache when the next message arrives is {got}; open runs whose "
                                                     f"checkpoint state was reset by it: {sorted(set(map(str, resets)))}, not reset: {not_reset}")


def rewind_plan(model, info, art):
    import collections
    n = int(info.get("n", 2))
    RE = RunEngine({}, context_managers=[])
    msgs = [Msg("null", None, i) for i in range(n)]
    RE._msg_cache = collections.deque(msgs)
    gen = RE._rewind()
    got = list(gen)
    ok = len(got) == n and all(a is b for a, b in zip(got, msgs)) and isinstance(RE._msg_cache, collections.deque) and len(RE._msg_cache) == 0
    return ("contradicted" if ok else "confirmed"), f"_rewind over {n} cached messages replays {len(got)} (identical: {all(a is b for a, b in zip(got, msgs))}), cache afterwards {list(RE._msg_cache) if RE._msg_cache is not None else None}"


if __name__ == "__main__":
    import sys
    art = json.load(open(sys.argv[1]))
    print(replay(art.get("model"), art.get("info") or {}, art))
