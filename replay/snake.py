"""native replay adapters for C26 (snake_cyclers): the same clauses as contracts/C26.py, evaluated on the real function
(real numpy, real cycler) under /venv/bin/python.  Also the bounded sweep (`python -m replay.snake sweep quick|thorough`)."""
import itertools
import json
import os
import random
import sys

if __name__ == "__main__":
    sys.path.insert(0, os.path.dirname(os.path.dirname(os.path.abspath(__file__))))
    _repo = os.environ.get("VERIF_REPO", "/repo")
    if _repo != "/repo":
        sys.path.insert(0, os.path.join(_repo, "src"))

from cycler import cycler

from replay.common import num, boolean

MAX_POINTS = 2_000_000


# ------------------------------------------------------------------------------------------------ the formula F1 (from the statement)
def pos(t, Ls, sn, i):
    R = 1
    for L in Ls[i + 1:]:
        R *= L
    d = (t // R) % Ls[i]
    s = t // (Ls[i] * R)
    return Ls[i] - 1 - d if (sn[i] and s % 2 == 1) else d


def value(i, j, idx):
    return 100000 * (2 * i + j + 1) + idx


def build(Ls, nkeys):
    cys = []
    for i, L in enumerate(Ls):
        c = None
        for j in range(nkeys[i]):
            cj = cycler(f"m{i}_{j}", [value(i, j, x) for x in range(L)])
            c = cj if c is None else c + cj
        cys.append(c)
    return cys


def run(Ls, sn, nkeys):
    from bluesky.utils import snake_cyclers
    return snake_cyclers(build(Ls, nkeys), list(sn))


def clause_f1(Ls, sn, nkeys, which, only_t=None, result=None):
    """-> None if the clause `which` ('exc' | 'N' | 'keys' | 'pos') holds on this input, else a description"""
    N = 1
    for L in Ls:
        N *= L
    try:
        res = run(Ls, sn, nkeys) if result is None else result
        cols = res.by_key()
    except Exception as ex:  # noqa   (every clause presupposes a result)
        return f"Ls={Ls} snake={list(sn)}: raised {type(ex).__name__}: {ex}"
    if which == "exc":
        return None
    if which == "N":
        return None if len(res) == N else f"len(result) = {len(res)}, N = {N}"
    want = {f"m{i}_{j}" for i in range(len(Ls)) for j in range(nkeys[i])}
    if which == "keys":
        return None if set(cols) == want else f"keys {sorted(cols)} != {sorted(want)}"
    for i in range(len(Ls)):
        for j in range(nkeys[i]):
            col = cols.get(f"m{i}_{j}")
            if col is None:
                continue
            for t in (range(min(N, len(col))) if only_t is None else [only_t]):
                if t >= len(col):
                    return f"step {t} missing for axis {i} key {j}"
                w = value(i, j, pos(t, Ls, sn, i))
                if col[t] != w:
                    return f"Ls={Ls} snake={list(sn)} step {t}: axis {i} key {j} has {col[t]!r}, formula gives {w!r} (index {pos(t, Ls, sn, i)})"
    return None


def _which(obligation):
    if "no-unlicensed-exception" in obligation:
        return "exc"
    if "N = L_0" in obligation:
        return "N"
    if "exactly the keys" in obligation:
        return "keys"
    return "pos"


def f1(model, info, art):
    n, nkeys = info["n"], info["nkeys"]
    Ls = [max(1, int(num(model.get(f"L{i}"), 1))) for i in range(n)]
    sn = [boolean(model.get(f"snake{i}")) for i in range(n)]
    which = _which(art.get("obligation", ""))
    N = 1
    for L in Ls:
        N *= L
    tried = ""
    if N <= MAX_POINTS:
        bad = clause_f1(Ls, sn, nkeys, which)
        if bad:
            return "confirmed", bad
        tried = f"model input Ls={Ls} snake={sn} satisfies the clause natively; "
        return "contradicted", tried
    # the model's grid is too large to build: look for a small input with the same flags that violates the same clause
    top = 4 if n <= 3 else 3
    for small in itertools.product(range(1, top + 1), repeat=n):
        bad = clause_f1(list(small), sn, nkeys, which)
        if bad:
            return "confirmed", f"(model grid {Ls} too large; same flags, small grid) {bad}"
    return "not-constructible", f"model grid {Ls} has {N} points; no small grid with flags {sn} violates the clause"


def mismatch(model, info, art):
    from bluesky.utils import snake_cyclers
    nc, nb = info["nc"], info["nb"]
    try:
        snake_cyclers(build([2] * nc, [1] * nc), [False] * nb)
    except ValueError as ex:
        return "contradicted", f"ValueError: {ex}"
    except Exception as ex:  # noqa
        return "confirmed", f"raised {type(ex).__name__} instead of ValueError: {ex}"
    return "confirmed", f"{nc} cyclers with {nb} flags accepted"


def callers(model, info, art):
    """outer_list_product / outer_product against their clause: the result is snake_cyclers of the documented per-axis
    cyclers and flags (compared point by point on a small grid, every flag vector)"""
    import numpy as np
    import ophyd.sim
    from bluesky import plan_patterns as pp
    from bluesky.utils import snake_cyclers
    hw = ophyd.sim.hw()
    n = info["n"]
    motors = [hw.motor1, hw.motor2, hw.motor3][:n]
    sizes = [2, 3, 2][:n]
    if info["fn"] == "outer_list_product":
        lists = [[10 * (i + 1) + x for x in range(sizes[i])] for i in range(n)]
        mode, want = info["mode"], info.get("want")
        snake_axes = {"False": False, "True": True}.get(mode)
        if mode == "list":
            snake_axes = [m for m, b in zip(motors, want) if b]
        args = [x for pair in zip(motors, lists) for x in pair]
        try:
            got = list(pp.outer_list_product(args, snake_axes))
        except Exception as ex:  # noqa
            return "confirmed", f"raised {type(ex).__name__}: {ex}"
        exp = list(snake_cyclers([cycler(m, l) for m, l in zip(motors, lists)], want))
        return ("contradicted", "same trajectory") if got == exp else ("confirmed", f"{got[:6]} != {exp[:6]}")
    for flags in itertools.product((False, True), repeat=n - 1):
        flags = [False] + list(flags)
        args = []
        for i in range(n):
            args += [motors[i], float(i), float(i) + 1.5, sizes[i]] + ([flags[i]] if i else [])
        try:
            got = list(pp.outer_product(args))
        except Exception as ex:  # noqa
            return "confirmed", f"raised {type(ex).__name__}: {ex}"
        exp = list(snake_cyclers([cycler(motors[i], np.linspace(float(i), float(i) + 1.5, num=sizes[i], endpoint=True)) for i in range(n)], flags))
        if got != exp:
            return "confirmed", f"flags {flags}: {got[:6]} != {exp[:6]}"
    return "contradicted", "same trajectories"


def formula(model, info, art):
    """F2/F3 are statements about the formula only: evaluate the clause in plain integer arithmetic on the model"""
    n = info["n"]
    Ls = [max(1, int(num(model.get(f"L{i}"), 1))) for i in range(n)]
    sn = [boolean(model.get(f"snake{i}")) for i in range(n)]
    N = 1
    for L in Ls:
        N *= L
    P = lambda t: [pos(t, Ls, sn, i) for i in range(n)]
    cl = info.get("clause")
    if cl == "range+injective":
        t, u = int(num(model.get("t"), 0)), int(num(model.get("u"), 0))
        if not all(0 <= p < L for p, L in zip(P(t), Ls)):
            return "confirmed", f"pos({t}) = {P(t)} outside the grid {Ls}"
        if t != u and P(t) == P(u):
            return "confirmed", f"pos({t}) = pos({u}) = {P(t)}"
        return "contradicted", "clause holds on the model"
    if cl == "surjective":
        if N > MAX_POINTS:
            return "not-constructible", "grid too large"
        p = [int(num(model.get(f"p{i}"), 0)) for i in range(n)]
        if any(P(t) == p for t in range(N)):
            return "contradicted", "the grid point is visited"
        return "confirmed", f"grid point {p} of {Ls} is never visited"
    t = int(num(model.get("t"), 0))
    a, b = P(t), P(t + 1)
    bad = step_clause(a, b, Ls, sn)
    return ("confirmed" if bad else "contradicted"), f"pos({t}) = {a}, pos({t + 1}) = {b}: {bad or 'continuous'}"


def step_clause(a, b, Ls, sn):
    """F3 for one pair of consecutive points a -> b (index vectors); None if it holds"""
    n = len(Ls)
    moved = [i for i in range(n) if a[i] != b[i]]
    if not moved:
        return f"no axis moves {a} -> {b}"
    k = min(moved)
    if abs(a[k] - b[k]) != 1:
        return f"slowest changing axis {k} jumps {a} -> {b}"
    for i in moved:
        if i != k and sn[i]:
            return f"snaked axis {i} jumps although a slower axis moved {a} -> {b}"
        if i != k and not (a[i] == Ls[i] - 1 and b[i] == 0):
            return f"unsnaked axis {i} does not restart {a} -> {b}"
    if all(sn[1:]) and len(moved) != 1:
        return f"fully snaked grid moves {len(moved)} axes {a} -> {b}"
    return None


# ------------------------------------------------------------------------------------------------ bounded sweep
def statement_clauses(Ls, sn, nkeys, result=None):
    """the clauses of the statement evaluated directly on the real output (not through the formula)"""
    res = run(Ls, sn, nkeys) if result is None else result
    cols = res.by_key()
    n = len(Ls)
    N = len(res)
    pts = [tuple(int(cols[f"m{i}_0"][t]) - value(i, 0, 0) for i in range(n)) for t in range(N)]
    full = set(itertools.product(*[range(L) for L in Ls]))
    if len(pts) != len(full) or set(pts) != full:
        return f"Ls={Ls} snake={list(sn)}: not a permutation of the full product"
    for t in range(N - 1):
        bad = step_clause(pts[t], pts[t + 1], Ls, sn)
        if bad:
            return f"Ls={Ls} snake={list(sn)} step {t}: {bad}"
    return None


def sweep(tier, seed=0):
    scopes = {"quick": [(1, 6), (2, 5), (3, 4), (4, 3)], "thorough": [(1, 8), (2, 6), (3, 5), (4, 4), (5, 3)]}[tier]
    grids = 0
    failures = []
    for n, top in scopes:
        for Ls in itertools.product(range(1, top + 1), repeat=n):
            for sn in itertools.product((False, True), repeat=n):
                grids += 1
                nkeys = [1] * n
                try:
                    res = run(list(Ls), sn, nkeys)
                except Exception as ex:  # noqa
                    failures.append({"Ls": list(Ls), "snake": list(sn), "clause": "exc", "detail": f"raised {type(ex).__name__}: {ex}"})
                    continue
                for which in ("N", "keys", "pos"):
                    bad = clause_f1(list(Ls), sn, nkeys, which, result=res)
                    if bad:
                        failures.append({"Ls": list(Ls), "snake": list(sn), "clause": which, "detail": bad})
                        break
                else:
                    bad = statement_clauses(list(Ls), sn, nkeys, result=res)
                    if bad:
                        failures.append({"Ls": list(Ls), "snake": list(sn), "clause": "statement", "detail": bad})
                if len(failures) >= 5:
                    return grids, failures
    rnd = random.Random(seed)
    for _ in range(100 if tier == "quick" else 600):
        n = rnd.randint(2, 5)
        Ls = [rnd.randint(1, 9) for _ in range(n)]
        N = 1
        for L in Ls:
            N *= L
        if N > 20000:
            continue
        sn = [rnd.random() < 0.6 for _ in range(n)]
        nkeys = [rnd.randint(1, 2) for _ in range(n)]
        grids += 1
        bad = clause_f1(Ls, sn, nkeys, "pos") or clause_f1(Ls, sn, nkeys, "N") or statement_clauses(Ls, sn, nkeys)
        if bad:
            failures.append({"Ls": Ls, "snake": sn, "clause": "random", "detail": bad})
            if len(failures) >= 5:
                break
    return grids, failures


def sweep_replay(model, info, art):
    f = (info.get("failures") or [None])[0]
    if not f:
        return "not-constructible", "no failing grid recorded"
    Ls, sn = f["Ls"], f["snake"]
    bad = None
    for which in ("exc", "N", "keys", "pos"):
        bad = bad or clause_f1(Ls, sn, [1] * len(Ls), which)
    bad = bad or statement_clauses(Ls, sn, [1] * len(Ls))
    return ("confirmed", bad) if bad else ("contradicted", f"grid {Ls} {sn} satisfies every clause")


if __name__ == "__main__":
    if len(sys.argv) >= 2 and sys.argv[1] == "sweep":
        g, fl = sweep(sys.argv[2] if len(sys.argv) > 2 else "quick", int(os.environ.get("VERIF_SEED", "0") or 0))
        print("SWEEP " + json.dumps({"grids": g, "failures": fl}))
