"""Generic native replay of a bisimulation counterexample (DESIGN 2.5 'Counterexamples are scripts').

The artefact carries the driver script, the outcomes chosen for the abstract sub-generators and a build recipe
(cfg).  Scripted generators reproduce those outcomes for the real wrapper and for the reference (the same
reference source text the proof used, executed by CPython); the two runs are compared step by step."""
import importlib
import os

ROOT = os.path.dirname(os.path.dirname(os.path.abspath(__file__)))


class Tok:
    def __init__(self, name):
        self.name = name

    def __repr__(self):
        return f"<{self.name}>"


class FalsyTok(Tok):
    def __bool__(self):
        return False


class ScriptedError(Exception):
    pass


class HaltLike(GeneratorExit):
    pass


class Shared:
    """outcome tokens shared by the two sides, keyed like the oracle"""

    def __init__(self, table, msg_factory=None):
        self.table = table
        self.tokens = {}
        self.msg_factory = msg_factory

    def token(self, key, kind):
        if key not in self.tokens:
            if kind == "yield" and self.msg_factory:
                self.tokens[key] = self.msg_factory(key)
            elif kind == "raise":
                self.tokens[key] = ScriptedError(key)
            else:
                self.tokens[key] = Tok(f"{kind}:{key}")
        return self.tokens[key]


class ScriptedGen:
    """a generator-protocol object answering from the recorded oracle table"""

    def __init__(self, name, shared, log):
        self.name, self.shared, self.log = name, shared, log
        self.k = 0
        self.started = False
        self.done = False
        self.last = None

    def __iter__(self):
        return self

    def __next__(self):
        return self.send(None)

    def _step(self, kind_in, payload):
        if not self.started and not self.done and kind_in != "send":
            self.done = True          # never started: no code runs, not logged (same rule as the oracle)
            if kind_in == "throw":
                raise payload
            return None
        self.log.append((self.name, self.k, kind_in, payload))
        if self.done:
            if kind_in == "send":
                raise StopIteration
            if kind_in == "throw":
                raise payload
            return None
        key = f"{self.name}#{self.k}"
        self.k += 1
        kind = self.shared.table.get(key)
        if kind is None:
            kind = "raise_same" if kind_in != "send" else "return"
        if kind_in == "send" and not self.started and payload is not None:
            raise TypeError("can't send non-None value to a just-started generator")
        self.started = True
        if kind == "yield":
            self.last = self.shared.token(key, "yield")
            return self.last
        if kind == "reyield":
            return self.last
        self.done = True
        if kind == "return":
            if kind_in == "close":
                return None
            raise StopIteration(self.shared.token(key, "return"))
        if kind == "raise":
            raise self.shared.token(key, "raise")
        if kind_in == "throw":
            raise payload
        return None

    def send(self, v):
        return self._step("send", v)

    def throw(self, e, *a):
        if isinstance(e, type):
            e = e()
        return self._step("throw", e)

    def close(self):
        self._step("close", None)


class ScriptedBaseError(BaseException):
    """a BaseException that is neither an Exception nor a GeneratorExit (like KeyboardInterrupt / asyncio.CancelledError)"""


def drive(gen, script, sent, thrown):
    """-> list of outcomes"""
    outs = []
    for i, step in enumerate(script):
        try:
            if step.startswith("send"):
                if step == "send(None)":
                    v = None
                elif step == "send(falsy)":
                    v = sent.setdefault(i, FalsyTok(f"falsy{i}"))
                elif step in ("send(location)", "send(reading)"):
                    val = thrown.get("numeric", 0.0)
                    last = outs[-1][1]
                    v = {"setpoint": val, "readback": val} if step == "send(location)" else {last.obj.name: {"value": val, "timestamp": 0}}
                elif step == "send([device])":
                    v = [outs[-1][1].obj]
                else:
                    v = sent.setdefault(i, Tok(f"v{i}"))
                r = gen.send(v)
                outs.append(("yield", r))
            elif step.startswith("throw(GeneratorExit"):
                r = gen.throw(thrown.setdefault(i, HaltLike()))
                outs.append(("yield", r))
            elif step.startswith("throw(SomeNonExceptionBaseException"):
                r = gen.throw(thrown.setdefault(i, ScriptedBaseError(f"thrown{i}")))
                outs.append(("yield", r))
            elif step in ("throw(RequestAbort)", "throw(RequestStop)"):
                import bluesky.utils as _bu
                r = gen.throw(thrown.setdefault(i, getattr(_bu, step[6:-1])(f"thrown{i}")))
                outs.append(("yield", r))
            elif step.startswith("throw"):
                r = gen.throw(thrown.setdefault(i, thrown.get("cls", ScriptedError)(f"thrown{i}")))
                outs.append(("yield", r))
            else:
                gen.close()
                outs.append(("closed", None))
                break
        except StopIteration as s:
            outs.append(("return", s.value))
            break
        except BaseException as e:
            outs.append(("raise", e))
            break
    return outs


def same(a, b):
    if a is b:
        return True
    if isinstance(a, BaseException) and isinstance(b, BaseException):
        return type(a) is type(b) and not isinstance(a, (ScriptedError, HaltLike, ScriptedBaseError))
    try:
        return bool(a == b)
    except Exception:
        return False


def same_payload(a, b):
    if isinstance(a, tuple) and isinstance(b, tuple):
        return len(a) == len(b) and all(same_payload(x, y) for x, y in zip(a, b))
    return same(a, b) or (isinstance(a, BaseException) and a is b)


def script(model, info, art, extra_ns=None, msg_factory=None):
    cfg = info.get("cfg")
    if not cfg:
        return "not-constructible", "no build recipe in the artefact"
    mod = importlib.import_module(cfg["module"])
    ref_ns = {}
    exec(compile(open(os.path.join(ROOT, cfg["ref_file"])).read(), cfg["ref_file"], "exec"), ref_ns)
    shared = Shared(info.get("oracle", {}), msg_factory)
    logs = {"impl": [], "ref": []}

    def objects(side):
        ns = {}
        for name, kind in cfg["objects"].items():
            if kind == "gen":
                ns[name] = ScriptedGen(name, shared, logs[side])
            elif kind == "fn":
                g = ScriptedGen(name, shared, logs[side])

                def f(*a, _g=g, _n=name, **k):
                    logs[side].append((_n + "()", 0, "call", a))
                    return _g
                ns[name] = f
            elif kind == "tok":
                ns[name] = shared.tokens.setdefault("tok:" + name, Tok(name))
            elif kind == "none":
                ns[name] = None
            else:
                ns[name] = kind[1] if isinstance(kind, list) else kind
        return ns
    ns_i = dict(vars(mod))
    ns_i.update(extra_ns or {})
    ns_i.update(objects("impl"))
    ns_r = dict(ref_ns)
    ns_r.update(extra_ns or {})
    ns_r.update(objects("ref"))
    sent, thrown = {}, {}
    if "numeric" in cfg:
        thrown["numeric"] = cfg["numeric"]
    if cfg.get("throw_cls"):
        m, c = cfg["throw_cls"].split(":")
        thrown["cls"] = getattr(importlib.import_module(m), c)
    try:
        gi = eval(cfg["impl_build"], ns_i)
        gr = eval(cfg["ref_build"], ns_r)
    except Exception as e:
        return "not-constructible", f"build failed: {type(e).__name__}: {e}"
    oi = drive(gi, info["script"], sent, thrown)
    orr = drive(gr, info["script"], sent, thrown)
    diff = None
    for k, (x, y) in enumerate(zip(oi, orr)):
        if x[0] != y[0] or not same(x[1], y[1]):
            diff = f"step {k} ({info['script'][k]}): real wrapper -> {x[0]} {x[1]!r}; reference -> {y[0]} {y[1]!r}"
            break
    if diff is None and len(oi) != len(orr):
        diff = f"real wrapper produced {len(oi)} outcomes, reference {len(orr)}"
    if diff is None:
        li, lr = logs["impl"], logs["ref"]
        if len(li) != len(lr) or any(x[:3] != y[:3] or not same_payload(x[3], y[3]) for x, y in zip(li, lr)):
            diff = f"calls on sub-generators differ: real {li[-5:]} vs reference {lr[-5:]}"
    detail = f"script {info['script']} with sub-generator outcomes {info.get('oracle')}: " + (diff or "identical behaviour")
    return ("confirmed" if diff else "contradicted"), detail
