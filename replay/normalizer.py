"""replay adapters for C35: run the real RunNormalizer / _ConditionalBackup natively on the scenario of a counter-model and
evaluate the *same clause* (contracts/refs/c35.py is executed here with the native algebra)."""
import os

import bluesky.callbacks.tiled_writer as tw
from event_model import DocumentNames

from .common import num

ROOT = os.path.dirname(os.path.dirname(os.path.abspath(__file__)))


def _ref():
    ns = {"Eq": lambda a, b: isinstance(a, bool) == isinstance(b, bool) and a == b,     # True is not 1 (as in the proof's sorts)
          "And": lambda *c: all(c), "ite": lambda c, a, b: a if c else b}
    p = os.path.join(ROOT, "contracts/refs/c35.py")
    exec(compile(open(p).read(), p, "exec"), ns)
    import types
    return types.SimpleNamespace(**ns)


class _Validators:
    """stands in for event_model.schema_validators: records the call; accepts (or fails on demand)"""

    def __init__(self, log, fail=None):
        self.log, self.fail = log, fail

    def __getitem__(self, name):
        outer = self

        class V:
            def validate(self, doc):
                outer.log.append(("validate", name.name, doc))
                if outer.fail is not None:
                    raise outer.fail
        return V()


def _sym(model):
    def sym(name, kind):
        v = model.get(name)
        if v is None:
            return 1 if kind == "int" else 0.5
        x = num(v)
        return int(x) if kind == "int" else float(x)
    return sym


def _normalizer(R, desc, log, patch_args, sym):
    def patch(d):
        patch_args.append(d)
        return dict(d, patched=True)
    patches = {m: patch for m in desc.get("patches", [])}
    n = tw.RunNormalizer(patches=patches or None, spec_to_mimetype=desc.get("spec_to_mimetype"))
    n.subscribe(lambda name, doc: log.append(("process", name, doc)))
    for attr, val in desc.get("pre", {}).items():
        v = R.decode(val, sym)
        if attr == "_next_frame_index":
            getattr(n, attr).update(v)
        else:
            setattr(n, attr, v)
    mt = dict(tw.MIMETYPE_LOOKUP)
    mt.update(desc.get("spec_to_mimetype") or {})
    return n, {"patches": list(patches), "mimetypes": mt}


def step(model, info, art):
    R = _ref()
    desc, upto, clause = info["scenario"], info["step"], info["clause"]
    log, patch_args = [], []
    saved = tw.schema_validators
    tw.schema_validators = _Validators(log)
    try:
        n, cfg = _normalizer(R, desc, log, patch_args, _sym(model))
        received, history = [], []

        def call(m, doc):
            try:
                getattr(n, m)(doc)
            except Exception as e:
                return type(e).__name__
            return None
        for idx, (m, d) in enumerate(desc["calls"][:upto + 1]):
            doc = R.decode(d, _sym(model))
            rec = R.run_call(lambda a: getattr(n, a), call, m, doc, cfg, received, log, patch_args)
            history.append(rec)
    finally:
        tw.schema_validators = saved
    m = desc["calls"][upto][0]
    if clause == "lemma":
        ok = R.run_lemma(history, desc["lemma"]["referenced"], desc["lemma"]["events"])
    else:
        c = R.all_clauses(rec)
        if clause not in c:
            return "not-constructible", f"clause {clause} is not evaluated when the call raises {rec['exc']} (expected {rec['exp_exc']})"
        ok = c[clause]
    got = R.emitted_docs(rec["log"])
    detail = (f"call #{upto} {m}({rec['snap']!r}) -> raised {rec['exc']} (reference: {rec['exp_exc']}); emitted {got!r} (reference: {rec['exp_out']!r}); "
              f"argument afterwards {rec['doc']!r}; earlier documents changed by this call (now, before): "
              f"{[(d, s) for d, s in rec['earlier'] if d != s]!r}; clause '{clause}' evaluates to {bool(ok)}")
    return ("contradicted" if ok else "confirmed"), detail[:3500]


def emit(model, info, art):
    R = _ref()
    log = []
    err = ValueError("ValidationError")
    saved = tw.schema_validators
    tw.schema_validators = _Validators(log, None if info["valid"] else err)
    try:
        n = tw.RunNormalizer()
        n.subscribe(lambda name, doc: log.append(("process", name, doc)))
        doc = {"uid": "u1", "time": 1.5, "nested": {"a": [3]}}
        snap = R.freeze(doc)
        name = info["name"]
        raised = None
        try:
            n.emit(DocumentNames[name], doc)
        except Exception as e:
            raised = e
    finally:
        tw.schema_validators = saved
    if info["valid"]:
        ok = raised is None and len(log) == 2 and log[0][0] == "validate" and log[1][0] == "process" and log[0][1] == log[1][1] == name \
            and log[0][2] is doc and log[1][2] is doc
    else:
        ok = raised is err and len(log) == 1 and log[0][:2] == ("validate", name) and log[0][2] is doc
    ok = ok and doc == snap
    return ("contradicted" if ok else "confirmed"), f"emit({name}) valid={info['valid']}: log={[(k, nm) for k, nm, _ in log]}, raised={raised!r}"


def backup(model, info, art):
    """drive a real _ConditionalBackup with n documents, the primary failing first at document `fail_at` (None: never), the
    listed backups failing on every call; evaluate the invariant after every call"""
    n_docs = max(0, min(int(num(model.get("n"), 2)), 40)) + 1
    fail_at = info.get("fail_at")          # 'last' | 'never' | 'first'
    fails = {"last": {n_docs - 1}, "never": set(), "first": set(range(n_docs)), "already": set(range(n_docs))}[fail_at]
    nb = info.get("backups", 1)
    bad = set(info.get("failing_backups", []))
    calls = []

    def primary(name, doc):
        if primary.i in fails:
            raise RuntimeError("primary failed")

    def mk(j):
        def b(name, doc):
            calls.append((j, name, doc))
            if j in bad:
                raise RuntimeError("backup failed")
        return b
    cb = tw._ConditionalBackup(primary, [mk(j) for j in range(nb)])
    received = []
    ok = not cb._push_to_backup and len(cb._buffer) == 0
    for i in range(n_docs):
        primary.i = i
        d = {"uid": f"doc{i}"}
        received.append(("event" if i else "start", d))
        cb(*received[-1])
        want = [(j, nm, dd) for nm, dd in received for j in range(nb)]
        if cb._push_to_backup:
            ok = ok and len(cb._buffer) == 0 and len(calls) == len(want) and all(a[0] == b[0] and a[1] == b[1] and a[2] is b[2] for a, b in zip(calls, want))
        else:
            ok = ok and not calls and len(cb._buffer) == len(received) and all(a[0] == b[0] and a[1] is b[1] for a, b in zip(cb._buffer, received))
        ok = ok and cb._push_to_backup == bool(fails & set(range(i + 1)))
    return ("contradicted" if ok else "confirmed"), (f"{n_docs} documents, primary fails at {sorted(fails)}, {nb} backups ({sorted(bad)} failing): "
                                                     f"backups saw {[(j, d['uid']) for j, _, d in calls]}, buffer {len(cb._buffer)}, pushed {cb._push_to_backup}")
