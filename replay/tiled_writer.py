"""native replay for C46: the witness of a failed step clause is rebuilt on a real _RunWriter writing into a real in-process
Tiled catalog (tiled.catalog.in_memory + Context.from_app, real pyarrow, real consolidators); the pre-state named by the witness
is reached by driving the real methods (plus direct assignment of the caches, which are plain lists / dicts), the step is run,
and the *same clause* is evaluated on what the catalog and the writer then hold."""
import copy
import math
import tempfile
import warnings

from .common import get

warnings.filterwarnings("ignore")


# ------------------------------------------------------------------------------------------------ real client
class Env:
    def __enter__(self):
        import tiled.catalog
        import tiled.server.app
        import tiled.client as tc
        self.dir = tempfile.mkdtemp(prefix="c46-")
        cat = tiled.catalog.in_memory(writable_storage={"filesystem": self.dir, "sql": f"duckdb:///{self.dir}/t.db"}, readable_storage=[self.dir])
        self.ctxm = tc.Context.from_app(tiled.server.app.build_app(cat))
        ctx = self.ctxm.__enter__()
        self.client = tc.from_context(ctx).include_data_sources()
        return self

    def __exit__(self, *a):
        try:
            self.ctxm.__exit__(*a)
        except Exception:
            pass


def clamp(v, lo, hi):
    return max(lo, min(hi, v))


def mi(model, name, default=0, lo=-10**6, hi=10**6):
    return clamp(get(model, name, "int", default), lo, hi)


def mr(model, name, default=0.0):
    v = get(model, name, "real", default)
    return v if math.isfinite(v) and abs(v) < 1e300 else default


def fit(n_model, batch_model, nmax=25):
    """keep the truth value of n+1 >= batch while making n small"""
    rel = n_model + 1 >= batch_model
    n = clamp(n_model, 0, nmax)
    if (n + 1 >= batch_model) == rel and abs(batch_model) < 10**6:
        return n, batch_model
    return n, (n + 1 if rel else n + 2)


def desc(uid, name, keys, run="run-1", t=1.0, ext=()):
    dk = {k: {"dtype": "number", "shape": [], "source": f"src-{k}"} for k in keys if k not in ext}
    for k in ext:
        dk[k] = {"dtype": "array", "shape": [1, 2, 3], "source": "det", "external": "STREAM:", "dtype_numpy": "<f8"}
    return {"uid": uid, "name": name, "run_start": run, "time": t, "data_keys": dk,
            "configuration": {"dev": {"data": {"gain": 1.5}, "timestamps": {"gain": 2.5}, "data_keys": {}}}, "object_keys": {"dev": list(keys)}, "hints": {}}


def new_writer(env, batch, keys_a=("x", "y"), ext=(), tags=None):
    from bluesky.callbacks.tiled_writer import _RunWriter
    w = _RunWriter(env.client, batch_size=batch)
    d = {"uid": "run-1", "time": 1.0}
    w.start(d)
    w.descriptor(desc("desc-a", "a", keys_a, ext=ext))
    w.descriptor(desc("desc-b", "b", ("v",)))
    return w


def mk_row(i, keys):
    r = {"seq_num": 1000 + i, "time": 50.0 + i}
    for j, k in enumerate(keys):
        r[k] = 100.0 * (j + 1) + i
    for j, k in enumerate(keys):
        r.setdefault("ts_" + k, 7000.0 + 10 * j + i)
    return r


def table_rows(env, stream, run="run-1"):
    if run not in env.client or stream not in env.client[run]:
        return None
    node = env.client[run][stream].base
    if "internal" not in node:
        return None
    df = node["internal"].read()
    return [{k: (v.item() if hasattr(v, "item") else v) for k, v in rec.items()} for rec in df.to_dict("records")]


def same_rows(a, b):
    if a is None or b is None:
        return a is b
    if len(a) != len(b):
        return False
    for x, y in zip(a, b):
        if set(x) != set(y):
            return False
        for k in x:
            if not (x[k] == y[k] or (isinstance(x[k], float) and isinstance(y[k], float) and math.isnan(x[k]) and math.isnan(y[k]))):
                return False
    return True


def event_of(model, desc_uid, keys, tag=""):
    o = sum(ord(c) for c in tag) % 89        # values the model leaves open differ from event to event
    return {"uid": f"ev{tag}", "descriptor": desc_uid, "seq_num": mi(model, f"seq_num{tag}", 1 + o), "time": mr(model, f"t_event{tag}", 3.0 + o),
            "data": {k: mr(model, f"data_{k}{tag}", 11.0 + i + 100 * o) for i, k in enumerate(keys)},
            "timestamps": {k: mr(model, f"ts_{k}{tag}", 21.0 + i + 100 * o) for i, k in enumerate(keys)}}


def row_clause(row, doc):
    """seq_num, time, every data value under its key, every timestamp under ts_<key>"""
    if row is None:
        return False
    want = {"seq_num", "time"} | set(doc["data"]) | {"ts_" + k for k in doc["timestamps"]}
    return (set(row) == want and row["seq_num"] == doc["seq_num"] and row["time"] == doc["time"] and all(row[k] == v for k, v in doc["data"].items())
            and all(row["ts_" + k] == v for k, v in doc["timestamps"].items()))


KEYSETS = {"plain": ("x", "y"), "ts-collision": ("x", "ts_x")}


def internal_state(env, model, info, keys, ext=()):
    """-> writer, table0 (rows or None), cache0 (rows)"""
    n_model = get(model, "n_cached", "int", 1) if info.get("cached", info.get("cached_a")) == "non-empty" else 0
    n, batch = fit(n_model, get(model, "batch_size", "int", 0))
    w = new_writer(env, batch, keys, ext=ext)
    keys = tuple(k for k in keys if k not in ext)       # event rows carry no value for external keys
    table0 = None
    exists = info.get("exists", info.get("exists_a"))
    if exists:
        nt = clamp(get(model, "n_table", "int", 1), 0, 5)
        seed = [mk_row(-10 - i, keys) for i in range(max(nt, 1))]
        w._write_internal_data(seed, desc_node=w._desc_nodes["a"])
        table0 = seed
    cached = info.get("cached", info.get("cached_a"))
    cache0 = [mk_row(i, keys) for i in range(n)]
    if cached == "non-empty":
        w._internal_data_cache["a"] = list(cache0)
    elif cached == "empty":
        w._internal_data_cache["a"] = []
    return w, table0, cache0, batch


# ------------------------------------------------------------------------------------------------ scenarios
def sc_start(env, model, info):
    from bluesky.callbacks.tiled_writer import _RunWriter
    w = _RunWriter(env.client, batch_size=mi(model, "batch_size", 3))
    doc = {"uid": "run-" + "".join(c for c in get(model, "run_uid", "str", "u") if c.isalnum())[:20], "time": mr(model, "t_start", 1.0), "scan_id": mi(model, "scan_id", 1)}
    if info.get("tags"):
        doc["tiled_access_tags"] = ["tagA"]
    before = copy.deepcopy(doc)
    try:
        w.start(doc)
    except Exception as e:
        if info.get("tags"):
            return None, f"server refused access tags ({type(e).__name__}); not constructible without an access policy"
        raise
    keys = list(env.client)
    ok = keys == [doc["uid"]] and dict(env.client[doc["uid"]].metadata) == {"start": {k: v for k, v in before.items() if k != "tiled_access_tags"}} and doc == before
    return ok, f"catalog keys {keys}, metadata {dict(env.client[keys[0]].metadata) if keys else None}, doc after {doc}"


def sc_descriptor(env, model, info):
    from bluesky.callbacks.tiled_writer import _RunWriter
    case = info["case"]
    w = _RunWriter(env.client, batch_size=mi(model, "batch_size", 3))
    if case == "no start":
        try:
            w.descriptor(desc("desc-a", "a", ("x",)))
        except RuntimeError:
            return list(env.client) == [], "RuntimeError raised"
        return False, "no RuntimeError"
    w.start({"uid": "run-1", "time": 1.0})
    w.descriptor(desc("desc-b", "b", ("y",)))
    d1 = desc("desc-a", "a", ("x",), t=mr(model, "t_desc1", 4.0))
    if case != "first":
        w.descriptor(d1)
    doc = d1 if case == "first" else desc("desc-a2", "a", ("x", "z"), t=mr(model, "t_desc2", 5.0))
    if case == "second without configuration":
        doc["configuration"] = {}
    w.descriptor(doc)
    run = env.client["run-1"]
    md = dict(run["a"].metadata)
    base = {k: v for k, v in d1.items() if k not in ("name", "object_keys", "run_start")}
    if case == "first":
        ok = sorted(run) == ["a", "b"] and md == base
    else:
        upd = {"uid": "desc-a2", "time": doc["time"]}
        if case == "second":
            upd["configuration"] = doc["configuration"]
        ok = sorted(run) == ["a", "b"] and md == dict(base, _config_updates=[upd])
    ok = ok and w._desc_nodes[doc["uid"]] is w._desc_nodes["a"] and set(w.data_keys) == ({"x", "y"} if case == "first" else {"x", "y", "z"})
    return ok, f"streams {sorted(run)}, metadata of 'a' {md}"


def sc_write_internal(env, model, info):
    keys = ("x",)
    w = new_writer(env, mi(model, "batch_size", 3), keys)
    table0 = None
    if info["exists"]:
        table0 = [{"seq_num": -1, "time": 0.5, "x": 9.0}]
        w._write_internal_data(list(table0), desc_node=w._desc_nodes["a"])
    n = {"abstract": clamp(get(model, "n_rows", "int", 3), 1, 20), "one row": 1, "two rows": 2}[info["shape"]]
    rows = [{"seq_num": mi(model, f"s{i + 1}", i), "time": mr(model, f"t{i + 1}", 1.0 + i), "x": mr(model, f"x{i + 1}", 2.0 + i)} for i in range(n)]
    arg = copy.deepcopy(rows)
    w._write_internal_data(arg, desc_node=w._desc_nodes["a"])
    got = table_rows(env, "a")
    tmeta = dict(env.client["run-1"]["a"].base["internal"].metadata)
    ok = same_rows(got, (table0 or []) + rows) and arg == rows and table_rows(env, "b") is None
    if not info["exists"]:
        ok = ok and tmeta == {"x": w.data_keys["x"]}
    return ok, f"table {got}, table metadata {tmeta}"


def sc_event(env, model, info):
    keys = KEYSETS[info.get("keyset", "plain")]
    w, table0, cache0, batch = internal_state(env, model, info, keys)
    cb = [mk_row(77, ("v",))]
    w._internal_data_cache["b"] = cb
    via = info.get("via", "desc-a")
    if via == "desc-a2":
        w.descriptor(desc("desc-a2", "a", keys))
    doc = event_of(model, via, keys)
    before = copy.deepcopy(doc)
    w.event(doc)
    table1 = table_rows(env, "a")
    cache1 = list(w._internal_data_cache["a"])
    allrows = (table1 or []) + cache1
    row = allrows[-1] if allrows else None
    c_row = row_clause(row, before)
    if len(cache0) + 1 >= batch:
        c_eff = same_rows(table1, (table0 or []) + cache0 + [row]) and cache1 == []
    else:
        c_eff = same_rows(table1, table0) and same_rows(cache1, cache0 + [row])
    c_frame = doc == before and w._internal_data_cache["b"] is cb and len(cb) == 1 and table_rows(env, "b") is None
    return (c_row and c_eff and c_frame), (f"batch_size={batch}, {len(cache0)} cached rows, table existed={table0 is not None}: row clause {c_row} (row {row}, event {before}), "
                                            f"flush/cache clause {c_eff} (table {None if table1 is None else len(table1)} rows, cache {len(cache1)} rows), frame {c_frame}")


def sc_event_page(env, model, info):
    import event_model
    keys = ("x", "y")
    w, table0, cache0, batch = internal_state(env, model, info, keys)
    e1, e2 = event_of(model, "desc-a", keys, "1"), event_of(model, "desc-a", keys, "2")
    for e in (e1, e2):
        e["filled"] = {}
    page = event_model.pack_event_page(e1, e2)
    w.event_page(page)
    allrows = (table_rows(env, "a") or []) + list(w._internal_data_cache["a"])
    ok = len(allrows) == len(table0 or []) + len(cache0) + 2 and same_rows(allrows[:-2], (table0 or []) + cache0) and row_clause(allrows[-2], e1) and row_clause(allrows[-1], e2)
    return ok, f"rows after the page: {allrows[-3:]}"


def sres(env, uid, validate=False):
    p = {"dataset": "/entry/data"}
    if validate:
        p["_validate"] = True
    return {"uid": uid, "data_key": "img", "mimetype": "application/x-hdf5", "uri": f"file://localhost{env.dir}/{uid}.h5", "parameters": p}


def sdatum(model, sres_uid, desc_uid, tag, default=(0, 1)):
    a = mi(model, f"idx_start_{tag}", default[0], -10**4, 10**4)
    b = mi(model, f"idx_stop_{tag}", default[1], -10**4, 10**4)
    s = mi(model, f"seq_start_{tag}", a + 1, -10**4, 10**4)
    b = max(a, b)
    return {"uid": f"sd-{tag}", "stream_resource": sres_uid, "descriptor": desc_uid, "indices": {"start": a, "stop": b}, "seq_nums": {"start": s, "stop": s + (b - a)}}


def width(d):
    return d["indices"]["stop"] - d["indices"]["start"] if d else 0


def known(env, w, model, uid="sres-1", validate=False):
    """the resource's node exists and its consolidator holds rows0 rows, registered"""
    rows0 = clamp(get(model, "rows0", "int", 2), 0, 500)
    w.stream_resource(sres(env, uid, validate))
    w._write_external_data({"uid": "seed", "stream_resource": uid, "descriptor": "desc-a", "indices": {"start": 0, "stop": rows0}, "seq_nums": {"start": 1, "stop": rows0 + 1}})
    return rows0


def reg_len(env):
    node = env.client["run-1"]["a"].base
    return node["img"].shape[0] if "img" in node else None


def sc_get_sres_node(env, model, info):
    case = info["case"]
    w = new_writer(env, mi(model, "batch_size", 3), ("x", "img"), ext=("img",))
    if case in ("known", "further"):
        known(env, w, model)
        node0, cons0 = w._sres_nodes["sres-1"], w._consolidators["sres-1"]
    if case in ("first", "no descriptor"):
        w.stream_resource(sres(env, "sres-1"))
    if case == "further":
        w.stream_resource(sres(env, "sres-2"))
    uid = {"known": "sres-1", "first": "sres-1", "further": "sres-2", "unknown": "sres-9", "no descriptor": "sres-1"}[case]
    children0 = sorted(env.client["run-1"]["a"].base)
    try:
        node, cons = w.get_sres_node(uid, None if case in ("no descriptor", "known") else "desc-a")
    except RuntimeError:
        return case in ("unknown", "no descriptor") and sorted(env.client["run-1"]["a"].base) == children0 and not w._sres_nodes, "RuntimeError"
    if case in ("unknown", "no descriptor"):
        return False, "no RuntimeError"
    children = sorted(env.client["run-1"]["a"].base)
    if case == "first":
        ok = children == ["img"] and cons.data_key == "img" and set(w._sres_nodes) == {"sres-1", "a_img"} and w._sres_nodes["a_img"] is node and w._consolidators["a_img"] is cons and reg_len(env) == 0
    else:
        ok = (node is node0 and cons is cons0 and children == ["img"] and all(w._sres_nodes[k] is node0 and w._consolidators[k] is cons0 for k in w._sres_nodes)
              and set(w._sres_nodes) == ({"sres-1", "a_img"} if case == "known" else {"sres-1", "sres-2", "a_img"}) and set(w._consolidators) == set(w._sres_nodes))
    return ok, f"children of stream 'a': {children}, keys {sorted(w._sres_nodes)}"


def sc_write_external(env, model, info):
    w = new_writer(env, mi(model, "batch_size", 3), ("x", "img"), ext=("img",))
    rows0 = known(env, w, model) if info["known"] else (w.stream_resource(sres(env, "sres-1")), 0)[1]
    d = sdatum(model, "sres-1", "desc-a", "d")
    w._write_external_data(d)
    got_c, got_r = w._consolidators["sres-1"]._num_rows, reg_len(env)
    return got_c == rows0 + width(d) and got_r == rows0 + width(d), f"rows0={rows0}, datum width {width(d)}: consolidator rows {got_c}, registered length {got_r}"


def sc_stream_datum(env, model, info):
    batch = mi(model, "batch_size", 3)
    w = new_writer(env, batch, ("x", "img"), ext=("img",))
    rows0 = known(env, w, model) if info["known"] else (w.stream_resource(sres(env, "sres-1")), 0)[1]
    if info.get("other_desc"):
        w.descriptor(desc("desc-a2", "a", ("x", "img"), ext=("img",)))
    c = sdatum(model, "sres-1", "desc-a2" if info.get("other_desc") else "desc-a", "c") if info["has_cached"] else None
    if c:
        w._external_data_cache["sres-1"] = c
    other = sdatum(model, "sres-7", "desc-a", "o")
    w._external_data_cache["sres-7"] = other
    d = sdatum(model, "sres-1", "desc-a", "d")
    snap = copy.deepcopy((d, c, other))
    w.stream_datum(d)
    cons = w._consolidators.get("sres-1")
    rows1 = cons._num_rows if cons else 0
    cache1 = w._external_data_cache.get("sres-1")
    reg = reg_len(env)
    c_cons = rows1 + width(cache1) == rows0 + width(c) + width(d) and (reg == rows1 if (rows1 != rows0 or info["known"]) else reg is None)
    c_imm = not (batch <= 1) or (rows1 == rows0 + width(d) and cache1 is c)
    if cache1 is None or cache1 is d or cache1 is c:
        c_shape = True if cache1 is None else ((not c) if cache1 is d else rows1 == rows0 + width(d))
    else:
        pairs = [(c, d), (d, c)]
        c_shape = bool(c) and rows1 == rows0 and c["descriptor"] == d["descriptor"] and any(
            p[0]["indices"]["stop"] == p[1]["indices"]["start"] and cache1["indices"] == {"start": p[0]["indices"]["start"], "stop": p[1]["indices"]["stop"]}
            and cache1["seq_nums"] == {"start": p[0]["seq_nums"]["start"], "stop": p[1]["seq_nums"]["stop"]} for p in pairs)
    c_frame = w._external_data_cache.get("sres-7") is other and (d, c, other) == snap
    return (c_cons and c_imm and c_shape and c_frame), (f"batch_size={batch}, rows0={rows0}, cached {c and c['indices']}, datum {d['indices']}: consolidator rows {rows1}, cache' "
                                                        f"{cache1 and cache1['indices']}, registered {reg}; conservation {c_cons}, immediate {c_imm}, shape {c_shape}, frame {c_frame}")


def sc_stop(env, model, info):
    ext = info["ext"]
    keys = ("x", "img")
    w, table_a0, cache_a0, batch = internal_state(env, model, info, keys, ext=("img",))
    cache_b0 = [mk_row(5, ("v",))] if info["cached_b"] == "one row" else []
    w._internal_data_cache["b"] = copy.deepcopy(cache_b0)
    table_b0 = None
    if info["cached_b"] == "empty":
        table_b0 = [mk_row(-3, ("v",))]
        w._write_internal_data(copy.deepcopy(table_b0), desc_node=w._desc_nodes["b"])
    rows0, cached = 0, []
    if ext in ("cached, node known", "two resources of one key", "validate", "validate fails"):
        rows0 = known(env, w, model, validate=ext.startswith("validate"))
    if ext == "cached, node unknown":
        w.stream_resource(sres(env, "sres-1"))
    if ext != "none":
        cached.append(sdatum(model, "sres-1", "desc-a", "c1", (rows0, rows0 + 2)))
        w._external_data_cache["sres-1"] = cached[-1]
    if ext == "two resources of one key":
        w.stream_resource(sres(env, "sres-2"))
        cached.append(sdatum(model, "sres-2", "desc-a", "c2", (rows0 + 2, rows0 + 3)))
        w._external_data_cache["sres-2"] = cached[-1]
    doc = {"uid": "stop-1", "run_start": "run-1", "time": mr(model, "t_stop", 9.0), "exit_status": "success", "reason": "", "num_events": {"a": mi(model, "num_a", 1), "b": mi(model, "num_b", 1)}}
    before = copy.deepcopy(doc)
    start0 = dict(env.client["run-1"].metadata)["start"]
    w.stop(doc)
    ta, tb = table_rows(env, "a"), table_rows(env, "b")
    want_a = (table_a0 or []) + cache_a0 if (table_a0 is not None or cache_a0) else None
    want_b = (table_b0 or []) + cache_b0 if (table_b0 is not None or cache_b0) else None
    c_int = same_rows(ta, want_a) and same_rows(tb, want_b) and all(len(v) == 0 for v in w._internal_data_cache.values())
    total = rows0 + sum(width(c) for c in cached)
    reg = reg_len(env)
    c_ext = (reg is None) if ext == "none" else (reg == total and w._consolidators["sres-1"]._num_rows == total and sorted(k for k in env.client["run-1"]["a"].base if k != "internal") == ["img"])
    md = dict(env.client["run-1"].metadata)
    c_meta = set(md) == {"start", "stop"} and md["stop"] == before and md["start"] == start0
    c_frame = doc == before and list(env.client) == ["run-1"]
    return (c_int and c_ext and c_meta and c_frame), (f"internal {c_int} (a: {None if ta is None else len(ta)} rows, want {None if want_a is None else len(want_a)}; b: {tb}), "
                                                        f"external {c_ext} (registered {reg}, want {total}), metadata {c_meta} ({sorted(md)}), frame {c_frame}")


def sc_stop_no_start(env, model, info):
    from bluesky.callbacks.tiled_writer import _RunWriter
    w = _RunWriter(env.client, batch_size=mi(model, "batch_size", 3))
    try:
        w.stop({"uid": "stop-1", "run_start": "run-1", "time": 1.0, "exit_status": "success"})
    except RuntimeError:
        return list(env.client) == [], "RuntimeError"
    return False, "no RuntimeError"


def sc_tiled_writer(env, model, info):
    from bluesky.callbacks.tiled_writer import TiledWriter, _RunWriter
    batch = mi(model, "batch_size", 3)
    made = []

    class Norm:
        def __init__(self, **kw):
            self.kw, self.subs = kw, []
            made.append(self)

        def subscribe(self, f):
            self.subs.append(f)

        def __call__(self, name, doc):
            for f in self.subs:
                f(name, doc)
    custom = info["normalizer"] == "custom normalizer"
    tw = TiledWriter(env.client, normalizer=Norm if custom else None, batch_size=batch)
    prods = [tw._factory("start", {"uid": f"run-{i}"}) for i in (1, 2)]
    ws = [(made[i].subs[0] if custom else p[0][0]) for i, p in enumerate(prods)]
    fresh = (all(isinstance(x, _RunWriter) for x in ws) and ws[0] is not ws[1] and all(x._batch_size == batch and x.root_node is None for x in ws)
             and all(getattr(ws[0], m) is not getattr(ws[1], m) for m in ("_desc_nodes", "_sres_nodes", "_internal_tables", "_internal_data_cache", "_external_data_cache", "data_keys")))
    # two interleaved runs through the real RunRouter
    for i in (1, 2):
        tw("start", {"uid": f"run-{i}", "time": 1.0})
        tw("descriptor", desc(f"desc-{i}", "a", ("x",), run=f"run-{i}"))
    for i in (1, 2):
        e = event_of(model, f"desc-{i}", ("x",), str(i - 1))
        e["seq_num"] = 1
        e["filled"] = {}
        tw("event", e)
    for i in (1, 2):
        tw("stop", {"uid": f"stop-{i}", "run_start": f"run-{i}", "time": 2.0, "exit_status": "success", "reason": "", "num_events": {"a": 1}})
    rows = [table_rows(env, "a", f"run-{i}") for i in (1, 2)]
    ok = fresh and sorted(env.client) == ["run-1", "run-2"] and all(r is not None and len(r) == 1 for r in rows)
    return ok, f"fresh writers {fresh}; runs {sorted(env.client)}; rows {rows}"


def sc_run(env, model, info):
    from bluesky.callbacks.tiled_writer import _RunWriter
    batch = mi(model, "batch_size", 2)
    w = _RunWriter(env.client, batch_size=batch)
    start = {"uid": "run-1", "time": mr(model, "t_start", 1.0)}
    w.start(dict(start))
    w.descriptor(desc("desc-a", "a", ("x", "img"), ext=("img",)))
    w.descriptor(desc("desc-b", "b", ("v",)))
    w.stream_resource(sres(env, "sres-1"))
    ea = [event_of(model, "desc-a", ("x",), f"a{i}") for i in (1, 2, 3)]
    eb = event_of(model, "desc-b", ("v",), "b1")
    d1, d2 = sdatum(model, "sres-1", "desc-a", "d1", (0, 2)), sdatum(model, "sres-1", "desc-a", "d2", (2, 3))
    for name, doc in (("event", ea[0]), ("event", eb), ("stream_datum", d1), ("event", ea[1]), ("stream_datum", d2), ("event", ea[2])):
        getattr(w, name)(copy.deepcopy(doc))
    stop = {"uid": "stop-1", "run_start": "run-1", "time": mr(model, "t_stop", 9.0), "exit_status": "success", "reason": "", "num_events": {"a": 3, "b": 1}}
    w.stop(copy.deepcopy(stop))
    ta, tb = table_rows(env, "a"), table_rows(env, "b")
    md = dict(env.client["run-1"].metadata)
    ok = (ta is not None and tb is not None and len(ta) == 3 and len(tb) == 1 and all(row_clause(r, e) for r, e in zip(ta, ea)) and row_clause(tb[0], eb)
          and reg_len(env) == width(d1) + width(d2) and md == {"start": start, "stop": stop})
    return ok, f"batch_size={batch}: table a {ta}, table b {tb}, registered length {reg_len(env)} (received {width(d1) + width(d2)}), metadata keys {sorted(md)}"


SCENARIOS = {"start": sc_start, "descriptor": sc_descriptor, "_write_internal_data": sc_write_internal, "event": sc_event, "event_page": sc_event_page,
             "get_sres_node": sc_get_sres_node, "_write_external_data": sc_write_external, "stream_datum": sc_stream_datum, "stop": sc_stop,
             "stop.no_start": sc_stop_no_start, "TiledWriter": sc_tiled_writer, "run": sc_run}


def step(model, info, art):
    sc = info.get("scenario")
    if sc not in SCENARIOS:
        return "not-constructible", f"no native scenario {sc!r}"
    with Env() as env:
        try:
            holds, detail = SCENARIOS[sc](env, model, info)
        except Exception as e:      # the step itself failed where the clause says it succeeds
            import traceback
            last = traceback.extract_tb(e.__traceback__)[-1]
            if last.filename.endswith("replay/tiled_writer.py"):
                raise                # a failure of the adapter's own code is an adapter error, never a confirmation
            return "confirmed", f"scenario {sc} {info}: the real code raised {type(e).__name__}: {e} :: {traceback.format_exc()[-600:]}"
    if holds is None:
        return "not-constructible", detail
    return ("contradicted" if holds else "confirmed"), f"scenario {sc} {dict((k, v) for k, v in info.items() if k not in ('replay', 'scenario'))}: {detail}"
