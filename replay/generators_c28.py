"""replay adapters for C28 (repeat): run the real repeat and the reference natively with the model's num / delay and
a fake clock, scripted inner plans"""
import os
import re

from bluesky import plan_stubs

from . import generators as G
from .common import num as parse_num


def _clock(model):
    vals = sorted(((int(k.split("!")[1]), float(parse_num(v))) for k, v in model.items() if k.startswith("time!")), key=lambda t: t[0])
    return [v for _, v in vals] or [0.0]


def script(model, info, art):
    cfg = info.get("cfg") or {}
    n = int(parse_num(model.get("num"), 2)) if cfg.get("num") == "int" else None
    delay = float(parse_num(model.get("delay"), 0)) if cfg.get("delay") == "real" else None
    kinds = cfg.get("delays")            # iterable delays: one kind ('real' | 'None') per entry
    if kinds is not None:
        delay = [float(parse_num(model.get(f"delay{i}"), 1.0)) if k == "real" else None for i, k in enumerate(kinds)]
    # generalised counters: the model's K values say at which repetition the mismatch shows; replay from the start
    ks = [int(parse_num(v)) for k, v in model.items() if k.startswith("K!")]
    steps = list(info["script"])
    shared = G.Shared({})
    logs = {"impl": [], "ref": []}
    ref_ns = {}
    exec(compile(open(os.path.join(G.ROOT, "contracts/refs/c28.py")).read(), "c28", "exec"), ref_ns)

    readings = _clock(model)

    class Clock:
        """replays the model's clock readings in order, then keeps advancing"""

        def __init__(self):
            self.i = 0
            self.t = readings[-1]

        def time(self):
            if self.i < len(readings):
                self.i += 1
                return readings[self.i - 1]
            self.t += 0.25
            return self.t
    outs = {}
    for side, fn in (("impl", plan_stubs.repeat), ("ref", ref_ns["ref_repeat"])):
        clk = Clock()
        import time as _t
        real = _t.time
        _t.time = clk.time
        try:
            def plan(_side=side):
                yield from ()
            d_ = delay
            if kinds is not None:
                d_ = iter(list(delay)) if cfg.get("gen") else list(delay)
            g = fn(plan, n if n is None else min(n, 6), d_)
            seq = []
            try:
                for m in g:
                    seq.append((m.command, tuple(m.args)))
                    if len(seq) >= 40:
                        break            # (num=None: compare a prefix)
            except Exception as e:
                seq.append(("raise", type(e).__name__))
            outs[side] = seq
        finally:
            _t.time = real
    same = outs["impl"] == outs["ref"]
    return ("contradicted" if same else "confirmed"), f"num={n} delay={delay}: real {outs['impl'][:8]} vs reference {outs['ref'][:8]}"


def prologue(model, info, art):
    n = int(parse_num(model.get("num"), 0))
    L = int(parse_num(model.get("num_delays"), 0))
    called = []

    def plan():
        called.append(1)
        yield from ()
    g = plan_stubs.repeat(plan, n, [0.0] * min(L, 1000))
    try:
        next(g)
        raised = False
    except ValueError:
        raised = True
    except StopIteration:
        raised = False
    want = n > 0 and n - 1 > L
    ok = raised == want and not called
    return ("contradicted" if ok else "confirmed"), f"num={n}, {L} delays: raised={raised} (documented {want}), plan calls before={len(called)}"
