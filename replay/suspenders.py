"""replay adapters for C30: build the real suspender with the model's values and evaluate the clause natively"""
from bluesky import suspenders as S
from .common import get


class Sig:
    name = "sig"

    def __init__(self, value=None):
        self.value = value

    def get(self):
        return self.value


def threshold(model, info, art):
    cls = getattr(S, info["cls"])
    floor = info["cls"] == "SuspendFloor"
    s = get(model, "suspend_thresh", "real", 0.0)
    r = get(model, "resume_thresh", "real", 0.0) if info["given"] else None
    v = get(model, "value", "real", 0.0)
    r_eff = r if info["given"] else s
    bad = (r_eff < s) if floor else (r_eff > s)
    try:
        o = cls(Sig(), s, **({"resume_thresh": r} if info["given"] else {}))
    except ValueError:
        return ("contradicted" if bad else "confirmed"), f"constructor raised ValueError with suspend={s} resume={r}"
    if bad:
        return "confirmed", f"constructor accepted inconsistent thresholds suspend={s} resume={r}"
    want_s = (v < s) if floor else (v > s)
    want_r = (v >= r_eff) if floor else (v <= r_eff)
    got_s, got_r = bool(o._should_suspend(v)), bool(o._should_resume(v))
    ok = got_s == want_s and got_r == want_r and not (got_s and got_r) and o._suspend_thresh == s and o._resume_thresh == r_eff
    return ("contradicted" if ok else "confirmed"), f"{info['cls']}(suspend={s}, resume={r}) value={v}: suspend={got_s} (documented {want_s}) resume={got_r} (documented {want_r})"


def band(model, info, art):
    cls = getattr(S, info["cls"])
    outside = info["cls"] != "SuspendOutBand"
    bot, top, v = (get(model, n, "real", 0.0) for n in ("band_bottom", "band_top", "value"))
    import warnings
    with warnings.catch_warnings():
        warnings.simplefilter("ignore")
        try:
            o = cls(Sig(), bot, top)
        except ValueError:
            return ("contradicted" if not bot < top else "confirmed"), f"ValueError for band ({bot},{top})"
    if not bot < top:
        return "confirmed", f"accepted band ({bot},{top})"
    inside = bot < v < top
    got_s, got_r = bool(o._should_suspend(v)), bool(o._should_resume(v))
    ok = got_s == ((not inside) if outside else inside) and got_r == (inside if outside else (not inside))
    return ("contradicted" if ok else "confirmed"), f"{info['cls']}({bot},{top}) value={v}: suspend={got_s} resume={got_r}"


def boolean(model, info, art):
    cls = getattr(S, info["cls"])
    high = info["cls"] == "SuspendBoolHigh"
    v = get(model, "value", info["kind"])
    o = cls(Sig())
    got_s, got_r = bool(o._should_suspend(v)), bool(o._should_resume(v))
    ok = got_s == (bool(v) if high else not bool(v)) and got_r == ((not bool(v)) if high else bool(v))
    return ("contradicted" if ok else "confirmed"), f"{info['cls']} value={v!r}: suspend={got_s} resume={got_r}"


def when_changed(model, info, art):
    kind = info["kind"]
    defaults = {"real": 0.0, "int": 0, "str": "", "bool": False}
    ev = get(model, "expected_value", kind, defaults[kind]) if info["given"] else None
    sv = get(model, "signal_value", kind, defaults[kind])
    v = get(model, "value", kind, defaults[kind])
    allow = get(model, "allow_resume", "bool", False)
    kw = {"allow_resume": allow}
    if info["given"]:
        kw["expected_value"] = ev
    o = S.SuspendWhenChanged(Sig(sv), **kw)
    exp = ev if info["given"] else sv
    got_s, got_r = bool(o._should_suspend(v)), bool(o._should_resume(v))
    ok = (o.expected_value == exp and type(o.expected_value) is type(exp)) and got_s == (v != o.expected_value) and got_r == (allow and v == o.expected_value)
    return ("contradicted" if ok else "confirmed"), (f"SuspendWhenChanged(signal.value={sv!r}, expected_value={ev!r}) stores expected_value="
                                                      f"{o.expected_value!r} (documented {exp!r}); value={v!r}: suspend={got_s} resume={got_r}")


# ------------------------------------------------------------------------------------------------ C31
class _Sig:
    name = "sig"
    value = 0

    def __init__(self):
        self.calls = []

    def subscribe(self, cb, event_type=None, run=True):
        self.calls.append(("subscribe", cb, run))

    def clear_sub(self, cb):
        self.calls.append(("clear_sub", cb))


def _engine():
    from bluesky import RunEngine
    return RunEngine({}, context_managers=[])


def remove(model, info, art):
    """C31 R1 / R2 on a real SuspendBoolHigh attached to a real RunEngine"""
    import time
    from bluesky.suspenders import SuspendBoolHigh
    RE = _engine()
    sig = _Sig()
    s = SuspendBoolHigh(sig, sleep=0)
    installed, has_ev = bool(info.get("installed", True)), bool(info.get("has_ev", True))
    ev = None
    if installed:
        s.install(RE)
        if has_ev:
            s(1)                       # trips: makes the event (the engine is idle, so no suspension is requested)
            ev = s._ev
    del sig.calls[:]
    bad = []
    try:
        s.remove()
    except Exception as e:   # noqa
        bad.append(f"remove() raised {e!r}")
    if [c[0] for c in sig.calls] != ["clear_sub"]:
        bad.append(f"signal calls during remove: {[c[0] for c in sig.calls]}")
    if s.RE is not None or s._ev is not None or s.tripped:
        bad.append(f"after remove: RE={s.RE!r} _ev={s._ev!r} tripped={s.tripped}")
    if ev is not None:
        t0 = time.time()
        while not ev.is_set() and time.time() - t0 < 3:
            time.sleep(0.02)
        if not ev.is_set():
            bad.append("the event the suspender held was never released")
    try:
        s.remove()
    except Exception as e:   # noqa
        bad.append(f"second remove() raised {e!r}")
    s(1)
    if s.tripped or s._ev is not None:
        bad.append("the removed suspender reacted to a signal change")
    return ("confirmed" if bad else "contradicted"), "; ".join(bad) or "remove: unsubscribed, released, harmless twice, no reaction afterwards"


def get_futures(model, info, art):
    from bluesky.suspenders import SuspendBoolHigh
    RE = _engine()
    sig = _Sig()
    s = SuspendBoolHigh(sig, sleep=0, tripped_message="beam dump")
    s.install(RE)
    bad = []
    if s.get_futures() != ([], ""):
        bad.append(f"untripped get_futures() = {s.get_futures()!r}")
    s(1)
    futs, just = s.get_futures()
    if not (len(futs) == 1 and getattr(futs[0], "__self__", None) is s._ev and futs[0].__name__ == "wait" and "beam dump" in just):
        bad.append(f"tripped get_futures() = {futs!r}, {just!r}")
    return ("confirmed" if bad else "contradicted"), "; ".join(bad) or "get_futures as specified"


def engine_remove(model, info, art):
    RE = _engine()
    calls = []

    class S:
        def install(self, re_):
            calls.append(("install", re_))

        def remove(self):
            calls.append(("remove",))
    s = S()
    bad = []
    if info.get("start") == "installed":
        RE.install_suspender(s)
    del calls[:]
    RE.remove_suspender(s)
    RE.remove_suspender(s)
    want = 1 if info.get("start") == "installed" else 0
    if len([c for c in calls if c[0] == "remove"]) != want or s in RE.suspenders:
        bad.append(f"remove_suspender twice gave calls {calls} (start: {info.get('start')})")
    del calls[:]
    RE.install_suspender(s)
    if calls != [("install", RE)] or s not in RE.suspenders:
        bad.append(f"install_suspender gave calls {calls}")
    return ("confirmed" if bad else "contradicted"), "; ".join(bad) or "install / remove on the engine as specified"
