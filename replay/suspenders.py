"""replay adapters for C30: build the real suspender with the model's values and evaluate the clause natively"""
from bluesky import suspenders as S
from .common import get


class Sig:
    name = "sig"

    def __init__(self, value=None):
        self.value = value

    def get(self):
        return self.value


def threshold(model, info, art):
    cls = getattr(S, info["cls"])
    floor = info["cls"] == "SuspendFloor"
    s = get(model, "suspend_thresh", "real", 0.0)
    r = get(model, "resume_thresh", "real", 0.0) if info["given"] else None
    v = get(model, "value", "real", 0.0)
    r_eff = r if info["given"] else s
    bad = (r_eff < s) if floor else (r_eff > s)
    try:
        o = cls(Sig(), s, **({"resume_thresh": r} if info["given"] else {}))
    except ValueError:
        return ("contradicted" if bad else "confirmed"), f"constructor raised ValueError with suspend={s} resume={r}"
    if bad:
        return "confirmed", f"constructor accepted inconsistent thresholds suspend={s} resume={r}"
    want_s = (v < s) if floor else (v > s)
    want_r = (v >= r_eff) if floor else (v <= r_eff)
    got_s, got_r = bool(o._should_suspend(v)), bool(o._should_resume(v))
    ok = got_s == want_s and got_r == want_r and not (got_s and got_r) and o._suspend_thresh == s and o._resume_thresh == r_eff
    return ("contradicted" if ok else "confirmed"), f"{info['cls']}(suspend={s}, resume={r}) value={v}: suspend={got_s} (documented {want_s}) resume={got_r} (documented {want_r})"


def band(model, info, art):
    cls = getattr(S, info["cls"])
    outside = info["cls"] != "SuspendOutBand"
    bot, top, v = (get(model, n, "real", 0.0) for n in ("band_bottom", "band_top", "value"))
    import warnings
    with warnings.catch_warnings():
        warnings.simplefilter("ignore")
        try:
            o = cls(Sig(), bot, top)
        except ValueError:
            return ("contradicted" if not bot < top else "confirmed"), f"ValueError for band ({bot},{top})"
    if not bot < top:
        return "confirmed", f"accepted band ({bot},{top})"
    inside = bot < v < top
    got_s, got_r = bool(o._should_suspend(v)), bool(o._should_resume(v))
    ok = got_s == ((not inside) if outside else inside) and got_r == (inside if outside else (not inside))
    return ("contradicted" if ok else "confirmed"), f"{info['cls']}({bot},{top}) value={v}: suspend={got_s} resume={got_r}"


def boolean(model, info, art):
    cls = getattr(S, info["cls"])
    high = info["cls"] == "SuspendBoolHigh"
    v = get(model, "value", info["kind"])
    o = cls(Sig())
    got_s, got_r = bool(o._should_suspend(v)), bool(o._should_resume(v))
    ok = got_s == (bool(v) if high else not bool(v)) and got_r == ((not bool(v)) if high else bool(v))
    return ("contradicted" if ok else "confirmed"), f"{info['cls']} value={v!r}: suspend={got_s} resume={got_r}"


def when_changed(model, info, art):
    kind = info["kind"]
    defaults = {"real": 0.0, "int": 0, "str": "", "bool": False}
    ev = get(model, "expected_value", kind, defaults[kind]) if info["given"] else None
    sv = get(model, "signal_value", kind, defaults[kind])
    v = get(model, "value", kind, defaults[kind])
    allow = get(model, "allow_resume", "bool", False)
    kw = {"allow_resume": allow}
    if info["given"]:
        kw["expected_value"] = ev
    o = S.SuspendWhenChanged(Sig(sv), **kw)
    exp = ev if info["given"] else sv
    got_s, got_r = bool(o._should_suspend(v)), bool(o._should_resume(v))
    ok = (o.expected_value == exp and type(o.expected_value) is type(exp)) and got_s == (v != o.expected_value) and got_r == (allow and v == o.expected_value)
    return ("contradicted" if ok else "confirmed"), (f"SuspendWhenChanged(signal.value={sv!r}, expected_value={ev!r}) stores expected_value="
                                                      f"{o.expected_value!r} (documented {exp!r}); value={v!r}: suspend={got_s} resume={got_r}")


# ------------------------------------------------------------------------------------------------ C31
class _Sig:
    name = "sig"
    value = 0

    def __init__(self):
        self.calls = []

    def subscribe(self, cb, event_type=None, run=True):
        self.calls.append(("subscribe", cb, run))

    def clear_sub(self, cb):
        self.calls.append(("clear_sub", cb))


def _engine():
    from bluesky import RunEngine
    return RunEngine({}, context_managers=[])


def remove(model, info, art):
    """C31 R1 / R2 on a real SuspendBoolHigh attached to a real RunEngine"""
    import time
    from bluesky.suspenders import SuspendBoolHigh
    RE = _engine()
    sig = _Sig()
    s = SuspendBoolHigh(sig, sleep=0)
    installed, has_ev = bool(info.get("installed", True)), bool(info.get("has_ev", True))
    ev = None
    if installed:
        s.install(RE)
        if has_ev:
            s(1)                       # trips: makes the event (the engine is idle, so no suspension is requested)
            ev = s._ev
    del sig.calls[:]
    bad = []
    try:
        s.remove()
    except Exception as e:   # noqa
        bad.append(f"remove() raised {e!r}")
    if [c[0] for c in sig.calls] != ["clear_sub"]:
        bad.append(f"signal calls during remove: {[c[0] for c in sig.calls]}")
    if s.RE is not None or s._ev is not None or s.tripped:
        bad.append(f"after remove: RE={s.RE!r} _ev={s._ev!r} tripped={s.tripped}")
    if ev is not None:
        t0 = time.time()
        while not ev.is_set() and time.time() - t0 < 3:
            time.sleep(0.02)
        if not ev.is_set():
            bad.append("the event the suspender held was never released")
    try:
        s.remove()
    except Exception as e:   # noqa
        bad.append(f"second remove() raised {e!r}")
    s(1)
    if s.tripped or s._ev is not None:
        bad.append("the removed suspender reacted to a signal change")
    return ("confirmed" if bad else "contradicted"), "; ".join(bad) or "remove: unsubscribed, released, harmless twice, no reaction afterwards"


def get_futures(model, info, art):
    from bluesky.suspenders import SuspendBoolHigh
    RE = _engine()
    sig = _Sig()
    s = SuspendBoolHigh(sig, sleep=0, tripped_message="beam dump")
    s.install(RE)
    bad = []
    if s.get_futures() != ([], ""):
        bad.append(f"untripped get_futures() = {s.get_futures()!r}")
    s(1)
    futs, just = s.get_futures()
    if not (len(futs) == 1 and getattr(futs[0], "__self__", None) is s._ev and futs[0].__name__ == "wait" and "beam dump" in just):
        bad.append(f"tripped get_futures() = {futs!r}, {just!r}")
    return ("confirmed" if bad else "contradicted"), "; ".join(bad) or "get_futures as specified"


def engine_remove(model, info, art):
    RE = _engine()
    calls = []

    class S:
        def install(self, re_):
            calls.append(("install", re_))

        def remove(self):
            calls.append(("remove",))
    s = S()
    bad = []
    if info.get("start") == "installed":
        RE.install_suspender(s)
    del calls[:]
    RE.remove_suspender(s)
    RE.remove_suspender(s)
    want = 1 if info.get("start") == "installed" else 0
    if len([c for c in calls if c[0] == "remove"]) != want or s in RE.suspenders:
        bad.append(f"remove_suspender twice gave calls {calls} (start: {info.get('start')})")
    del calls[:]
    RE.install_suspender(s)
    if calls != [("install", RE)] or s not in RE.suspenders:
        bad.append(f"install_suspender gave calls {calls}")
    return ("confirmed" if bad else "contradicted"), "; ".join(bad) or "install / remove on the engine as specified"


# ------------------------------------------------------------------------------------------------ C11: histories of a real suspender
def _history_search(clauses, depth=6, sleep=1.5):
    """bounded exhaustive search over histories of a real SuspendBoolHigh (bad / good signal values, the loop running a queued
    callback, a timer firing - oldest or newest first -, remove, install) against the clauses of contracts/c11_hist.py;
    -> list of (history, what) violations (first one per clause)"""
    import functools
    import types
    from bluesky import suspenders as S_

    found = {}

    class World:
        def __init__(self, eager, slow=False, running=True):
            w = self
            self.eager = eager
            self.running = running    # what RE.state.is_running says
            self.cb_errors = []       # exceptions raised by callbacks on the loop (asyncio logs them and carries on)
            self.slow = slow          # the loop thread is busy: it does not create the event within the 0.1 s the suspender waits for it
            self.failed = False       # ... the signal callback raised the licensed RuntimeError and left (no event, tripped)
            self.queue, self.timers, self.requests, self.made, self.setlog, self.released_want = [], [], [], [], [], []
            self.in_timer = None
            self.bad = []

            class Ev(asyncio_real.Event):
                def __init__(self_e):
                    super().__init__()
                    w.made.append(self_e)
                    self_e.nset = 0

                def set(self_e):
                    self_e.nset += 1
                    w.setlog.append(self_e)
                    if w.in_timer is None or w.in_timer != sleep:
                        w.bad.append(("settle", f"an event was set {'outside a timer' if w.in_timer is None else f'by a timer armed with {w.in_timer} s'} (settle time {sleep} s)"))
                    if self_e is w.s._ev and w.s._tripped and w.s.RE is not None:
                        w.bad.append(("live", "the release set the event the suspender holds while it is tripped"))
                    super().set()
            self.Ev = Ev

            class Handle:
                def __init__(self_h, cb, args, delay=None):
                    self_h.cb, self_h.args, self_h.delay, self_h.cancelled = cb, args, delay, False

                def cancel(self_h):
                    self_h.cancelled = True

            class Loop:
                def call_soon_threadsafe(self_l, cb, *args):
                    h = Handle(cb, args)
                    if isinstance(cb, functools.partial):
                        w.requests.append(cb)
                        if getattr(cb.func, "__self__", None) is not w.RE or cb.func.__name__ != "request_suspend":
                            w.bad.append(("req", f"unexpected partial handed to the loop: {cb!r}"))
                    elif w.eager or (getattr(cb, "__name__", "") == "really_make_the_event" and not w.slow):
                        cb(*args)
                    else:
                        w.queue.append(h)
                    return h
                call_soon = call_soon_threadsafe

                def call_later(self_l, delay, cb, *args):
                    h = Handle(cb, args, delay)
                    w.timers.append(h)
                    return h
            self.loop = Loop()

            class State:
                is_running = running

            class RE:
                _loop = self.loop
                loop = self.loop
                state = State()

                def request_suspend(self_r, fut, **kw):
                    w.bad.append(("req", "request_suspend was called directly from the signal's thread"))
            self.RE = RE()
            self.sig = _Sig()
            self.s = S_.SuspendBoolHigh(self.sig, sleep=sleep, pre_plan="PRE", post_plan="POST", tripped_message="beam dump")

        def step(self, a):
            s = self.s
            held = s._ev
            if a == "bad":
                try:
                    s(1)
                except RuntimeError:
                    if not self.slow:
                        raise
                    self.failed = True
            elif a == "good":
                s(0)
                if s.RE is not None and held is not None:
                    self.released_want.append(held)
            elif a == "cb":
                h = self.queue.pop(0)
                if not h.cancelled:
                    try:
                        h.cb(*h.args)
                    except Exception as e:     # noqa
                        self.cb_errors.append(e)
            elif a in ("timer", "timer-last"):
                h = self.timers.pop(0 if a == "timer" else -1)
                if not h.cancelled:
                    self.in_timer = h.delay
                    try:
                        h.cb(*h.args)
                    except Exception as e:     # noqa
                        self.cb_errors.append(e)
                    finally:
                        self.in_timer = None
            elif a == "remove":
                if s.RE is not None and held is not None:
                    self.released_want.append(held)
                s.remove()
            elif a == "install":
                s.install(self.RE)

        def menu(self):
            s = self.s
            m = ["bad", "good"]
            if self.queue:
                m.append("cb")
            if self.timers:
                m.append("timer")
            if len(self.timers) > 1:
                m.append("timer-last")
            m.append("remove" if s.RE is not None else "install")
            return m

        def violations(self, final=False):
            s = self.s
            out = list(self.bad)
            inst, ev, tr = s.RE is not None, s._ev, s._tripped
            if not (inst and tr and ev is None):
                self.failed = False
            if self.failed:
                return out
            requested = {id(p.args[0].__self__) for p in self.requests if p.args and hasattr(p.args[0], "__self__")}
            if not self.running:
                # an idle / paused engine: nothing may be requested; the events are handed over by get_futures at the next plan start
                if self.requests:
                    out.append(("req", f"{len(self.requests)} suspension(s) requested although the engine is not running"))
                requested = {id(e) for e in self.made}
            if inst and tr and ev is None:
                out.append(("inv1", "installed and tripped but no event is held"))
            if inst and tr and not any(id(e) in requested and not e.is_set() for e in self.made):
                out.append(("live", "installed and tripped, but every event a suspension was requested for has been released (or none was requested)"))
            if ev is not None and (ev.is_set() or id(ev) not in requested):
                out.append(("inv2", f"the held event is {'already set' if ev.is_set() else 'not handed to the engine'}"))
            if inst and ev is not None and not tr:
                out.append(("inv4", "an event is held although the suspender is not tripped (a renewed trip will not request a suspension)"))
            if not inst and (tr or ev is not None):
                out.append(("inv3", f"not installed but tripped={tr}, event held={ev is not None}"))
            if ev is not None and not any(ev is m for m in self.made):
                out.append(("frame", "the held event is not one the suspender made"))
            for p in self.requests:
                ok = (len(p.args) == 1 and getattr(p.args[0], "__name__", "") == "wait" and any(p.args[0].__self__ is m for m in self.made)
                      and p.keywords.get("pre_plan") == "PRE" and p.keywords.get("post_plan") == "POST" and "beam dump" in str(p.keywords.get("justification")))
                if not ok:
                    out.append(("req", f"request_suspend{p.args!r} {p.keywords!r} does not carry the event's wait and the suspender's plans / justification"))
            if self.running and len(self.requests) != len(self.made):
                out.append(("req", f"{len(self.made)} events were made with the engine running but {len(self.requests)} suspensions requested"))
            if final:
                for e in self.cb_errors:
                    out.append(("once", f"a callback of the release machinery raised {e!r}"))
                for e in self.made:
                    want = sum(1 for x in self.released_want if x is e)
                    if e.nset != (1 if want else 0):
                        out.append(("once", f"an event held at {want} recoveries / removals was set {e.nset} times"))
            return out

    import asyncio as asyncio_real
    shim = types.SimpleNamespace(**{k: getattr(asyncio_real, k) for k in dir(asyncio_real) if not k.startswith("__")})
    saved = S_.asyncio
    import io
    import contextlib
    try:
        for eager, running in ((False, True), (True, True), (False, False)):
            def run(hist):
                w = World(eager, running=running)
                shim.Event = w.Ev
                S_.asyncio = shim
                w.s.install(w.RE)
                for a in hist:
                    w.step(a)
                return w

            def rec(hist):
                w = run(hist)
                for kind, what in w.violations():
                    if kind in clauses and kind not in found:
                        found[kind] = (list(hist), what + (" [callbacks run eagerly]" if eager else "") + ("" if running else " [engine not running]"))
                # drain: everything in flight runs, then the final clauses
                w2 = run(hist)
                while w2.queue or w2.timers:
                    w2.step("cb" if w2.queue else "timer")
                for kind, what in w2.violations(final=True):
                    if kind in clauses and kind not in found:
                        found[kind] = (list(hist) + ["(all callbacks and timers run)"], what + (" [callbacks run eagerly]" if eager else "") + ("" if running else " [engine not running]"))
                if len(hist) >= maxd[0] or all(c in found for c in clauses):
                    return
                for a in w.menu():
                    rec(hist + [a])
            maxd = [0]
            with contextlib.redirect_stdout(io.StringIO()):
                for d in range(1, depth + 1):       # shortest histories first
                    maxd[0] = d
                    rec([])
                    if found:
                        break
            if found:
                break
        if not found:
            # last resort: a busy loop thread (every trip waits 0.1 s for its event in vain) - short histories only
            def run(hist):          # noqa: F811
                w = World(False, slow=True)
                shim.Event = w.Ev
                S_.asyncio = shim
                w.s.install(w.RE)
                for a in hist:
                    w.step(a)
                return w

            def rec_slow(hist):
                w = run(hist)
                for kind, what in w.violations():
                    if kind in clauses and kind not in found:
                        found[kind] = (list(hist), what + " [busy loop thread: the event is not created within 0.1 s]")
                if len(hist) >= 3 or found:
                    return
                for a in w.menu():
                    rec_slow(hist + [a])
            with contextlib.redirect_stdout(io.StringIO()):
                rec_slow([])
    finally:
        S_.asyncio = saved
    return found


_H_CLAUSES = [("installed and tripped => the suspender holds an event", ("inv1",)),
              ("the held event is unreleased and its wait was handed", ("inv2",)),
              ("not installed => not tripped", ("inv3",)),
              ("an event is held only while the suspender is tripped", ("inv4",)),
              ("a step keeps the held event", ("frame",)),
              ("a trip that makes an event requests", ("req",)),
              ("a release in flight never sets the event the suspender holds", ("live",)),
              ("an event is set only by a timer armed", ("settle",)),
              ("exactly the event that was held is set, once", ("once",)),
              ("RuntimeError only when the event could not be created", ("raise",))]


def history(model, info, art):
    """C11 suspender histories: the clause of the failed obligation, searched for on a real SuspendBoolHigh over all histories up to 6 steps"""
    ob = art.get("obligation", "")
    clauses = next((c for key, c in _H_CLAUSES if key in ob), None)
    if clauses is None:
        clauses = tuple(c for _, cs in _H_CLAUSES for c in cs)
    if clauses == ("raise",):
        from bluesky.suspenders import SuspendBoolHigh
        import io
        import contextlib
        RE = _engine()
        s = SuspendBoolHigh(_Sig(), sleep=0)
        s.install(RE)
        try:
            with contextlib.redirect_stdout(io.StringIO()):
                s(1)
                s(0)
                s(1)
        except Exception as e:     # noqa
            return "confirmed", f"a signal value raised {e!r} although the loop is alive"
        return "contradicted", "no exception from signal values on a live loop"
    found = _history_search(clauses)
    if found:
        return "confirmed", "; ".join(f"history {' > '.join(h)}: {what}" for h, what in found.values())
    return "contradicted", "no history of up to 6 steps on a real SuspendBoolHigh violates the clause"
