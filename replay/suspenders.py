"""replay adapters for C30: build the real suspender with the model's values and evaluate the clause natively"""
from bluesky import suspenders as S
from .common import get


class Sig:
    name = "sig"

    def __init__(self, value=None):
        self.value = value

    def get(self):
        return self.value


def threshold(model, info, art):
    cls = getattr(S, info["cls"])
    floor = info["cls"] == "SuspendFloor"
    s = get(model, "suspend_thresh", "real", 0.0)
    r = get(model, "resume_thresh", "real", 0.0) if info["given"] else None
    v = get(model, "value", "real", 0.0)
    r_eff = r if info["given"] else s
    bad = (r_eff < s) if floor else (r_eff > s)
    try:
        o = cls(Sig(), s, **({"resume_thresh": r} if info["given"] else {}))
    except ValueError:
        return ("contradicted" if bad else "confirmed"), f"constructor raised ValueError with suspend={s} resume={r}"
    if bad:
        return "confirmed", f"constructor accepted inconsistent thresholds suspend={s} resume={r}"
    want_s = (v < s) if floor else (v > s)
    want_r = (v >= r_eff) if floor else (v <= r_eff)
    got_s, got_r = bool(o._should_suspend(v)), bool(o._should_resume(v))
    ok = got_s == want_s and got_r == want_r and not (got_s and got_r) and o._suspend_thresh == s and o._resume_thresh == r_eff
    return ("contradicted" if ok else "confirmed"), f"{info['cls']}(suspend={s}, resume={r}) value={v}: suspend={got_s} (documented {want_s}) resume={got_r} (documented {want_r})"


def band(model, info, art):
    cls = getattr(S, info["cls"])
    outside = info["cls"] != "SuspendOutBand"
    bot, top, v = (get(model, n, "real", 0.0) for n in ("band_bottom", "band_top", "value"))
    import warnings
    with warnings.catch_warnings():
        warnings.simplefilter("ignore")
        try:
            o = cls(Sig(), bot, top)
        except ValueError:
            return ("contradicted" if not bot < top else "confirmed"), f"ValueError for band ({bot},{top})"
    if not bot < top:
        return "confirmed", f"accepted band ({bot},{top})"
    inside = bot < v < top
    got_s, got_r = bool(o._should_suspend(v)), bool(o._should_resume(v))
    ok = got_s == ((not inside) if outside else inside) and got_r == (inside if outside else (not inside))
    return ("contradicted" if ok else "confirmed"), f"{info['cls']}({bot},{top}) value={v}: suspend={got_s} resume={got_r}"


def boolean(model, info, art):
    cls = getattr(S, info["cls"])
    high = info["cls"] == "SuspendBoolHigh"
    v = get(model, "value", info["kind"])
    o = cls(Sig())
    got_s, got_r = bool(o._should_suspend(v)), bool(o._should_resume(v))
    ok = got_s == (bool(v) if high else not bool(v)) and got_r == ((not bool(v)) if high else bool(v))
    return ("contradicted" if ok else "confirmed"), f"{info['cls']} value={v!r}: suspend={got_s} resume={got_r}"


def when_changed(model, info, art):
    kind = info["kind"]
    defaults = {"real": 0.0, "int": 0, "str": "", "bool": False}
    ev = get(model, "expected_value", kind, defaults[kind]) if info["given"] else None
    sv = get(model, "signal_value", kind, defaults[kind])
    v = get(model, "value", kind, defaults[kind])
    allow = get(model, "allow_resume", "bool", False)
    kw = {"allow_resume": allow}
    if info["given"]:
        kw["expected_value"] = ev
    o = S.SuspendWhenChanged(Sig(sv), **kw)
    exp = ev if info["given"] else sv
    got_s, got_r = bool(o._should_suspend(v)), bool(o._should_resume(v))
    ok = (o.expected_value == exp and type(o.expected_value) is type(exp)) and got_s == (v != o.expected_value) and got_r == (allow and v == o.expected_value)
    return ("contradicted" if ok else "confirmed"), (f"SuspendWhenChanged(signal.value={sv!r}, expected_value={ev!r}) stores expected_value="
                                                      f"{o.expected_value!r} (documented {exp!r}); value={v!r}: suspend={got_s} resume={got_r}")
