"""native replay for C43: the counter-model's state / operation / history is run on a real PersistentDict in a temporary
directory (real zict, msgpack, weakref.finalize, gc) next to the same dictionary model the contracts use, and the *same
clause* is evaluated.  Top-level values are dicts {"v": [n]} with an ndarray, edited in place by appending to the list."""
import copy
import gc
import itertools
import tempfile

import numpy as np

from bluesky.utils import PersistentDict

_counter = itertools.count(1)


def _value():
    n = next(_counter)
    return {"v": [n], "arr": np.arange(3) * n}


def _same_value(x, y):
    if isinstance(x, dict) and isinstance(y, dict):
        return set(x) == set(y) and all(_same_value(x[k], y[k]) for k in x)
    if isinstance(x, np.ndarray) or isinstance(y, np.ndarray):
        return isinstance(x, np.ndarray) and isinstance(y, np.ndarray) and np.array_equal(x, y)
    if isinstance(x, (list, tuple)) and isinstance(y, (list, tuple)):
        return len(x) == len(y) and all(_same_value(a, b) for a, b in zip(x, y))
    return type(x) is type(y) and x == y


def _same(a, b):
    return set(a) == set(b) and all(_same_value(a[k], b[k]) for k in a)


class Machine:
    """a real PersistentDict + the dictionary model (mem: what the mapping shows, written: what was last written)"""

    def __init__(self, directory, state):
        # as in the contracts: the directory already holds the state's keys (written by an earlier, cleanly closed
        # instance), the instance under test is opened on it, then the 'dirty' values are edited in place
        self.dir = directory
        self.pd = PersistentDict(directory)
        self.mem = {}
        self.written = {}
        self.reloaded = False
        for k in state.get("keys", []):
            self.apply(["set", k])
        self.reopen("gc")
        for k in state.get("dirty", []):
            self.apply(["mutate", k])

    def _set_model(self, k, v):
        self.mem[k] = copy.deepcopy(v)        # the model never aliases the real objects
        self.written[k] = copy.deepcopy(v)

    def apply(self, op):
        """-> (ok, detail): the operation's own result is what a dict gives"""
        if op[0] == "reopen":
            self.reopen(op[1])               # (before any local reference to the old instance is taken: one instance at a time)
            return True, ""
        pd, kind = self.pd, op[0]
        k = op[1] if len(op) > 1 else None
        if kind == "set":
            v = _value()
            pd[k] = v
            self._set_model(k, v)
            return True, ""
        if kind == "reset":
            pd[k] = pd[k]
            self.written[k] = copy.deepcopy(self.mem[k])
            return True, ""
        if kind == "del":
            del pd[k]
            del self.mem[k], self.written[k]
            return True, ""
        if kind == "del-missing":
            try:
                del pd["zz"]
            except KeyError:
                return True, ""
            return False, "del of an absent key did not raise KeyError"
        if kind == "popitem":
            if not self.mem:
                try:
                    pd.popitem()
                except KeyError:
                    return True, ""
                return False, "popitem on an empty mapping did not raise KeyError"
            kk, v = pd.popitem()
            ok = kk in self.mem and _same_value(v, self.mem[kk])
            self.mem.pop(kk, None)
            self.written.pop(kk, None)
            return ok, f"popitem returned {kk!r}: {v!r}"
        if kind == "pop":
            v = pd.pop(k)
            ok = _same_value(v, self.mem[k])
            del self.mem[k], self.written[k]
            return ok, f"pop returned {v!r}"
        if kind == "pop-missing-default":
            d = object()
            return pd.pop("zz", d) is d, "pop with default"
        if kind == "pop-missing":
            try:
                pd.pop("zz")
            except KeyError:
                return True, ""
            return False, "pop of an absent key did not raise KeyError"
        if kind == "clear":
            pd.clear()
            self.mem.clear()
            self.written.clear()
            return True, ""
        if kind == "update":
            src = {kk: _value() for kk in op[1]}
            pd.update(src)
            for kk, v in src.items():
                self._set_model(kk, v)
            return True, ""
        if kind == "setdefault":
            v = _value()
            r = pd.setdefault(k, v)
            if k in self.mem:
                return _same_value(r, self.mem[k]), f"setdefault on an existing key returned {r!r}"
            self._set_model(k, v)
            return r is v, "setdefault on a new key"
        if kind == "mutate":
            v = pd[k]
            v["v"].append(next(_counter))
            v["arr"] = np.arange(3) * next(_counter)   # (arrays loaded from msgpack are read-only: the entry is replaced)
            self.mem[k] = copy.deepcopy(v)   # contents the mapping must show now (the model does not alias the real objects)
            return True, ""
        if kind == "flush":
            r = pd.flush()
            self.written = copy.deepcopy(self.mem)
            return r is None, "flush"
        if kind == "reload":
            r = pd.reload()
            self.mem = copy.deepcopy(self.written)
            self.reloaded = True
            return r is None, "reload"
        if kind == "read":
            ok = "zz" not in pd and pd.get("zz") is None and all(kk in pd for kk in self.mem)
            try:
                pd["zz"]
                ok = False
            except KeyError:
                pass
            return ok, "reads"
        raise ValueError(op)

    # ---- the clauses
    def shown(self):
        pd = self.pd
        ks = list(pd)
        return {kk: pd[kk] for kk in ks}, len(pd) == len(ks) == len(set(ks))

    def cache_clause(self):
        got, len_ok = self.shown()
        return len_ok and _same(got, self.mem), f"mapping shows {got!r}, model {self.mem!r}"

    def disk_clause(self):
        import zict
        f = zict.File(self.dir)
        got = {kk: PersistentDict._load(f[kk]) for kk in f}
        return _same(got, self.written), f"directory holds {got!r}, last written {self.written!r}"

    def armed_clause(self):
        """R3 on the real objects"""
        import weakref
        pd = self.pd
        fins = [v for v in vars(pd).values() if isinstance(v, weakref.finalize)]
        alive = [f for f in fins if f.alive]
        if not alive:
            return False, "no alive weakref.finalize on the instance: nothing will be written back at garbage collection"
        for f in alive:
            args = f.peek()[2]
            if not any(a is pd._cache for a in args):
                return False, "the alive finalizer does not hold the dictionary the instance uses as its cache"
            if not any(a is pd._file or a is pd._func for a in args):
                return False, "the alive finalizer does not write to the instance's file store"
        return True, "write-back armed on the current cache"

    def close(self, mode):
        """end of the instance: 'gc' = collected (finalizer runs), 'crash' = the process dies (no finalizer)"""
        import weakref
        pd = self.pd
        self.pd = None
        if mode == "crash":
            for v in list(vars(pd).values()):
                if isinstance(v, weakref.finalize):
                    v.detach()
        else:
            self.written = copy.deepcopy(self.mem)
        del pd
        gc.collect()

    def reopen(self, mode):
        self.close(mode)
        if mode == "crash":
            self.mem = copy.deepcopy(self.written)
        self.reloaded = False
        self.pd = PersistentDict(self.dir)

    def close_clause(self, mode):
        want = copy.deepcopy(self.mem if mode == "gc" else self.written)
        self.close(mode)
        pd2 = PersistentDict(self.dir)
        got = dict(pd2)
        ok = _same(got, want) and len(pd2) == len(want)
        for v in list(vars(pd2).values()):
            if hasattr(v, "detach"):
                v.detach()
        return ok, f"reopened after {mode}: {got!r}, expected {want!r}"


CONT_OPS = [["mutate", "a"], ["flush"], ["reset", "a"], ["set", "a"], ["del", "a"], ["set", "c"], ["mutate", "b"], ["pop", "b"]]


def _witness(state, prefix, depth=3):
    """an observable consequence of a broken invariant: a continuation after which the reopened mapping is wrong"""
    for n in range(0, depth + 1):
        for cont in itertools.product(CONT_OPS, repeat=n):
            for mode in ("gc", "crash"):
                with tempfile.TemporaryDirectory() as d:
                    try:
                        m = Machine(d, state)
                        for op in prefix:
                            m.apply(op)
                        skip = False
                        for op in cont:
                            if op[0] in ("mutate", "del", "pop", "reset") and op[1] not in m.mem:
                                skip = True
                                break
                            m.apply(op)
                        if skip:
                            continue
                        ok, detail = m.close_clause(mode)
                    except Exception as e:
                        return f"{prefix + list(cont)} then {mode}: {type(e).__name__}: {e}"
                    if not ok:
                        return f"after {prefix + list(cont)} closed by {mode}: {detail}"
    return None


def step(model, info, art):
    state, op, clause = info.get("state", {}), info.get("op"), info.get("clause")
    with tempfile.TemporaryDirectory() as d:
        try:
            m = Machine(d, state)
            if clause == "init":
                # a new instance on the directory written so far
                m.reopen("gc")
                oks = [m.cache_clause(), m.disk_clause(), m.armed_clause()]
                bad = [t for ok, t in oks if not ok]
                return ("confirmed", bad[0]) if bad else ("contradicted", "a new instance shows the stored contents and arms the write-back")
            ok, detail = m.apply(op)
        except Exception as e:
            return "confirmed", f"state {state} operation {op}: {type(e).__name__}: {e}"
        if clause == "op":
            return ("contradicted", "operation result as a dict's: " + detail) if ok else ("confirmed", detail)
        if clause == "cache":
            ok, detail = m.cache_clause()
        elif clause == "disk":
            ok, detail = m.disk_clause()
            if ok and set(m.mem) != set(m.written):
                ok, detail = False, "model key sets differ"
        elif clause == "finalizer":
            ok, detail = m.armed_clause()
            if not ok:
                wit = _witness(state, [op])
                if wit is None:
                    return "not-constructible", detail + "; no observable consequence found within 3 further operations"
                return "confirmed", f"state {state}, after {op}: {detail}; observable: {wit}"
        elif clause == "close":
            try:
                ok, detail = m.close_clause(info["close"])
            except Exception as e:
                return "confirmed", f"state {state} operation {op} closing {info['close']}: {type(e).__name__}: {e}"
        else:
            return "not-constructible", f"unknown clause {clause!r}"
    return ("contradicted", detail) if ok else ("confirmed", f"state {state}, after {op}: {detail}")


def history(model, info, art):
    state, hist, mode = info.get("state", {}), info.get("history", []), info.get("close")
    with tempfile.TemporaryDirectory() as d:
        try:
            m = Machine(d, state)
            for i, op in enumerate(hist):
                ok, detail = m.apply(op)
                if not ok:
                    return "confirmed", f"history {hist[:i + 1]}: {detail}"
            if mode is None:
                # the symbolic path stopped at an operation's result (e.g. popitem handed out a key that should be gone);
                # the real dict / listdir order may pick another key: evaluate the obligation's other conjuncts on this
                # history (what the mapping shows now, what a reopened one shows after either closing)
                ok, detail = m.cache_clause()
                if not ok:
                    return "confirmed", f"state {state}, history {hist}: {detail}"
                for md in ("gc", "crash"):
                    with tempfile.TemporaryDirectory() as d2:
                        m2 = Machine(d2, state)
                        for op in hist:
                            m2.apply(op)
                        ok, detail = m2.close_clause(md)
                        if not ok:
                            return "confirmed", f"state {state}, history {hist}: {detail}"
                return "contradicted", f"history {hist}: every operation behaved like a dict's and the reopened mapping holds the last written contents"
            ok, detail = m.close_clause(mode)
        except Exception as e:
            return "confirmed", f"history {hist} closing {mode}: {type(e).__name__}: {e}"
    return ("contradicted", f"history {hist}: {detail}") if ok else ("confirmed", f"state {state}, history {hist}: {detail}")
