"""native replay for C43: random operation histories on a real PersistentDict with reopen, against a plain dict model"""
import gc
import random
import tempfile

import numpy as np

from bluesky.utils import PersistentDict


def history(model, info, art):
    rng = random.Random(12345)
    for trial in range(60):
        with tempfile.TemporaryDirectory() as d:
            pd = PersistentDict(d)
            ref = {}
            shadow = {}       # what is persisted
            for step in range(25):
                op = rng.choice(["set", "del", "pop", "popitem", "update", "setdefault", "clear", "mutate", "flush", "reopen"])
                k = rng.choice("abcd")
                v = rng.choice([rng.randint(0, 9), [rng.randint(0, 9)], {"n": rng.random()}, np.arange(3) * rng.randint(1, 4)])
                try:
                    if op == "set":
                        pd[k] = v; ref[k] = v; shadow[k] = _copy(v)
                    elif op == "del" and k in ref:
                        del pd[k]; del ref[k]; del shadow[k]
                    elif op == "pop" and k in ref:
                        pd.pop(k); ref.pop(k); shadow.pop(k)
                    elif op == "popitem" and ref:
                        kk, _ = pd.popitem(); ref.pop(kk); shadow.pop(kk)
                    elif op == "update":
                        pd.update({k: v}); ref[k] = v; shadow[k] = _copy(v)
                    elif op == "setdefault":
                        pd.setdefault(k, v)
                        if k not in ref:
                            ref[k] = v; shadow[k] = _copy(v)
                    elif op == "clear":
                        pd.clear(); ref.clear(); shadow.clear()
                    elif op == "mutate" and k in ref and isinstance(ref[k], list):
                        pd[k].append(7)          # in place ...
                        pd.flush()               # ... made persistent by flush (without flush: not decided, finalizer-dependent)
                        shadow = {kk: _copy(vv) for kk, vv in ref.items()}
                    elif op == "flush":
                        pd.flush(); shadow = {kk: _copy(vv) for kk, vv in ref.items()}
                    elif op == "reopen":
                        del pd                      # one instance at a time: the old one is finalised first
                        gc.collect()
                        pd = PersistentDict(d)
                        got = dict(pd)
                        if not _same(got, shadow):
                            return "confirmed", f"trial {trial} step {step}: reopened {got!r}, last written {shadow!r}"
                        ref = dict(pd)
                        shadow = {kk: _copy(vv) for kk, vv in ref.items()}
                except Exception as e:
                    return "confirmed", f"trial {trial} step {step} op {op}: {type(e).__name__}: {e}"
            del pd
            gc.collect()
            got = dict(PersistentDict(d))
            if not _same(got, shadow):
                return "confirmed", f"trial {trial}: reopened {got!r}, last written {shadow!r}"
    return "contradicted", "60 random histories: reopened content equals the last written values"


def _copy(v):
    import copy
    return copy.deepcopy(v)


def _same(a, b):
    if set(a) != set(b):
        return False
    for k in a:
        x, y = a[k], b[k]
        if isinstance(x, np.ndarray) or isinstance(y, np.ndarray):
            if not np.array_equal(x, y):
                return False
        elif x != y:
            return False
    return True
