"""Native replay adapters for C25 (step scans).

Two kinds of clause are re-evaluated on the real code under CPython:
* trace contracts (per-step stubs, the loops of scan_nd / log_scan, 'the plan is exactly scan_nd(...)'): the real generator and
  the reference of contracts/refs/c25.py are driven by the counterexample's script with scripted sub-plans;
* trajectory / metadata clauses: the real plan or pattern builder is run on concrete inputs taken from the counter-model
  and compared with the documented trajectory computed independently with numpy (linspace columns; inner product = zip;
  outer product = row-major order, axis i reversed on alternate passes iff it is snaked) and with the recorded metadata.
"""
import collections
import inspect
import itertools
import os
import uuid

import numpy as np

from . import generators as G
from .common import num as parse_num

REF_FILE = "contracts/refs/c25.py"


# ------------------------------------------------------------------------------------------------ helpers
def _ref_ns():
    ns = {}
    exec(compile(open(os.path.join(G.ROOT, REF_FILE)).read(), REF_FILE, "exec"), ns)
    return ns


def _r(model, name, default):
    v = model.get(name)
    return float(parse_num(v)) if v is not None else float(default)


def _i(model, name, default, lo=None, hi=None):
    v = model.get(name)
    n = int(parse_num(v)) if v is not None else int(default)
    if lo is not None:
        n = max(lo, n)
    if hi is not None:
        n = min(hi, n)
    return n


def _b(model, name, default):
    v = model.get(name)
    return default if v is None else v.strip() == "True"


class _Uuid:
    """the k-th uuid requested in each run is the same (group names are compared literally)"""

    def __init__(self):
        self.k = 0
        self.real = uuid.uuid4

    def __call__(self):
        self.k += 1
        return uuid.UUID(int=self.k * 0x1000000000000000000000000001)

    def reset(self):
        self.k = 0


_UUID = _Uuid()


def _patch_uuid():
    uuid.uuid4 = _UUID


def _devices(n_motors, names=None):
    from ophyd.sim import SynAxis, SynGauss
    motors = [SynAxis(name=(names[i] if names else f"motor{i}")) for i in range(n_motors)]
    helper = SynAxis(name="helper_axis")
    dets = [SynGauss("det0", helper, "helper_axis", center=0, Imax=1), SynGauss("det1", helper, "helper_axis", center=0, Imax=1)]
    return motors, dets


def _cache_descr(seen):
    def f(x):
        if isinstance(x, dict) and not isinstance(x, collections.OrderedDict) and type(x) in (dict, collections.defaultdict):
            if not any(x is y for y in seen):
                seen.append(x)
            idx = [i for i, y in enumerate(seen) if x is y][0]
            dd = isinstance(x, collections.defaultdict) and x.default_factory is not None and x.default_factory() is None
            return ("pos_cache", idx, dd, dict(x))
        return x
    return f


def _scripted_fn(name, shared, log, descr=None, norm=None):
    """generator function whose k-th call returns the k-th scripted generator (keys as in contracts/C25.py)"""
    calls = [0]

    def f(*a, **k):
        n = calls[0]
        calls[0] += 1
        payload = tuple(a) + tuple(("kw:" + kk, vv) for kk, vv in sorted(k.items()))
        if descr:
            payload = tuple(descr(x) for x in payload)
        if norm:
            payload = norm(payload)
        log.append((name + "()", n, "call", payload))
        return G.ScriptedGen(f"{name}@{n}" if n else name, shared, log)
    return f


def _same_payload(a, b):
    if isinstance(a, (tuple, list)) and isinstance(b, (tuple, list)):
        return len(a) == len(b) and all(_same_payload(x, y) for x, y in zip(a, b))
    if isinstance(a, dict) and isinstance(b, dict):
        return list(a.keys()) == list(b.keys()) and all(_same_payload(a[k], b[k]) for k in a)
    return G.same(a, b) or (isinstance(a, BaseException) and a is b)


def _bisim(info, build, extra_check=None):
    """build(side, fn) -> generator; fn(name, **kw) makes a scripted generator function logging on that side"""
    _patch_uuid()
    script = [s for s in info.get("script", ["send(None)"]) if s != "(loop head)"]
    shared = G.Shared(info.get("oracle", {}))
    logs = {"impl": [], "ref": []}
    outs, states = {}, {}
    sent, thrown = {}, {}
    keep = []
    for side in ("impl", "ref"):
        _UUID.reset()
        seen = []
        try:
            gen, state = build(side, lambda name, norm=None, _log=logs[side]: _scripted_fn(name, shared, _log, _cache_descr(seen), norm))
        except Exception as e:
            return "not-constructible", f"build failed on {side}: {type(e).__name__}: {e}"
        outs[side] = G.drive(gen, script, sent, thrown)
        states[side] = state
        # an abandoned generator is closed when it is garbage-collected, which would add 'close' entries to one log only:
        # keep it alive and compare the logs as they are at the end of the script
        keep.append(gen)
        logs[side] = list(logs[side])
    oi, orr = outs["impl"], outs["ref"]
    diff = None
    for k, (x, y) in enumerate(zip(oi, orr)):
        if x[0] != y[0] or not _same_payload(x[1], y[1]):
            diff = f"step {k} ({script[k]}): real code -> {x[0]} {x[1]!r}; reference -> {y[0]} {y[1]!r}"
            break
    if diff is None and len(oi) != len(orr):
        diff = f"real code produced {len(oi)} outcomes, reference {len(orr)}"
    if diff is None:
        li, lr = logs["impl"], logs["ref"]
        if len(li) != len(lr) or any(x[:3] != y[:3] or not _same_payload(x[3], y[3]) for x, y in zip(li, lr)):
            diff = f"calls on sub-plans differ: real {li[-4:]} vs reference {lr[-4:]}"
    if diff is None and extra_check is not None:
        diff = extra_check(states, oi)
    shown = script if len(script) <= 12 else f"[{len(script)} x send(None)]"
    detail = f"script {shown}, sub-plan outcomes {info.get('oracle')}: " + (diff or "identical behaviour")
    return ("confirmed" if diff else "contradicted"), detail


def _exhaustive_script(info):
    """a counter-model of a data-independent clause carries a short script; also try the plain run to completion"""
    return [dict(info), {**info, "script": ["send(None)"] * 60, "oracle": {}}]


def _first_confirmed(runs):
    last = ("contradicted", "no run")
    for r in runs:
        last = r
        if r[0] == "confirmed":
            return r
    return last


# ------------------------------------------------------------------------------------------------ per-step stubs
def _step_inputs(model, info):
    n = info.get("n")
    if n is None:                                   # generic task: as many motors as the path drew ...
        names = list(info.get("motors", []))
        if model.get("$pad"):                       # ... or, for a clause that failed before the motors mattered, two more
            names += ["padding0", "padding1"]
        n = len(names)
        cached = [info.get("cache", {}).get(nm, False) for nm in names]
        cache_vals = [_r(model, f"cache_{nm}", 0.0) for nm in names]
    else:
        cached = info.get("cached", [False] * n)
        cache_vals = [_r(model, f"cache{i}", 0.0) for i in range(n)]
    pos = [_r(model, f"pos{i}", 1.0 + i) for i in range(n)]
    return n, pos, cached, cache_vals


def _mk_cache(motors, cached, cache_vals, other):
    c = collections.defaultdict(lambda: None)
    for m, has, v in zip(motors, cached, cache_vals):
        if has:
            c[m] = v
    c[other] = 12345.5
    return c


def _cache_check(motors, pos, other):
    def check(states, outcomes):
        ci, cr = states["impl"], states["ref"]
        if dict(ci) != dict(cr):
            def nm(c):
                return {m.name: v for m, v in c.items()}
            return f"position caches differ afterwards: real {nm(ci)} vs reference {nm(cr)}"
        if outcomes and outcomes[-1][0] == "return":
            bad = [m.name for m, p in zip(motors, pos) if ci.get(m) != p]
            if bad or ci.get(other) != 12345.5:
                return f"cache after the step does not hold the point's positions for {bad} (cache {dict(ci)})"
        return None
    return check


def move_per_step(model, info, art):
    from bluesky import plan_stubs as bps
    ref = _ref_ns()
    n, pos, cached, cache_vals = _step_inputs(model, info)
    motors, dets = _devices(n + 1)
    other, motors = motors[-1], motors[:-1]
    runs = []
    for inf in _exhaustive_script(info):
        def build(side, fn):
            cache = _mk_cache(motors, cached, cache_vals, other)
            step = dict(zip(motors, pos))
            g = bps.move_per_step(step, cache) if side == "impl" else ref["ref_move_per_step"](step, cache)
            return g, cache
        runs.append(_bisim(inf, build, _cache_check(motors, pos, other)))
    v, d = _first_confirmed(runs)
    return v, f"{n} motors at {pos}, cached {[(c, v_) for c, v_ in zip(cached, cache_vals)]}: " + d


def one_nd_step(model, info, art):
    from bluesky import plan_stubs as bps
    ref = _ref_ns()
    n, pos, cached, cache_vals = _step_inputs(model, info)
    motors, dets = _devices(n + 1)
    other, motors = motors[-1], motors[:-1]
    default = info.get("default_take_reading", False)
    real_tar = bps.trigger_and_read
    runs = []
    for inf in _exhaustive_script(info):
        def build(side, fn):
            cache = _mk_cache(motors, cached, cache_vals, other)
            step = dict(zip(motors, pos))
            tr = fn("take_reading")
            if side == "impl":
                if default:
                    bps.trigger_and_read = tr
                    return bps.one_nd_step(dets, step, cache), cache
                return bps.one_nd_step(dets, step, cache, tr), cache
            return ref["ref_one_nd_step"](dets, step, cache, tr), cache
        try:
            runs.append(_bisim(inf, build, _cache_check(motors, pos, other)))
        finally:
            bps.trigger_and_read = real_tar
    v, d = _first_confirmed(runs)
    return v, f"{n} motors at {pos}, cached {list(zip(cached, cache_vals))}, take_reading {'defaulted' if default else 'given'}: " + d


def one_1d_step(model, info, art):
    from bluesky import plan_stubs as bps
    ref = _ref_ns()
    motors, dets = _devices(1)
    pos = _r(model, "pos", 1.5)
    default = info.get("default_take_reading", False)
    real_tar = bps.trigger_and_read
    runs = []
    for inf in _exhaustive_script(info):
        def build(side, fn):
            tr = fn("take_reading")
            if side == "impl":
                if default:
                    bps.trigger_and_read = tr
                    return bps.one_1d_step(dets, motors[0], pos), None
                return bps.one_1d_step(dets, motors[0], pos, tr), None
            return ref["ref_one_1d_step"](dets, motors[0], pos, tr), None
        try:
            runs.append(_bisim(inf, build))
        finally:
            bps.trigger_and_read = real_tar
    return _first_confirmed(runs)


# ------------------------------------------------------------------------------------------------ loops of scan_nd / log_scan
class _Transparent:
    """stage_decorator / run_decorator as in the proof: transparent, arguments recorded"""

    def __init__(self):
        self.rec = {}

    def stage(self, devices):
        self.rec["stage"] = list(devices)
        return lambda f: f

    def run(self, md=None):
        self.rec["md"] = md
        return lambda f: f


def _by_name(payload):
    devs = [x for x in payload if hasattr(x, "name") and hasattr(x, "parent")]
    rest = [x for x in payload if not (hasattr(x, "name") and hasattr(x, "parent"))]
    return (tuple(sorted(devs, key=lambda d: d.name)),) + tuple(rest)


def _with_signature(fn, how):
    if how == "1d":
        def per_step(detectors, motor, step):
            return fn(detectors, motor, step)
    elif how == "nd+take_reading":
        def per_step(detectors, step, pos_cache, take_reading=None):
            return fn(detectors, step, pos_cache)
    elif how == "other":
        def per_step(x, y):
            return fn(x, y)
    else:
        def per_step(detectors, step, pos_cache):
            return fn(detectors, step, pos_cache)
    return per_step


def scan_nd(model, info, art):
    from bluesky import plans as bp, plan_stubs as bps, preprocessors as bpp
    from cycler import cycler
    ref = _ref_ns()
    how = info.get("per_step", "default")
    predeclare = info.get("predeclare", False)
    nm = info.get("n_motors", 1)
    npoints = max(info.get("points", 2), 0)
    saved = (bpp.stage_decorator, bpp.run_decorator, bps.one_nd_step, bps.declare_stream, os.environ.get("BLUESKY_PREDECLARE"))
    runs = []
    try:
        for inf in _exhaustive_script(info):
            motors, dets = _devices(nm)
            cyc = cycler(motors[0], [float(i) for i in range(npoints)])
            for j, m in enumerate(motors[1:]):
                cyc = cyc + cycler(m, [10.0 * (j + 1) + i for i in range(npoints)])
            tr = _Transparent()
            bpp.stage_decorator, bpp.run_decorator = tr.stage, tr.run
            if predeclare:
                os.environ["BLUESKY_PREDECLARE"] = "1"
            else:
                os.environ.pop("BLUESKY_PREDECLARE", None)
            md_given = {}
            if info.get("md") == "user":
                md_given = {"purpose": "user"}
            elif info.get("md") == "caller":
                # as in the proof: a calling plan's own description of the scan (values from the counter-model where it has them)
                md_given = {"plan_name": "some_plan", "motors": tuple(m.name for m in reversed(motors)), "shape": (_i(model, "md_shape", 7),),
                            "extents": ([_r(model, "md_lo", -1.5), _r(model, "md_hi", 2.5)],), "snaking": (False,), "num_points": _i(model, "md_num_points", 41),
                            "num_intervals": _i(model, "md_num_intervals", 40), "plan_args": {"args": [_r(model, "md_arg", 0.25)]},
                            "plan_pattern_args": {"num": _i(model, "md_num", 9)}}

            def build(side, fn):
                ps = fn("per_step")
                ds = fn("declare_stream", _by_name)
                if side == "impl":
                    bps.declare_stream = ds
                    kw ={"md": dict(md_given)} if md_given else {}
                    if how == "default":
                        def one_nd_step(detectors, step, pos_cache, take_reading=None):
                            return ps(detectors, step, pos_cache)
                        bps.one_nd_step = one_nd_step
                        return bp.scan_nd(dets, cyc, **kw), None
                    return bp.scan_nd(dets, cyc, per_step=_with_signature(ps, how), **kw), None
                declare = ds(*motors, *dets, name="primary") if predeclare else None
                if how == "1d":
                    return ref["ref_scan_1d_points"](dets, motors[0], [list(p.values())[0] for p in cyc], ps, declare), None
                return ref["ref_scan_points"](dets, list(cyc), ps, collections.defaultdict(lambda: None), declare), None

            def md_check(states, outcomes):
                md = tr.rec.get("md")
                if md is None:
                    return None
                lost = {k: md.get(k, "<missing>") for k, v in md_given.items() if not _same_md(md.get(k, "<missing>"), v)}
                if lost:
                    return f"entries of the md argument {md_given} were recorded as {lost}"
                if "num_points" not in md_given and (md.get("num_points") != len(cyc) or md.get("num_intervals") != len(cyc) - 1):
                    return f"recorded num_points={md.get('num_points')} num_intervals={md.get('num_intervals')} for a trajectory of {len(cyc)} points"
                if set(md.get("motors", ())) != {m.name for m in motors} or tr.rec.get("stage", [])[:2] != dets or set(tr.rec.get("stage", [])[2:]) != set(motors):
                    return f"motors / staged devices recorded wrongly: {md.get('motors')}, {tr.rec.get('stage')}"
                return None
            runs.append(_bisim(inf, build, md_check))
    finally:
        bpp.stage_decorator, bpp.run_decorator, bps.one_nd_step, bps.declare_stream = saved[:4]
        if saved[4] is None:
            os.environ.pop("BLUESKY_PREDECLARE", None)
        else:
            os.environ["BLUESKY_PREDECLARE"] = saved[4]
    v, d = _first_confirmed(runs)
    return v, f"per_step={how}, {nm} motors, {npoints} points, predeclare={predeclare}: " + d


def log_scan(model, info, art):
    return _one_motor_scan(model, info, art, "log_scan")


def _one_motor_scan(model, info, art, which):
    from bluesky import plans as bp, plan_stubs as bps, preprocessors as bpp
    ref = _ref_ns()
    how = info.get("per_step", "default")
    predeclare = info.get("predeclare", False)
    start, stop = _r(model, "start", 0.0), _r(model, "stop", 1.0)
    start, stop = max(min(start, 5.0), -5.0), max(min(stop, 5.0), -5.0)
    num = _i(model, "num", max(info.get("points", 2), 1), 0, 6)
    saved = (bpp.stage_decorator, bpp.run_decorator, bps.one_1d_step, bps.declare_stream, os.environ.get("BLUESKY_PREDECLARE"))
    expected = list(np.logspace(start, stop, num)) if which == "log_scan" else list(np.linspace(start, stop, num))
    runs = []
    try:
        for inf in _exhaustive_script(info):
            motors, dets = _devices(1)
            tr = _Transparent()
            bpp.stage_decorator, bpp.run_decorator = tr.stage, tr.run
            if predeclare:
                os.environ["BLUESKY_PREDECLARE"] = "1"
            else:
                os.environ.pop("BLUESKY_PREDECLARE", None)

            def build(side, fn):
                ps = fn("per_step")
                ds = fn("declare_stream", _by_name)
                if side == "impl":
                    bps.declare_stream = ds
                    plan = getattr(bp, which)
                    if how == "default":
                        def one_1d_step(detectors, motor, step, take_reading=None):
                            return ps(detectors, motor, step)
                        bps.one_1d_step = one_1d_step
                        return plan(dets, motors[0], start, stop, num), None
                    return plan(dets, motors[0], start, stop, num, per_step=ps), None
                declare = ds(motors[0], *dets, name="primary") if predeclare else None
                return ref["ref_scan_1d_points"](dets, motors[0], expected, ps, declare), None

            def md_check(states, outcomes):
                md = tr.rec.get("md")
                if md is None:
                    return None
                if md.get("num_points") != num or md.get("motors") != [motors[0].name] or tr.rec.get("stage") != dets + [motors[0]]:
                    return f"recorded num_points={md.get('num_points')} motors={md.get('motors')} staged={tr.rec.get('stage')} for {num} points"
                pa = dict(md.get("plan_args") or {})
                pa.pop("per_step", None)
                want = {"detectors": [repr(d) for d in dets], "num": num, "start": start, "stop": stop, "motor": repr(motors[0])}
                if (md.get("num_intervals") != num - 1 or not _same_md(pa, want) or "per_step" not in (md.get("plan_args") or {})
                        or not _same_md(md.get("plan_pattern_args"), {"start": start, "stop": stop, "num": num})):
                    return (f"recorded num_intervals={md.get('num_intervals')} plan_args={md.get('plan_args')} plan_pattern_args={md.get('plan_pattern_args')} "
                            f"for {which}(start={start}, stop={stop}, num={num})")
                return None
            runs.append(_bisim(inf, build, md_check))
    finally:
        bpp.stage_decorator, bpp.run_decorator, bps.one_1d_step, bps.declare_stream = saved[:4]
        if saved[4] is None:
            os.environ.pop("BLUESKY_PREDECLARE", None)
        else:
            os.environ["BLUESKY_PREDECLARE"] = saved[4]
    v, d = _first_confirmed(runs)
    return v, f"{which}(start={start}, stop={stop}, num={num}), per_step={how}: " + d


def scan_1d(model, info, art):
    return _one_motor_scan(model, info, art, "_scan_1d")


# ------------------------------------------------------------------------------------------------ documented trajectories
def _zip_points(cols):
    """inner product: the motors move together"""
    names = [c[0] for c in cols]
    return [dict(zip(names, vals)) for vals in zip(*[c[1] for c in cols])]


def _grid_points(cols, flags):
    """outer product in row-major order (first axis slowest); a snaked axis runs backwards on every other pass"""
    lens = [len(c[1]) for c in cols]
    total = int(np.prod(lens)) if lens else 0
    out = []
    for t in range(total):
        pt = {}
        for i, (name, vals) in enumerate(cols):
            R = int(np.prod(lens[i + 1:]))
            d = (t // R) % lens[i]
            if i > 0 and flags[i] and (t // (lens[i] * R)) % 2 == 1:
                d = lens[i] - 1 - d
            pt[name] = vals[d]
        out.append(pt)
    return out


def _close(a, b):
    return set(a) == set(b) and all(abs(float(a[k]) - float(b[k])) <= 1e-9 * (1 + abs(float(b[k]))) for k in a)


def _same_points(got, want):
    if len(got) != len(want):
        return f"{len(got)} points visited, documented {len(want)}"
    for k, (g, w_) in enumerate(zip(got, want)):
        if not _close(g, w_):
            return f"point {k}: visited {g}, documented {w_}"
    return None


def _cycler_points(cyc):
    return [{m.name: v for m, v in p.items()} for p in cyc]


class _RealRaised(Exception):
    pass


def _real(f):
    """call into the real code on valid, non-degenerate inputs: an exception is itself a departure from the documentation"""
    try:
        return f()
    except Exception as e:
        raise _RealRaised(f"the real function raised {type(e).__name__}: {e}")


def _iter_plan(plan, problems):
    """the real plan is run on valid, non-degenerate inputs: an exception is itself a departure from the documentation"""
    try:
        yield from plan
    except Exception as e:
        problems.append(f"the plan raised {type(e).__name__}: {e}")


def _dry_run(plan):
    """run a plan without a RunEngine (every response None): the motor positions commanded when each reading is
    taken, the checkpoints, and the start metadata"""
    where, points, md, cps, readings_since_cp = {}, [], None, 0, 0
    problems = []
    for msg in _iter_plan(plan, problems):
        if msg.command == "open_run":
            md = dict(msg.kwargs)
        elif msg.command == "checkpoint":
            cps += 1
            readings_since_cp = 0
        elif msg.command == "set":
            where[msg.obj.name] = msg.args[0]
        elif msg.command == "create":
            points.append(dict(where))
            readings_since_cp += 1
            if readings_since_cp != 1:
                problems.append(f"reading {len(points)} is not preceded by its own checkpoint")
    return points, md, problems


def _axes(model, n, with_num=False, names=None):
    ax = []
    for i in range(n):
        a = {"start": _r(model, f"start{i}", 0.5 * i), "stop": _r(model, f"stop{i}", 1.0 + i)}
        if with_num:
            a["num"] = _i(model, f"num{i}", 2 + (i % 2), 1, 4)
        ax.append(a)
    return ax


def _pattern_args(model, n, pattern):
    motors, dets = _devices(n)
    ax = _axes(model, n, with_num=True)
    args, flags = [], []
    for i, (m, a) in enumerate(zip(motors, ax)):
        args += [m, a["start"], a["stop"], a["num"]]
        fl = False
        if pattern == 2 and i > 0:
            fl = _b(model, f"snake{i}", True)
            args.append(fl)
        flags.append(fl)
    cols = [(m.name, list(np.linspace(a["start"], a["stop"], a["num"]))) for m, a in zip(motors, ax)]
    return motors, dets, ax, args, flags, cols


def inner_product(model, info, art):
    from bluesky import plan_patterns as pp
    n = info.get("n", 2)
    num = _i(model, "num", 3, 1, 6)
    motors, _ = _devices(n)
    ax = _axes(model, n)
    args = [x for m, a in zip(motors, ax) for x in (m, a["start"], a["stop"])]
    got = _real(lambda: _cycler_points(pp.inner_product(num, args)))
    want = _zip_points([(m.name, list(np.linspace(a["start"], a["stop"], num))) for m, a in zip(motors, ax)])
    d = _same_points(got, want)
    return ("confirmed" if d else "contradicted"), f"inner_product(num={num}, {ax}): " + (d or "documented trajectory")


def _lists(model, n, equal=True, info=None):
    """the counter-model's position lists where it describes them, else fixed non-monotone lists of the model's lengths"""
    L0 = _i(model, "len_list0", 3, 1, 4)
    out = []
    for i in range(n):
        ml = _model_list(model, info or {}, i)
        if ml is not None:
            out.append(ml)
            continue
        L = L0 if equal else _i(model, f"len_list{i}", 2 + i, 1, 4)
        out.append([round(0.5 + 1.5 * k + 10 * i, 3) if k % 2 == 0 else round(-0.25 * k + 10 * i, 3) for k in range(L)])
    if equal and len({len(l_) for l_ in out}) != 1:
        return _lists({}, n, equal)
    return out


def inner_list_product(model, info, art):
    from bluesky import plan_patterns as pp
    n = info.get("n", 2)
    motors, _ = _devices(n)
    lens = [_i(model, f"len_list{i}", 3, 1, 4) for i in range(n)]
    lists = [[float(k) + 10 * i for k in range(L)] for i, L in enumerate(lens)]
    args = [x for m, L in zip(motors, lists) for x in (m, L)]
    same_len = len(set(lens)) == 1
    try:
        got = _cycler_points(pp.inner_list_product(args))
    except ValueError as e:
        return ("contradicted" if not same_len else "confirmed"), f"lists of lengths {lens}: ValueError {e}"
    if not same_len:
        return "confirmed", f"lists of lengths {lens} accepted"
    d = _same_points(got, _zip_points([(m.name, L) for m, L in zip(motors, lists)]))
    return ("confirmed" if d else "contradicted"), f"inner_list_product over lists {lists}: " + (d or "documented trajectory")


def chunk(model, info, art):
    from bluesky import plan_patterns as pp
    n, pattern = info.get("n", 2), info.get("pattern", 1)
    motors, dets, ax, args, flags, cols = _pattern_args(model, n, pattern)
    want = [(m, a["start"], a["stop"], a["num"], f) for m, a, f in zip(motors, ax, flags)]
    outs = []
    for pat in (None, getattr(pp.OuterProductArgsPattern, f"PATTERN_{pattern}")):
        try:
            got = [tuple(c) for c in pp.chunk_outer_product_args(args, pat)]
        except Exception as e:
            return "confirmed", f"chunk_outer_product_args({args}, {pat}) raised {type(e).__name__}: {e}"
        if got != want:
            return "confirmed", f"chunk_outer_product_args({args}, {pat}) -> {got}, documented {want}"
        outs.append(got)
    return "contradicted", f"chunks as documented: {outs[0]}"


def outer_product(model, info, art):
    from bluesky import plan_patterns as pp
    n, pattern = info.get("n", 2), info.get("pattern", 1)
    motors, dets, ax, args, flags, cols = _pattern_args(model, n, pattern)
    got = _real(lambda: _cycler_points(pp.outer_product(args)))
    d = _same_points(got, _grid_points(cols, flags))
    return ("confirmed" if d else "contradicted"), f"outer_product({[a if not hasattr(a, 'name') else a.name for a in args]}): " + (d or "documented trajectory")


def _snake_arg(info, motors):
    kind = info.get("snake_axes", "False")
    flags = [bool(f) if not isinstance(f, str) else f == "True" for f in info.get("flags", [False] * len(motors))]
    if kind == "True":
        return True, [False] + [True] * (len(motors) - 1), True
    if kind == "list":
        return [m for m, f in zip(motors, flags) if f], flags, True
    if kind == "False":
        return False, [False] * len(motors), True
    return None, [False] * len(motors), False


def outer_list_product(model, info, art):
    from bluesky import plan_patterns as pp
    n = info.get("n", 2)
    motors, _ = _devices(n)
    lists = _lists(model, n, equal=False)
    snake_axes, flags, _ = _snake_arg(info, motors)
    args = [x for m, L in zip(motors, lists) for x in (m, L)]
    got = _real(lambda: _cycler_points(pp.outer_list_product(args, snake_axes if snake_axes is not None else False)))
    d = _same_points(got, _grid_points([(m.name, L) for m, L in zip(motors, lists)], flags))
    return ("confirmed" if d else "contradicted"), f"outer_list_product(lists {lists}, snake_axes={info.get('snake_axes')} {flags}): " + (d or "documented trajectory")


# ------------------------------------------------------------------------------------------------ plans
def _delegation(info, qual_name, make_plan, hook_module, hook_name, returns=True):
    """'the plan is exactly <hook_name>(...)': the hooked callee is a scripted generator, the plan is driven by the script"""
    ref = _ref_ns()
    real = getattr(hook_module, hook_name)
    runs = []
    try:
        for inf in _exhaustive_script(info):
            def build(side, fn):
                f = fn(hook_name, lambda payload: ())            # the arguments are judged by the trajectory clause
                if side == "impl":
                    setattr(hook_module, hook_name, f)
                    return make_plan(), None
                return ref["ref_delegate" if returns else "ref_delegate_noresult"](f()), None
            runs.append(_bisim(inf, build))
    finally:
        setattr(hook_module, hook_name, real)
    return _first_confirmed(runs)


def _plan_verdict(checks, deleg, info=None):
    """checks: problems found on the real code, each a text (clause 'trajectory') or a pair (clause, text); a counterexample of
    one of the separately named metadata clauses (info['clause'] = args / counts / md) is confirmed only by a problem of that clause"""
    clause = (info or {}).get("clause", "trajectory")
    probs = [(c if isinstance(c, tuple) else ("trajectory", c)) for c in checks if c]
    mine = [t for cl, t in probs if cl == clause]
    if mine:
        return "confirmed", "; ".join(mine)
    if clause == "trajectory" and deleg[0] == "confirmed":
        return deleg
    other = "; ".join(f"[{cl}] {t}" for cl, t in probs)
    return "contradicted", f"clause '{clause}' holds on the real code" + (f" (other clauses: {other})" if other else "; trajectory, readings and metadata as documented") + "; " + deleg[1]


def _md_args_problems(md, plan, dets, md_args, points, extra=None, pattern_args=None):
    """the recorded plan_args / plan_pattern_args / counts against the call that was made (clauses 'args' and 'counts')"""
    out = []
    if md is None:
        return out
    want = {"detectors": [repr(d) for d in dets], **(extra or {}), "args": md_args, "per_step": "None"}
    got = md.get("plan_args")
    if not _same_md(got, want):
        out.append(("args", f"{plan}: plan_args recorded as {got!r}, the call was {want!r}"))
    want_pa = {"args": md_args, **(pattern_args or {})}
    if not _same_md(md.get("plan_pattern_args"), want_pa):
        out.append(("args", f"{plan}: plan_pattern_args recorded as {md.get('plan_pattern_args')!r}, the call was {want_pa!r}"))
    if md.get("num_points") != points or md.get("num_intervals") != points - 1:
        out.append(("counts", f"{plan}: num_points={md.get('num_points')} num_intervals={md.get('num_intervals')} recorded for {points} points"))
    return out


def _same_md(a, b):
    if isinstance(a, dict) and isinstance(b, dict):
        return set(a) == set(b) and all(_same_md(a[k], b[k]) for k in a)
    if isinstance(a, (list, tuple)) and isinstance(b, (list, tuple)):
        return len(a) == len(b) and all(_same_md(x, y) for x, y in zip(a, b))
    if isinstance(a, (list, tuple, dict)) or isinstance(b, (list, tuple, dict)):
        return False
    if isinstance(a, bool) or isinstance(b, bool) or isinstance(a, str) or isinstance(b, str) or a is None or b is None:
        return type(a) is type(b) and a == b
    try:
        return float(a) == float(b)
    except (TypeError, ValueError):
        return a == b


def _model_list(model, info, i):
    """the position list the counter-model describes: its length (model len_list<i> or info['lens'][i]), the places that were
    read (list<i>_at_<k> from the front, list<i>_at_m<k> from the back), its minimum / maximum and where they are; places the
    model says nothing about are filled with the midpoint.  None if the model does not describe a list (or a very long one)."""
    lens = info.get("lens")
    if lens is not None and i < len(lens):
        L = int(lens[i])
    elif model.get(f"len_list{i}") is not None:
        L = int(parse_num(model[f"len_list{i}"]))
    else:
        return None
    if not 1 <= L <= 12:
        return None
    given = {}
    for name, v in model.items():
        if name.startswith(f"list{i}_at_m"):
            k = L - int(name[len(f"list{i}_at_m"):])
        elif name.startswith(f"list{i}_at_") and name[len(f"list{i}_at_"):].isdigit():
            k = int(name[len(f"list{i}_at_"):])
        else:
            continue
        if 0 <= k < L:
            given[k] = float(parse_num(v))
    lo, hi = model.get(f"min_list{i}"), model.get(f"max_list{i}")
    if lo is not None and hi is not None:
        lo, hi = float(parse_num(lo)), float(parse_num(hi))
        out = [(lo + hi) / 2] * L
        kmin, kmax = _i(model, f"argmin_list{i}", 0, 0, L - 1), _i(model, f"argmax_list{i}", L - 1, 0, L - 1)
        out[kmin], out[kmax] = lo, hi
        for k, v in given.items():
            out[k] = v
        if min(out) != lo or max(out) != hi:
            return None
        return out
    if lens is not None or len(given) == L:
        return [given.get(k, 0.0) for k in range(L)]       # a position the model leaves out is unconstrained
    return None


def _per_step(info):
    return None


def scan(model, info, art):
    from bluesky import plans as bp
    n = info.get("n", 2)
    num = _i(model, "num", 3, 1, 6)
    motors, dets = _devices(n)
    ax = _axes(model, n)
    flat = [x for m, a in zip(motors, ax) for x in (m, a["start"], a["stop"])]

    given = {"plan_name": "x2x_scan", "plan_args": {"num": 17, "motor1": "a"}, "purpose": "user"} if info.get("md") else None

    def make():
        kw = {"md": dict(given)} if given else {}
        return bp.scan(dets, *flat, num, **kw) if info.get("num") != "keyword num" else bp.scan(dets, *flat, num=num, **kw)
    pts, md, problems = _dry_run(make())
    want = _zip_points([(m.name, list(np.linspace(a["start"], a["stop"], num))) for m, a in zip(motors, ax)])
    checks = [_same_points(pts, want)] + problems
    if md is not None and (md.get("num_points") != len(want) or tuple(md.get("motors", ())) != tuple(m.name for m in motors)):
        checks.append(f"metadata num_points={md.get('num_points')} motors={md.get('motors')} for {len(want)} points over {[m.name for m in motors]}")
    md_args = [x for m, a in zip(motors, ax) for x in (repr(m), a["start"], a["stop"])]
    meta = _md_args_problems(md, "scan", dets, md_args, len(want), extra={"num": num}, pattern_args={"num": num})
    if given and md is not None:
        meta = [p for p in meta if "plan_args recorded" not in p[1]]
        lost = {k: md.get(k) for k, v in given.items() if not _same_md(md.get(k), v)}
        if lost:
            meta += [("md", f"scan: entries of the md argument {given} recorded as {lost}"), ("args", f"scan: plan_args of the md argument recorded as {md.get('plan_args')}")][:1 + ("plan_args" in lost)]
    v, d = _plan_verdict(checks + meta, _delegation(info, "scan", make, bp, "scan_nd"), info)
    return v, f"scan({ax}, num={num}{', md=' + str(given) if given else ''}): " + d


def inner_product_scan(model, info, art):
    from bluesky import plans as bp
    num = _i(model, "num", 3, 1, 6)
    motors, dets = _devices(2)
    ax = _axes(model, 2)
    flat = [x for m, a in zip(motors, ax) for x in (m, a["start"], a["stop"])]

    def make():
        return bp.inner_product_scan(dets, num, *flat)
    pts, md, problems = _dry_run(make())
    want = _zip_points([(m.name, list(np.linspace(a["start"], a["stop"], num))) for m, a in zip(motors, ax)])
    checks = [_same_points(pts, want)] + problems
    v, d = _plan_verdict(checks, _delegation(info, "inner_product_scan", make, bp, "scan", returns=False))
    return v, f"inner_product_scan(num={num}, {ax}): " + d


def list_scan(model, info, art):
    from bluesky import plans as bp
    n = info.get("n", 2)
    motors, dets = _devices(n)
    lists = _lists(model, n, equal=True, info=info)
    flat = [x for m, l_ in zip(motors, lists) for x in (m, l_)]

    def make():
        return bp.list_scan(dets, *flat)
    pts, md, problems = _dry_run(make())
    want = _zip_points([(m.name, l_) for m, l_ in zip(motors, lists)])
    checks = [_same_points(pts, want)] + problems
    if md is not None and (md.get("num_points") != len(want) or list(md.get("motors", ())) != [m.name for m in motors]):
        checks.append(f"metadata num_points={md.get('num_points')} motors={md.get('motors')} for {len(want)} points")
    md_args = [x for m, l_ in zip(motors, lists) for x in (repr(m), l_)]
    checks += _md_args_problems(md, "list_scan", dets, md_args, len(want))
    v, d = _plan_verdict(checks, _delegation(info, "list_scan", make, bp, "scan_nd"), info)
    return v, f"list_scan(lists {lists}): " + d


def grid_scan(model, info, art):
    from bluesky import plans as bp
    n, pattern = info.get("n", 2), info.get("pattern", 1)
    motors, dets, ax, args, flags, cols = _pattern_args(model, n, pattern)
    kw = {}
    if pattern == 1:
        snake_axes, flags, given = _snake_arg(info, motors)
        if given:
            kw["snake_axes"] = snake_axes
    else:
        fl = info.get("flags")
        # pattern 2: flags are the model's snake{i}

    def make():
        return bp.grid_scan(dets, *args, **kw)
    pts, md, problems = _dry_run(make())
    want = _grid_points(cols, flags)
    checks = [_same_points(pts, want)] + problems
    if md is not None:
        if md.get("num_points") != len(want) or tuple(md.get("shape", ())) != tuple(a["num"] for a in ax):
            checks.append(f"metadata num_points={md.get('num_points')} shape={md.get('shape')} for a {[a['num'] for a in ax]} grid")
        if [list(e) for e in md.get("extents", ())] != [[a["start"], a["stop"]] for a in ax]:
            checks.append(f"metadata extents={md.get('extents')} for axes {ax}")
        if [bool(s) for s in md.get("snaking", ())] != [bool(f) for f in flags]:
            checks.append(f"metadata snaking={md.get('snaking')} but axes snaked {flags}")
    md_args = [x for i, (m, a) in enumerate(zip(motors, ax)) for x in [repr(m), a["start"], a["stop"], a["num"]] + ([bool(flags[i])] if i else [])]
    checks += _md_args_problems(md, "grid_scan", dets, md_args, len(want))
    v, d = _plan_verdict(checks, _delegation(info, "grid_scan", make, bp, "scan_nd"), info)
    return v, f"grid_scan(axes {ax}, pattern {pattern}, snake {flags} via {info.get('snake_axes')}): " + d


def list_grid_scan(model, info, art):
    from bluesky import plans as bp
    n = info.get("n", 2)
    motors, dets = _devices(n)
    lists = _lists(model, n, equal=False, info=info)
    snake_axes, flags, given = _snake_arg(info, motors)
    kw = {"snake_axes": snake_axes} if given else {}
    flat = [x for m, l_ in zip(motors, lists) for x in (m, l_)]

    def make():
        return bp.list_grid_scan(dets, *flat, **kw)
    pts, md, problems = _dry_run(make())
    want = _grid_points([(m.name, l_) for m, l_ in zip(motors, lists)], flags)
    checks = [_same_points(pts, want)] + problems
    if md is not None:
        if md.get("num_points") != len(want) or tuple(md.get("shape", ())) != tuple(len(l_) for l_ in lists):
            checks.append(f"metadata num_points={md.get('num_points')} shape={md.get('shape')} for lists of lengths {[len(l_) for l_ in lists]}")
        if [list(e) for e in md.get("extents", ())] != [[min(l_), max(l_)] for l_ in lists]:
            checks.append(f"metadata extents={md.get('extents')} for lists {lists}: not the lowest / highest position of each axis")
        sa = repr(snake_axes if given else False)
        if md.get("snake_axes") != sa:
            checks.append(("args", f"list_grid_scan: snake_axes recorded as {md.get('snake_axes')!r}, requested {sa}"))
    md_args = [x for m, l_ in zip(motors, lists) for x in (repr(m), l_)]
    checks += _md_args_problems(md, "list_grid_scan", dets, md_args, len(want), pattern_args={"snake_axes": repr(snake_axes if given else False)})
    v, d = _plan_verdict(checks, _delegation(info, "list_grid_scan", make, bp, "scan_nd"), info)
    return v, f"list_grid_scan(lists {lists}, snake_axes={info.get('snake_axes')} {flags}): " + d


def x2x_scan(model, info, art):
    from bluesky import plans as bp
    num = _i(model, "num", 3, 1, 6)
    start, stop = _r(model, "start", -1.0), _r(model, "stop", 2.0)
    motors, dets = _devices(2, names=["motor1", "motor2"])
    origin = [0.75, -2.0]
    for m, o in zip(motors, origin):
        m.set(o)

    def make():
        return bp.x2x_scan(dets, motors[0], motors[1], start, stop, num)
    pts, md, problems = _dry_run(make())
    want = _zip_points([("motor1", list(origin[0] + np.linspace(start, stop, num))), ("motor2", list(origin[1] + np.linspace(start, stop, num) / 2))])
    # the plan ends by sending both motors back (reset_positions): those sets come after the last reading
    checks = [_same_points(pts, want)] + problems
    from bluesky import preprocessors as bpp
    saved = bpp.reset_positions_decorator, bpp.relative_set_decorator
    given = {}

    def transparent(key):
        def deco(devices=None):
            given[key] = list(devices or [])
            return lambda f: f
        return deco
    # as in the proof: what the two wrappers do is property C24; here they are transparent and their devices recorded
    bpp.reset_positions_decorator, bpp.relative_set_decorator = transparent("reset"), transparent("relative")
    try:
        deleg = _delegation(info, "x2x_scan", make, bp, "scan", returns=False)
    finally:
        bpp.reset_positions_decorator, bpp.relative_set_decorator = saved
    if given.get("reset") != motors or given.get("relative") != motors:
        checks.append(f"relative / reset wrappers were given {given}, documented: both motors")
    want_args = {"detectors": [repr(x) for x in dets], "motor1": "motor1", "motor2": "motor2", "start": start, "stop": stop, "num": num, "per_step": "None"}
    if md is not None and not _same_md(md.get("plan_args"), want_args):
        checks.append(("args", f"x2x_scan: plan_args recorded as {md.get('plan_args')!r}, the call was {want_args!r}"))
    v, d = _plan_verdict(checks, deleg, info)
    return v, f"x2x_scan(start={start}, stop={stop}, num={num}) from {origin}: " + d


# ------------------------------------------------------------------------------------------------ input variants
_ALT = {"num": "4", "num0": "3", "num1": "2", "num2": "3", "start0": "-1", "stop0": "2", "start1": "5", "stop1": "3", "start2": "0", "stop2": "7",
        "snake1": "True", "snake2": "False", "len_list0": "3", "len_list1": "2", "len_list2": "3", "start": "-2", "stop": "3",
        "pos0": "1", "pos1": "2", "pos2": "3", "cache0": "1", "cache1": "5", "cache2": "3", "pos": "2"}


def _variants(fn):
    """Many clauses of this property fail for structural reasons (a wrong argument, a wrong flag), so the solver's model is
    arbitrary and may be a degenerate input on which the difference does not show (num = 1, equal start and stop ...).
    The adapter therefore evaluates the clause on the model's input first and then on two fixed non-degenerate inputs; it
    reports 'confirmed' with the first input on which the real code departs from the documented behaviour."""
    def wrapper(model, info, art):
        first = None
        for m in (model, {}, _ALT, {**model, "$pad": "1"}, {**_ALT, "$pad": "1"}):
            try:
                r = fn(dict(m), info, art)
            except _RealRaised as e:
                r = ("confirmed", str(e))
            if r[0] == "confirmed":
                return r
            first = first or r
        return first
    wrapper.__name__ = fn.__name__
    return wrapper


for _name in ("move_per_step", "one_nd_step", "one_1d_step", "scan_nd", "log_scan", "scan_1d", "inner_product", "inner_list_product", "chunk",
              "outer_product", "outer_list_product", "scan", "inner_product_scan", "list_scan", "grid_scan", "list_grid_scan", "x2x_scan"):
    globals()[_name] = _variants(globals()[_name])
