"""C19's clauses as plain functions over observed data (no imports): evaluated by the contracts (on the symbolic execution of
the real code) and by the native replay adapters (on the real code) - the same clause on both sides.

Vocabulary.  A *delivery* is what happens to one document handed to Dispatcher.process.  `order`: the labels of the callbacks
subscribed to the document's kind, in subscription order (a callback subscribed *while* the document is being delivered is
appended: its token is the newest).  `invoked`: labels in invocation order.  `may`: callbacks whose subscription was changed by
another callback during this very delivery (unsubscribed before their turn / just subscribed): the statement does not say
whether they still / already count as subscribed, so 0 or 1 invocation is accepted for them - never 2.  `raised`: the label of
the callback whose exception ended the delivery (exceptions not ignored), else None."""


def delivery_problems(order, invoked, may=(), raised=None, what="document"):
    problems = []
    pos = {lab: i for i, lab in enumerate(order)}
    for lab in invoked:
        if lab not in pos:
            problems.append(f"{what}: delivered to {lab}, which is not subscribed to it")
    idx = [pos[lab] for lab in invoked if lab in pos]
    if any(b == a for a, b in zip(idx, idx[1:])) or len(set(idx)) != len(idx):
        problems.append(f"{what}: delivered more than once to a callback (invocations {list(invoked)})")
    elif any(b < a for a, b in zip(idx, idx[1:])):
        problems.append(f"{what}: callbacks invoked out of subscription order (invocations {list(invoked)}, subscriptions {list(order)})")
    if raised is not None and raised not in pos:
        problems.append(f"{what}: {raised} raised but is not subscribed")
    cut = pos.get(raised, len(order)) if raised is not None else len(order)
    for lab in order:
        if pos[lab] <= cut and lab not in may and lab not in invoked:
            problems.append(f"{what}: {lab} did not receive it")
        if pos[lab] > cut and lab in invoked:
            problems.append(f"{what}: {lab} was invoked although {raised} had ended the delivery with an exception")
    return problems


def process_outcome_problems(outcome, ignore, raised, what="document"):
    """outcome: ('ok',) | ('raise', is_the_callbacks_exception: bool, text)"""
    if raised is not None and not ignore:
        if outcome[0] != "raise" or not outcome[1]:
            return [f"{what}: exceptions are not ignored and {raised} raised, but the caller got {outcome}"]
        return []
    if outcome[0] != "ok":
        return [f"{what}: nothing should propagate to the caller, got {outcome}"]
    return []


# ---------------------------------------------------------------------------------------------- a whole RE(plan) call
def expected_emission(full, first_raise):
    """`full`: the (name, run) sequence the plan produces when nothing fails, the engine closing (last) the runs the plan leaves
    open.  With exceptions not ignored and a callback raising at document #first_raise the plan ends there and the engine closes
    every run that is open at that moment (a run whose own stop document was being delivered cannot be closed a second time)."""
    if first_raise is None or first_raise >= len(full):
        return list(full)
    head = list(full[:first_raise + 1])
    opened = [r for n, r in head if n == "start"]
    stopped = [r for n, r in head if n == "stop"]
    return head + [("stop", r) for r in opened if r not in stopped]


def run_problems(E, calls, subs, raises, ignore, outcome, full):
    """E: documents handed to the dispatcher, in order: dicts {'name', 'uid', 'run_start', 'exit_status'} (what applies);
    calls: (label, name argument, index into E or -1) in invocation order;
    subs: (label, kinds, since, until, may) in subscription order: subscribed to `kinds` ('all' or a document name) since
          document #since (-1: before the plan; j: while #j was being delivered) until #until (None: for ever; j: unsubscribed
          while #j was being delivered, so #j is the last document it is entitled to); may: the one document index for which 0 or
          1 delivery is accepted (the subscription was changed by another callback during that delivery), else None;
    raises: {document index: label} the callbacks that raised; outcome: ('ok',) | ('raise', is_first_callback_exception, text);
    full: see expected_emission.  -> (delivery problems, outcome problems, problems with the closing of runs other than the one
    whose stop was being delivered when the first callback raised, what is not met when the first callback raised on a stop
    document: the closing of that run as failed, RE(plan) raising the exception)."""
    delivery, out, closing, closing_at_stop = [], [], [], []
    first_raise = None if ignore or not raises else min(raises)
    # every callback: every document of its kinds, once, in emission order, callbacks in subscription order
    if any(t < 0 for lab, name, t in calls):
        delivery.append("a callback received a document that was never handed to the dispatcher")
    ts = [t for lab, name, t in calls if t >= 0]
    if any(b < a for a, b in zip(ts, ts[1:])):
        delivery.append(f"documents were not delivered in emission order (document indices seen by the callbacks: {ts})")
    for lab, name, t in calls:
        if t >= 0 and name != E[t]["name"]:
            delivery.append(f"{lab} was given the name {name!r} with a {E[t]['name']!r} document")
    for t, doc in enumerate(E):
        order, may = [], set()
        for lab, kinds, since, until, may_at in subs:
            if kinds != "all" and kinds != doc["name"]:
                continue
            if since > t or (until is not None and until < t):
                continue
            order.append(lab)
            if may_at == t:
                may.add(lab)
        invoked = [lab for lab, name, tt in calls if tt == t]
        delivery += delivery_problems(order, invoked, may, None if ignore else raises.get(t), f"document #{t} ({doc['name']})")
    # the plan
    names = [(d["name"]) for d in E]
    want = expected_emission(full, first_raise)
    if names != [n for n, r in want]:
        (out if first_raise is None else closing).append(f"the engine emitted {names}, expected {[n for n, r in want]}")
    if first_raise is None:
        if outcome[0] != "ok":
            out.append(f"no callback exception may end the plan, but RE(plan) raised {outcome[2]}")
    elif outcome[0] != "raise" or not outcome[1]:
        at_stop = first_raise < len(E) and E[first_raise]["name"] == "stop"
        (closing_at_stop if at_stop else out).append(f"RE(plan) should raise the exception of the callback that failed at document #{first_raise}, got {outcome}")
    # runs
    starts = [(t, d) for t, d in enumerate(E) if d["name"] == "start"]
    for t0, s in starts:
        stops = [(t, d) for t, d in enumerate(E) if d["name"] == "stop" and d.get("run_start") == s["uid"]]
        where = closing
        if first_raise is not None and t0 <= first_raise and any(t == first_raise for t, d in stops):
            where = closing_at_stop
        if len(stops) != 1:
            where.append(f"run opened by document #{t0}: {len(stops)} stop documents")
            continue
        t1, stop = stops[0]
        failed = first_raise is not None and t0 <= first_raise <= t1
        if stop.get("exit_status") != ("fail" if failed else "success"):
            where.append(f"run opened by document #{t0}: closed with exit_status {stop.get('exit_status')!r}, expected {'fail' if failed else 'success'!r}")
    return delivery, out, closing, closing_at_stop


# ---------------------------------------------------------------------------------------------- re-entrant (un)subscription
ACTIONS = ["unsubscribes itself", "unsubscribes another callback", "subscribes a further callback", "is a dead reference",
           "replaces itself by a further callback"]


def resubscription_problems(sc, acted_at, error, calls, outs):
    """two 'event' documents are processed by a Dispatcher with sc['n'] callbacks cb0.. subscribed to 'event' in that order;
    callback #sc['actor'] performs sc['action'] (index into ACTIONS) the first time it is invoked (that was during document
    #acted_at, None: never); callback #sc['raising'] (if any) raises on the first document.  calls[t]: (label, name argument,
    index of the document received) in invocation order for document t; outs[t]: ('ok',) | ('raise', is_that_exception, text)."""
    n, actor, action, target, raising, ignore = sc["n"], sc["actor"], sc["action"], sc["target"], sc["raising"], sc["ignore"]
    labels = [f"cb{i}" for i in range(n)]
    problems = []
    if error:
        problems.append(f"(un)subscribing from inside a callback raised {error}")
    gone = set()
    if action in (0, 3, 4):
        gone.add(actor)
    if action == 1:
        gone.add(target)
    for t in (0, 1):
        what = "first document" if t == 0 else "second document"
        settled = acted_at is not None and acted_at < t
        order = [lab for i, lab in enumerate(labels) if not (settled and i in gone)]
        may = set()
        if action in (2, 4) and acted_at is not None and acted_at <= t:
            order.append("new")
        if acted_at == t:
            if action in (2, 4):
                may.add("new")
            if action == 1 and target > actor:
                may.add(f"cb{target}")
        raised = f"cb{raising}" if (raising is not None and t == 0) else None
        problems += delivery_problems(order, [lab for lab, name, i in calls[t]], may, None if ignore else raised, what)
        problems += process_outcome_problems(outs[t], ignore, raised, what)
        for lab, name, i in calls[t]:
            if name != "event" or i != t:
                problems.append(f"{what}: {lab} was called with name {name!r} and document #{i}")
    if acted_at is None:
        problems.append("the acting callback was never invoked")
    return problems
