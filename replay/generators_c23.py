"""replay adapter for C23 lazily_stage_wrapper counterexamples"""
from bluesky.utils import Msg

from . import generators as G


class Dev:
    def __init__(self, name, parent=None):
        self.name, self.parent = name, parent

    def __repr__(self):
        return f"<{self.name}>"


def lazily(model, info, art):
    R = Dev("R")
    U = {"R": R, "A": Dev("A", R), "B": Dev("B", R), "X": Dev("X")}
    msgs = info.get("messages", {})

    def factory(key):
        cmd, obj = msgs.get(key, ["null", None])
        return Msg(cmd, U.get(obj))
    info = dict(info)
    info["cfg"] = {"module": "bluesky.preprocessors", "ref_file": "contracts/refs/c23.py", "objects": {"plan": "gen"},
                   "impl_build": "lazily_stage_wrapper(plan)", "ref_build": "ref_lazily_stage_wrapper(plan)"}
    return G.script(model, info, art, msg_factory=factory)
