"""replay adapters for bluesky.utils functions (C38 ...)"""
import math
from fractions import Fraction

import numpy as np

from bluesky.utils import truncate_json_overflow
from .common import num

LIM = 2 ** 53 - 1


def _frac(s):
    if s is None:
        return Fraction(0)
    s = s.strip()
    neg = False
    if s.startswith("(- "):
        neg, s = True, s[3:-1]
    s = s.rstrip("?")
    f = Fraction(s)
    return -f if neg else f


def truncate_leaf(model, info, art):
    tag = info["tag"]
    x = _frac(model.get("x"))
    if tag == "int":
        v = int(x)
    elif tag == "bool":
        v = model.get("x") == "True"
    elif tag == "float":
        v = float(x)
    elif tag == "np_int":
        v = np.int64(int(x)) if -2 ** 63 <= int(x) < 2 ** 63 else np.uint64(int(x))
    elif tag == "np_f64":
        v = np.float64(float(x))
    elif tag == "np_f32":
        v = np.float32(float(x))
    elif tag.endswith("_ninf"):
        v = {"float": float, "np_f64": np.float64, "np_f32": np.float32}[tag[:-5]]("-inf")
    elif tag.endswith("_inf"):
        v = {"float": float, "np_f64": np.float64, "np_f32": np.float32}[tag[:-4]]("inf")
    elif tag.endswith("_nan"):
        v = {"float": float, "np_f64": np.float64, "np_f32": np.float32}[tag[:-4]]("nan")
    elif tag == "str":
        v = "s"
    else:
        v = None
    if tag in ("float", "np_f64", "np_f32") and Fraction(float(v)) != x:
        return "not-constructible", f"model value {x} is not exactly representable as {tag}"
    import warnings
    with warnings.catch_warnings():
        warnings.simplefilter("ignore")
        out = truncate_json_overflow(v)
    ok = True
    why = []
    if isinstance(out, (int, float, np.integer, np.floating)) and not isinstance(out, (bool, np.bool_)):
        fo = float(out)
        if math.isinf(fo):
            ok = False
            why.append("result is infinite")
        elif (not math.isnan(fo) and fo == int(fo) and not (-LIM <= int(out) <= LIM)
              and not (isinstance(v, (float, np.floating)) and math.isinf(float(v)))):
            # (for an infinite input only finiteness of the result is required, see contracts/C38.py)
            ok = False
            why.append(f"integral result {out!r} outside +-(2**53-1)")
        if isinstance(v, (int, float, np.integer, np.floating)) and not isinstance(v, (bool, np.bool_)):
            fv = float(v)
            safe_in = math.isnan(fv) or (not math.isinf(fv) and (fv != int(fv) or -LIM <= int(v) <= LIM))
            if safe_in and not (out == v or (math.isnan(fv) and math.isnan(fo))):
                ok = False
                why.append("safe value changed")
    elif out is not v and tag in ("str", "none"):
        ok = False
    return ("contradicted" if ok else "confirmed"), f"truncate_json_overflow({v!r}) = {out!r} {'; '.join(why)}"


def truncate_container(model, info, art):
    import types
    kind = info["kind"]
    d = {"a": 2 ** 60, "b": [1.5, -2 ** 70], "c": "text"}
    if kind in ("mapping", "dict"):
        data = d
    elif kind == "mapping-not-dict":
        data = types.MappingProxyType(d)
    elif kind == "tuple":
        data = (2 ** 60, {"c": float("inf")}, "text")
    elif kind == "ndarray":
        dk = info.get("dtype", "i")
        data = {"i": np.array([2 ** 60, 5]), "u": np.array([2 ** 60, 5], dtype=np.uint64), "f": np.array([1e300, float("inf")]),
                "O": np.array([2 ** 70, 1, None], dtype=object), "U": np.array(["a", "b"]), "b": np.array([True, False])}[dk]
    else:
        data = [2 ** 60, {"c": float("inf")}, "text"]
    out = truncate_json_overflow(data)
    flat = []

    def walk(o):
        if isinstance(o, dict):
            for x in o.values():
                walk(x)
        elif isinstance(o, list):
            for x in o:
                walk(x)
        else:
            flat.append(o)
    walk(out)
    ok = all(-LIM <= x <= LIM for x in flat if isinstance(x, (int, float, np.number)) and not isinstance(x, (bool, np.bool_)))
    if kind in ("mapping", "dict", "mapping-not-dict"):
        ok = ok and isinstance(out, dict) and list(out) == list(data)
    else:
        ok = ok and isinstance(out, list) and len(out) == len(data)
    return ("contradicted" if ok else "confirmed"), f"{data!r} -> {out!r}"

