"""native replay for C17: metadata precedence and scan_id accounting around a rejected open_run"""
import copy
import os

from bluesky import RunEngine
from bluesky.utils import IllegalMessageSequence, Msg

ROOT = os.path.dirname(os.path.dirname(os.path.abspath(__file__)))
ABSENT = "<absent>"


def _users(info):
    """the validators / normalizers / plan / merge of contracts/refs/c17.py - the same text the contracts execute"""
    ns = {"__name__": "verif_ref_c17"}
    path = os.path.join(ROOT, info.get("ref_file", "contracts/refs/c17.py"))
    exec(compile(open(path).read(), path, "exec"), ns)
    return ns


def _int(model, name, default):
    try:
        return int(str(model[name]).replace("(", "").replace(")", "").replace(" ", ""))
    except Exception:
        return default


def _values(model, src, keys, tag=""):
    out = {}
    for k in keys:
        if k == "scan_id":
            out[k] = _int(model, "scan_id", 41) if src == "md" else _int(model, f"v_scan_id_{src}", {"call": 1000, "msg": 2000}[src])
        elif k == "sample":
            out[k] = {"name": "md:sample"}
        else:
            out[k] = f"{src}{tag}:{k}"
    return out


def _strip(doc):
    return {k: v for k, v in doc.items() if k not in ("uid", "time")}


def _transform(mode, d):
    """what the normalizer of contracts/refs/c17.py makes of the merged metadata"""
    if mode == "default":
        return d
    out = copy.deepcopy(d)
    out["normalized"] = mode
    if mode == "new":
        del out["only_md"]
    else:
        out["only_md"] = "normalizer:only_md"
        if "sample" in out:
            out["sample"] = {"name": "normalizer:sample"}
    return out


def scenario(model, info, art):
    """builds the case of the counter-model (which source holds which key, what the validator / normalizer do, the
    sequence of open_run messages, one or two RE(...) calls) on a real RunEngine and evaluates the clause named in
    info['clause'] on the documents and on RE.md / the sources"""
    case, clause = info["case"], info["clause"]
    users = _users(info)
    merged = users["merged"]
    problems = {c: [] for c in ("merge", "scan_id", "frame", "shown", "refused", "registered", "per_call")}
    md = _values(model, "md", case["md"])
    RE = RunEngine(md, context_managers=[])
    docs = []
    RE.subscribe(lambda n, d: docs.append((n, d)))

    if case.get("two_calls"):
        base = RE.md.get("scan_id", 0)
        pre_md = copy.deepcopy(dict(RE.md))
        n = 0
        for ci, c in enumerate(case["calls"]):
            kw = _values(model, "call", c["call"], tag=str(ci))
            runs = [(r["run"], _values(model, "msg", r["md"], tag=f"{ci}{r['run']}")) for r in c["runs"]]
            docs.clear()
            RE(users["my_plan"](runs), **kw)
            starts = [d for nm, d in docs if nm == "start"]
            if len(starts) != len(runs):
                problems["per_call"].append(f"call {ci}: {len(starts)} RunStart documents for {len(runs)} runs")
                problems["merge"].append(problems["per_call"][-1])
                continue
            for st, (rk, m) in zip(starts, runs):
                n += 1
                want = merged(pre_md, "generator", "my_plan", m, kw, base + n)
                if _strip(st) != want:
                    text = f"call {ci} run {rk}: RunStart {_strip(st)!r}, documented merge {want!r}"
                    problems["merge"].append(text)
                    extra = set(_strip(st)) - set(want)
                    if extra or any(_strip(st).get(k) != v for k, v in kw.items()):
                        problems["per_call"].append(text)
        if RE.md.get("scan_id") != base + n:
            problems["scan_id"].append(f"RE.md['scan_id'] is {RE.md.get('scan_id')!r} after {n} opened runs from {base}")
        bad = problems[clause]
        return ("confirmed" if bad else "contradicted"), "; ".join(bad) or "two calls: every RunStart is the documented merge"

    vseen, nseen = [], []
    vmode, nmode = case["validator"], case["normalizer"]
    default_normalizer = RE.md_normalizer
    if vmode != "default":
        RE.md_validator = users["make_validator"](vseen, vmode)
    if nmode != "default":
        RE.md_normalizer = users["make_normalizer"](nseen, nmode)
    call_md = _values(model, "call", case["call"])
    state = {"opened": 0, "nmode": nmode, "vmode": vmode}
    opened_uids = []

    def my_plan():
        for key in case.get("pre_open", []):
            yield Msg("open_run", run=key)                      # the run that is still open when the case starts
        docs.clear()
        base = RE.md.get("scan_id", ABSENT)
        state["opened"] = 0

        def sid():
            if state["opened"] == 0:
                return base
            return (0 if base is ABSENT else base) + state["opened"]
        for i, run in enumerate(case["runs"]):
            msg_md = _values(model, "msg", run["md"], tag="" if i == 0 else str(i + 1))
            m = Msg("open_run", run=run["run"], **msg_md)
            pre = {"md": copy.deepcopy(dict(RE.md)), "call": copy.deepcopy(dict(RE._metadata_per_call)), "msg": copy.deepcopy(dict(m.kwargs))}
            n0, nv, nn = len(docs), len(vseen), len(nseen)
            refused_by = "open" if run["run"] in case.get("pre_open", []) else "validator" if state["vmode"] == "reject" else \
                "normalizer" if state["nmode"] == "raise" else None
            shown = merged(pre["md"], "generator", "my_plan", pre["msg"], pre["call"], (0 if base is ABSENT else base) + state["opened"] + 1)
            try:
                uid = yield m
                outcome = ("ok", uid)
            except Exception as e:          # the engine hands the refusal to the plan
                outcome = ("raise", e)
            new = docs[n0:]
            tag = f"run {i + 1}"
            if refused_by is None:
                state["opened"] += 1
                starts = [d for nm, d in new if nm == "start"]
                if outcome[0] != "ok" or len(new) != 1 or len(starts) != 1:
                    problems["merge"].append(f"{tag}: outcome {outcome!r}, documents {[nm for nm, d in new]}")
                else:
                    want = _transform(state["nmode"], shown)
                    if _strip(starts[0]) != want:
                        problems["merge"].append(f"{tag}: RunStart {_strip(starts[0])!r}, documented {want!r}")
                    opened_uids.append(starts[0]["uid"])
                    if outcome[1] != starts[0]["uid"]:
                        problems["registered"].append(f"{tag}: open_run returned {outcome[1]!r}, RunStart uid {starts[0]['uid']!r}")
                if RE.md.get("scan_id", ABSENT) != sid():
                    problems["scan_id"].append(f"{tag}: RE.md['scan_id'] is {RE.md.get('scan_id')!r}, expected {sid()!r}")
            else:
                want_exc = IllegalMessageSequence if refused_by == "open" else ValueError
                if outcome[0] != "raise" or not isinstance(outcome[1], want_exc) or new:
                    problems["refused"].append(f"{tag}: outcome {outcome!r}, documents {[nm for nm, d in new]}")
                if RE.md.get("scan_id", ABSENT) != sid():
                    problems["refused"].append(f"{tag}: refused by the {refused_by}, RE.md['scan_id'] {RE.md.get('scan_id', ABSENT)!r}, was {sid()!r}")
            # frame: the sources are as they were (RE.md: only scan_id)
            now = {"md": dict(RE.md), "call": dict(RE._metadata_per_call), "msg": dict(m.kwargs)}
            for which in ("md", "call", "msg"):
                a, b = dict(now[which]), dict(pre[which])
                if which == "md":
                    a.pop("scan_id", None)
                    b.pop("scan_id", None)
                    if now["md"].get("scan_id", ABSENT) != sid():
                        problems["frame"].append(f"{tag}: RE.md['scan_id'] {now['md'].get('scan_id', ABSENT)!r}, expected {sid()!r}")
                if a != b:
                    problems["frame"].append(f"{tag}: source '{which}' changed from {b!r} to {a!r}")
            # shown: what the validator / normalizer saw
            if refused_by != "open":
                if state["vmode"] != "default" and (len(vseen) != nv + 1 or vseen[-1] != shown):
                    problems["shown"].append(f"{tag}: validator was shown {vseen[nv:]!r}, the merge is {shown!r}")
                if state["nmode"] != "default" and refused_by != "validator" and (len(nseen) != nn + 1 or nseen[-1] != shown):
                    problems["shown"].append(f"{tag}: normalizer was shown {nseen[nn:]!r}, the merge is {shown!r}")
            elif len(vseen) != nv:
                problems["refused"].append(f"{tag}: validator consulted for a run key that is already open")
            if refused_by is not None and case.get("then") == "accept":
                RE.md_validator = users["make_validator"](vseen, "accept")
                RE.md_normalizer = default_normalizer
                state["vmode"], state["nmode"] = "accept", "default"
            if outcome[0] == "ok" and refused_by is None:
                yield Msg("close_run", run=run["run"])
        for key in case.get("pre_open", []):
            yield Msg("close_run", run=key)

    ret = RE(my_plan(), **call_md)
    got = tuple(ret) if isinstance(ret, (tuple, list)) else tuple(getattr(ret, "run_start_uids", ()))
    if list(got)[len(case.get("pre_open", [])):] != opened_uids:
        problems["registered"].append(f"RE(...) returned {got!r}, RunStart uids {opened_uids!r}")
    bad = problems[clause]
    return ("confirmed" if bad else "contradicted"), "; ".join(bad) or "every RunStart / RE.md as documented"



def precedence(model, info, art):
    problems = []
    RE = RunEngine({"shared": "md", "only_md": 1, "scan_id": 41, "plan_name": "from_md", "plan_type": "from_md"}, context_managers=[])
    docs = []
    RE.subscribe(lambda n, d: docs.append((n, d)))

    def plan():
        yield Msg("open_run", shared="msg", only_msg=2)
        yield Msg("close_run")
    RE(plan(), shared="call", only_call=3)
    st = [d for n, d in docs if n == "start"][0]
    if (st["shared"], st["only_md"], st["only_msg"], st["only_call"], st["plan_name"], st["plan_type"], st["scan_id"]) != ("call", 1, 2, 3, "plan", "generator", 42):
        problems.append(f"start document {dict((k, st[k]) for k in ('shared', 'only_md', 'only_msg', 'only_call', 'plan_name', 'plan_type', 'scan_id'))}")
    # rejected open must not consume a scan_id
    reject = {"on": True}

    def validator(md):
        if reject["on"]:
            reject["on"] = False
            raise ValueError("rejected")
    RE.md_validator = validator
    docs.clear()
    try:
        RE(plan())
    except ValueError:
        pass
    if docs:
        problems.append(f"documents emitted by a rejected open: {[n for n, d in docs]}")
    RE(plan())
    st2 = [d for n, d in docs if n == "start"][0]
    if st2["scan_id"] != 43:
        problems.append(f"scan_id after a rejected open is {st2['scan_id']} (previous opened run had 42)")
    # a raising normalizer must not consume a scan_id either
    RE.md_validator = lambda md: None
    boom = {"on": True}

    def normalizer(md):
        if boom["on"]:
            boom["on"] = False
            raise ValueError("normalizer failed")
        return md
    RE.md_normalizer = normalizer
    docs.clear()
    try:
        RE(plan())
    except ValueError:
        pass
    RE(plan())
    st3 = [d for n, d in docs if n == "start"]
    if len(st3) != 1 or st3[0]["scan_id"] != 44:
        problems.append(f"scan_id after a failing normalizer is {[d['scan_id'] for d in st3]} (previous opened run had 43)")
    return ("confirmed" if problems else "contradicted"), "; ".join(problems) or "precedence and scan_id as documented"
