"""native replay for C17: metadata precedence and scan_id accounting around a rejected open_run"""
from bluesky import RunEngine
from bluesky.utils import Msg


def precedence(model, info, art):
    problems = []
    RE = RunEngine({"shared": "md", "only_md": 1, "scan_id": 41, "plan_name": "from_md", "plan_type": "from_md"}, context_managers=[])
    docs = []
    RE.subscribe(lambda n, d: docs.append((n, d)))

    def plan():
        yield Msg("open_run", shared="msg", only_msg=2)
        yield Msg("close_run")
    RE(plan(), shared="call", only_call=3)
    st = [d for n, d in docs if n == "start"][0]
    if (st["shared"], st["only_md"], st["only_msg"], st["only_call"], st["plan_name"], st["plan_type"], st["scan_id"]) != ("call", 1, 2, 3, "plan", "generator", 42):
        problems.append(f"start document {dict((k, st[k]) for k in ('shared', 'only_md', 'only_msg', 'only_call', 'plan_name', 'plan_type', 'scan_id'))}")
    # rejected open must not consume a scan_id
    reject = {"on": True}

    def validator(md):
        if reject["on"]:
            reject["on"] = False
            raise ValueError("rejected")
    RE.md_validator = validator
    docs.clear()
    try:
        RE(plan())
    except ValueError:
        pass
    if docs:
        problems.append(f"documents emitted by a rejected open: {[n for n, d in docs]}")
    RE(plan())
    st2 = [d for n, d in docs if n == "start"][0]
    if st2["scan_id"] != 43:
        problems.append(f"scan_id after a rejected open is {st2['scan_id']} (previous opened run had 42)")
    # a raising normalizer must not consume a scan_id either
    RE.md_validator = lambda md: None
    boom = {"on": True}

    def normalizer(md):
        if boom["on"]:
            boom["on"] = False
            raise ValueError("normalizer failed")
        return md
    RE.md_normalizer = normalizer
    docs.clear()
    try:
        RE(plan())
    except ValueError:
        pass
    RE(plan())
    st3 = [d for n, d in docs if n == "start"]
    if len(st3) != 1 or st3[0]["scan_id"] != 44:
        problems.append(f"scan_id after a failing normalizer is {[d['scan_id'] for d in st3]} (previous opened run had 43)")
    return ("confirmed" if problems else "contradicted"), "; ".join(problems) or "precedence and scan_id as documented"
