"""C38 bounded stand-in (native): the real truncate_json_overflow on a corpus of payloads, judged by the statement's clauses.
`python replay/truncate_sweep.py sweep` prints `SWEEP {"payloads": n, "failures": [...]}`; also the replay adapter `sweep_replay`."""
import json
import math
import os
import sys
import types
import warnings

if __name__ == "__main__":
    sys.path.insert(0, os.path.dirname(os.path.dirname(os.path.abspath(__file__))))
    _repo = os.environ.get("VERIF_REPO", "/repo")
    if _repo != "/repo":
        sys.path.insert(0, os.path.join(_repo, "src"))

import collections
import collections.abc

import numpy as np

LIM = 2 ** 53 - 1


def judge(out, inp, path="$"):
    """-> list of deviations from the statement (same shape; integral values within +-LIM; floats finite or NaN; safe values unchanged)"""
    if isinstance(inp, collections.abc.Mapping):
        if not isinstance(out, dict) or list(out) != list(inp):
            return [f"{path}: mapping with keys {list(inp)!r} became {out!r}"]
        return [d for k in inp for d in judge(out[k], inp[k], f"{path}[{k!r}]")]
    if isinstance(inp, str) or inp is None:
        return [] if out is inp or out == inp else [f"{path}: {inp!r} became {out!r}"]
    if isinstance(inp, (bool, np.bool_)):
        return [] if bool(out) == bool(inp) else [f"{path}: {inp!r} became {out!r}"]
    if isinstance(inp, (int, float, np.integer, np.floating)):
        x = inp.item() if isinstance(inp, np.generic) else inp
        if isinstance(out, (list, dict, str)) or out is None:
            return [f"{path}: number {inp!r} became {out!r}"]
        o = out.item() if isinstance(out, np.generic) else out
        if isinstance(x, float) and math.isnan(x):
            return [] if isinstance(o, float) and math.isnan(o) else [f"{path}: NaN became {out!r}"]
        if isinstance(x, float) and math.isinf(x):
            return [] if isinstance(o, (int, float)) and math.isfinite(o) else [f"{path}: {inp!r} became {out!r} (not finite)"]
        integral = x == int(x)
        if integral and abs(int(x)) > LIM:
            want = LIM if x > 0 else -LIM
            return [] if o == want else [f"{path}: {inp!r} ({type(inp).__name__}) became {out!r}, documented {want}"]
        return [] if o == x else [f"{path}: safe value {inp!r} became {out!r}"]
    if isinstance(inp, collections.abc.Iterable):
        items = list(inp)
        if not isinstance(out, list) or len(out) != len(items):
            return [f"{path}: sequence of {len(items)} became {out!r}"]
        return [d for i, (a, b) in enumerate(zip(out, items)) for d in judge(a, b, f"{path}[{i}]")]
    return [] if out is inp else [f"{path}: {inp!r} became {out!r}"]


def corpus():
    big, neg = 2 ** 60, -(2 ** 60)
    i64, u64 = np.iinfo(np.int64), np.iinfo(np.uint64)
    leaves = [0, 1, -1, LIM, -LIM, LIM + 1, -LIM - 1, big, neg, 2 ** 70, True, False, None, "text", 1.5, -2.5, 2.0 ** 53, -2.0 ** 53, 2.0 ** 60,
              1e300, float("inf"), float("-inf"), float("nan"), np.int64(5), np.int64(i64.max), np.int64(i64.min), np.int64(i64.min + 1),
              np.uint64(u64.max), np.int32(7), np.int8(-128), np.float64(1e300), np.float64("inf"), np.float32(3e38), np.float32("inf"),
              np.float32("-inf"), np.float32("nan"), np.float16(7), np.float16("inf"), np.longdouble(2) ** 60, np.uint8(255), np.bool_(True)]
    out = list(leaves)
    out += [[x] for x in leaves] + [(x, 1) for x in leaves[:12]] + [{"k": x} for x in leaves]
    arrays = [np.array([1, 2, 3]), np.array([big, 5]), np.array([i64.min, 0, i64.max]), np.array([u64.max, 1], dtype=np.uint64),
              np.array([1.5, float("nan"), float("inf")]), np.array([float("nan"), 1e300, 2.0 ** 60]), np.array([float("nan"), -float("inf")]),
              np.array([3e38, float("nan")], dtype=np.float32), np.array([[big, 1], [2, neg]]), np.array([[1.0, float("nan")], [float("inf"), 2.0]]),
              np.array([2 ** 70, 1, None], dtype=object), np.array([{"a": big}, [neg]], dtype=object), np.array(["a", "b"]), np.array([True, False]),
              np.array([], dtype=float), np.array([], dtype=np.int64), np.zeros((2, 0)), np.array([i64.min]), np.array([float("nan")])]
    out += arrays + [{"data": a, "n": big} for a in arrays] + [[a, "s"] for a in arrays[:8]]
    d = {"a": big, "b": [1.5, neg, {"c": float("inf"), "d": "x"}], "e": (np.int64(i64.min), np.float32("inf")), "f": None}
    out += [d, types.MappingProxyType(d), collections.OrderedDict(d), collections.ChainMap({"a": big}, {"z": neg}), collections.defaultdict(int, {"q": big}),
            [d, [d, [d]]], {"deep": {"deeper": {"deepest": [np.array([big]), (neg,)]}}}, [], {}, (), [[], {}, ()], "", range(3), collections.deque([big, 1]),
            {"cfg": {"det": {"data": {"exposure": np.float64("inf"), "frames": np.int64(i64.min)}, "timestamps": {"exposure": 1.0, "frames": 2.0}}}}]
    return out


def sweep():
    from bluesky.utils import truncate_json_overflow
    failures = []
    n = 0
    for p in corpus():
        n += 1
        try:
            with warnings.catch_warnings():
                warnings.simplefilter("ignore")
                got = truncate_json_overflow(p)
        except Exception as e:
            failures.append(f"{p!r}: raised {type(e).__name__}: {e}")
            continue
        dev = judge(got, p)
        if dev:
            failures.append(f"payload {p!r}: " + "; ".join(dev[:3]))
    return n, failures


def sweep_replay(model, info, art):
    n, failures = sweep()
    return ("confirmed" if failures else "contradicted"), (failures[0] if failures else f"{n} payloads conform")


if __name__ == "__main__":
    n, fl = sweep()
    print("SWEEP " + json.dumps({"payloads": n, "failures": [f[:400] for f in fl[:10]]}))
