"""replay adapters for C21 (plan_mutator with an inserting processor)"""
import os

from bluesky.preprocessors import plan_mutator
from bluesky.utils import Msg

from . import generators as G


def consulted(model, info, art):
    """known finding: the processor is consulted for messages yielded by an inserted head plan"""
    calls = []

    def host():
        yield Msg("host")

    def head():
        yield Msg("inserted")

    def proc(msg):
        calls.append(msg.command)
        if msg.command == "host":
            return head(), None
        return None, None
    out = [m.command for m in plan_mutator(host(), proc)]
    bad = "inserted" in calls
    return ("confirmed" if bad else "contradicted"), f"messages {out}; msg_proc consulted for {calls}"


def script(model, info, art):
    cfg = dict(info.get("cfg") or {})
    decisions = list(info.get("decisions") or [])
    shared = G.Shared(info.get("oracle", {}))
    logs = {"impl": [], "ref": []}
    ref_ns = {}
    exec(compile(open(os.path.join(G.ROOT, cfg["ref_file"])).read(), cfg["ref_file"], "exec"), ref_ns)

    def make(side):
        table = {}

        def proc(msg):
            name = getattr(msg, "name", "")
            if not name.startswith("yield:plan#"):
                return None, None
            if id(msg) not in table:
                n = len(table)
                kind = decisions[n] if n < len(decisions) else "none"
                table[id(msg)] = (G.ScriptedGen(f"head{n}", shared, logs[side]) if kind in ("head", "both") else None,
                                  G.ScriptedGen(f"tail{n}", shared, logs[side]) if kind in ("tail", "both") else None)
            return table[id(msg)]
        return G.ScriptedGen("plan", shared, logs[side]), proc
    pi, proc_i = make("impl")
    pr, proc_r = make("ref")
    gi = plan_mutator(pi, proc_i)
    gr = ref_ns["ref_plan_mutator"](pr, proc_r)
    sent, thrown = {}, {}
    oi = G.drive(gi, info["script"], sent, thrown)
    orr = G.drive(gr, info["script"], sent, thrown)
    diff = None
    for k, (x, y) in enumerate(zip(oi, orr)):
        if x[0] != y[0] or not G.same(x[1], y[1]):
            diff = f"step {k} ({info['script'][k]}): real plan_mutator -> {x[0]} {x[1]!r}; reference -> {y[0]} {y[1]!r}"
            break
    if diff is None:
        li, lr = logs["impl"], logs["ref"]
        if len(li) != len(lr) or any(x[:3] != y[:3] or not G.same_payload(x[3], y[3]) for x, y in zip(li, lr)):
            diff = f"calls on sub-generators differ: real {li[-5:]} vs reference {lr[-5:]}"
    return ("confirmed" if diff else "contradicted"), f"script {info['script']} decisions {decisions} outcomes {info.get('oracle')}: {diff or 'identical behaviour'}"
