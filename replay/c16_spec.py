"""C16 - the statement as a monitor over the emitted documents.

Shared by the symbolic harness (contracts/C16.py: leaf values are symbolic, `eq` / `conj` build terms, `report` is an
obligation) and by the native replay adapter (replay/bundler.py:configure_program: plain values), so that both sides
evaluate literally the same clauses.  Pure Python, no imports from pyvc / bluesky.

A *program* is a list of actions (JSON):
  ["bundle", stream, [objects]]       create(name=stream); read(o) for every o; save
  ["dropped", stream, [objects]]      create(name=stream); read(o) for every o; drop
  ["declare", stream, [objects]]      declare_stream(*objects, name=stream)
  ["monitor", obj, stream]            monitor(obj, name=stream)
  ["tick", obj]                       the subscription callbacks of obj fire (a signal update)
  ["declare_fly", stream, flyer]      declare_stream(flyer, name=stream, collect=True)
  ["collect", flyer, name, streams]   kickoff(flyer); collect(flyer[, name=name]); `streams`: the streams it collects into
  ["configure", obj]                  RunEngine._configure(Msg('configure', obj, k)): obj.configure(k) gives the object new
                                      configuration values (the k-th pair of symbols of obj), then the run is told

Clauses (from the statement):
  DESC   every descriptor records, for every object of its stream, the configuration the object reports when the descriptor
         is made (values, timestamps, and an entry for every object)
  KEYS   a re-made descriptor is a new one (fresh uid) with unchanged data keys and objects
  CONF   configure(obj): exactly the streams containing obj get one new descriptor, carrying the configuration obj reports
         now; nothing else is emitted, streams without obj are untouched
  EV_B / EV_M / EV_C   every bundled event / monitor event / collected event page (or stream_datum of a detector writing stream
         assets) is emitted, belongs to the expected stream, references that stream's *latest* descriptor, and that descriptor
         carries the configuration its objects report now
  FROZEN a descriptor that has been emitted keeps the configuration it was emitted with (a later configure makes a new
         descriptor, it does not rewrite the old one)
  QUIET  declare_stream / monitor emit exactly their stream's descriptor, a dropped bundle emits nothing
"""

Q = "bluesky.bundlers:RunBundler"
DESC = f"{Q}._prepare_stream#ensures[every descriptor records, for every object of its stream, the configuration the object reports when the descriptor is made]"
KEYS = f"{Q}.configure#ensures[a re-made descriptor is new (fresh uid) and keeps the stream's data keys and objects]"
CONF = f"{Q}.configure#ensures[exactly the streams containing the object get one new descriptor with the configuration it reports now; nothing else is emitted]"
EV_B = f"{Q}.save#ensures[every bundled event references its stream's latest descriptor, which carries the configuration its objects report]"
EV_M = f"{Q}.monitor.emit_event#ensures[every monitor event references its stream's latest descriptor, which carries the configuration its object reports]"
EV_C = f"{Q}.collect#ensures[every collected event page references its stream's latest descriptor, which carries the configuration the flyer reports]"
QUIET = f"{Q}#ensures[declare_stream / monitor emit exactly the descriptor of their stream; a dropped bundle emits nothing]"
FROZEN = f"{Q}._cache_read_config#ensures[an emitted descriptor keeps recording the configuration of the time it was made: later configures do not alter it]"
CLAUSES = {"DESC": DESC, "KEYS": KEYS, "CONF": CONF, "EV_B": EV_B, "EV_M": EV_M, "EV_C": EV_C, "QUIET": QUIET, "FROZEN": FROZEN}


class Spec:
    def __init__(self, eq, conj, report):
        self.eq, self.conj, self.report = eq, conj, report
        self.current = {}        # object name -> {configuration key: (value, timestamp)} the object reports now
        self.latest = {}         # stream -> its latest descriptor
        self.by_uid = {}         # descriptor uid -> stream
        self.action = None
        self.docs = []           # (name, stream) of the documents of the running action
        self._is_monitor = {}    # monitor stream -> monitored object
        self.made = []           # (descriptor, {object: {key: (value, timestamp)}} as recorded when it was emitted)

    # ---- the environment
    def device_reports(self, obj, conf):
        self.current[obj] = dict(conf)

    # ---- clause pieces
    def _carries_current(self, desc):
        """the descriptor's configuration block of every object of its stream == what the object reports now"""
        conds = [sorted(desc["configuration"]) == sorted(desc["object_keys"])]
        for o in desc["object_keys"]:
            block, cur = desc["configuration"].get(o), self.current.get(o)
            if block is None or cur is None:
                conds.append(False)
                continue
            conds.append(sorted(block["data"]) == sorted(cur) and sorted(block["timestamps"]) == sorted(cur))
            for key, (value, ts) in cur.items():
                if key in block["data"] and key in block["timestamps"]:
                    conds.append(self.eq(block["data"][key], value))
                    conds.append(self.eq(block["timestamps"][key], ts))
        return self.conj(conds)

    def _unaltered(self):
        """every descriptor emitted so far still holds the configuration it held when it was emitted"""
        conds = []
        for desc, snap in self.made:
            conds.append(sorted(desc["configuration"]) == sorted(snap))
            for o, rec in snap.items():
                block = desc["configuration"].get(o)
                if block is None or (sorted(block["data"]), sorted(block["timestamps"])) != rec["keys"]:
                    conds.append(False)
                    continue
                for key, (value, ts) in rec["cells"].items():
                    conds.append(self.eq(block["data"][key], value))
                    conds.append(self.eq(block["timestamps"][key], ts))
        return self.conj(conds)

    # ---- actions
    def begin(self, action):
        self.action = list(action)
        self.docs = []
        self.before = dict(self.latest)

    def doc(self, name, doc):
        kind = self.action[0]
        if name == "descriptor":
            s = doc["name"]
            self.docs.append(("descriptor", s))
            self.report(DESC, self._carries_current(doc), f"descriptor of {s!r} made by {self.action}")
            prev = self.latest.get(s)
            if prev is not None:
                self.report(KEYS, doc["uid"] not in self.by_uid and doc["data_keys"] == prev["data_keys"] and doc["object_keys"] == prev["object_keys"],
                            f"re-made descriptor of {s!r}: data keys {sorted(doc['data_keys'])} (were {sorted(prev['data_keys'])})")
            self.latest[s] = doc
            self.by_uid[doc["uid"]] = s
            self.made.append((doc, {o: {"keys": (sorted(block["data"]), sorted(block["timestamps"])),
                                        "cells": {k: (block["data"][k], block["timestamps"][k]) for k in block["data"] if k in block["timestamps"]}}
                                    for o, block in doc["configuration"].items()}))
        elif name in ("event", "event_page", "stream_datum"):
            s = self.by_uid.get(doc["descriptor"])
            self.docs.append((name, s))
            clause = {"bundle": EV_B, "tick": EV_M, "collect": EV_C}.get(kind)
            if clause is None:
                return      # reported by end(): this action must not emit events
            want = self._expected_streams()
            is_latest = s is not None and s in want and self.latest[s]["uid"] == doc["descriptor"]
            self.report(clause, self.conj([is_latest, self._carries_current(self.latest[s]) if is_latest else False]),
                        f"{name} of {self.action} references descriptor {doc['descriptor']!r} of stream {s!r}; latest descriptors "
                        f"{ {k: v['uid'] for k, v in self.latest.items()} }")
        else:
            self.docs.append((name, None))

    def _expected_streams(self):
        a = self.action
        if a[0] in ("bundle", "dropped", "declare", "declare_fly"):
            return [a[1]]
        if a[0] == "monitor":
            return [a[2]]
        if a[0] == "tick":
            return [s for s, d in self.latest.items() if self._is_monitor.get(s) == a[1]]
        if a[0] == "collect":
            return list(a[3])
        return []

    def end(self, raised=None):
        """what the action as a whole must have emitted"""
        a, kinds = self.action, [k for k, s in self.docs]
        if a[0] == "monitor":
            self._is_monitor[a[2]] = a[1]
        detail = f"{a}: emitted {self.docs}" + (f", raised {raised}" if raised else "")
        if a[0] == "configure":
            want = [s for s in sorted(self.before) if a[1] in self.before[s]["object_keys"]]
            ok = raised is None and sorted(s for k, s in self.docs) == want and all(k == "descriptor" for k in kinds)
            self.report(CONF, self.conj([ok] + [self._carries_current(self.latest[s]) for s in want]), detail)
        elif a[0] == "bundle":
            self.report(EV_B, raised is None and kinds in (["event"], ["descriptor", "event"]) and all(s == a[1] for k, s in self.docs), detail)
        elif a[0] == "tick":
            self.report(EV_M, raised is None and kinds == ["event"], detail)
        elif a[0] == "collect":
            pages = [s for k, s in self.docs if k in ("event_page", "stream_datum")]
            first = [s for k, s in self.docs if k == "descriptor"]
            self.report(EV_C, raised is None and sorted(pages) == sorted(a[3]) and all(k in ("descriptor", "event_page", "stream_resource", "stream_datum") for k in kinds)
                        and all(s in a[3] and s not in self.before for s in first), detail)
        elif a[0] in ("declare", "declare_fly", "monitor"):
            self.report(QUIET, raised is None and self.docs == [("descriptor", self._expected_streams()[0])], detail)
        elif a[0] == "dropped":
            self.report(QUIET, raised is None and not self.docs, detail)
        self.report(FROZEN, self._unaltered(), f"after {a}: a descriptor emitted earlier no longer holds the configuration it was emitted with")
        self.action = None


def native_spec(problems):
    """the monitor over plain values: violated clauses are appended to `problems` as (clause, detail)"""
    return Spec(eq=lambda a, b: a == b, conj=all, report=lambda clause, cond, detail: None if cond else problems.append((clause, detail)))
