"""native replay adapters for RunBundler counter obligations (C05 / C40): drive a real RunBundler with a recording emit"""
import asyncio

from bluesky.bundlers import RunBundler
from bluesky.utils import Msg
import logging


def _bundler(record_interruptions=True):
    out = []

    async def emit(name, doc):
        out.append((name.name, doc))

    def emit_sync(name, doc):
        out.append((name.name, doc))
    b = RunBundler({}, record_interruptions, emit, emit_sync, logging.getLogger("replay"), strict_pre_declare=False)
    return b, out


def rewind(model, info, art):
    """interruption records around a rewind must get fresh seq_nums and be counted in the RunStop"""
    b, out = _bundler(True)

    async def go():
        await b.open_run(Msg("open_run"))
        b.record_interruption("pause")
        await b.reset_checkpoint_state_coro() if False else None
        b.rewind()
        b.record_interruption("resume")
        b.record_interruption("pause")
        b.rewind()
        b.record_interruption("resume")
        await b.close_run(Msg("close_run"))
    try:
        asyncio.run(go())
    except Exception as e:
        return "confirmed", f"recording an interruption after a rewind raised {type(e).__name__}: {e}"
    desc = [d for n, d in out if n == "descriptor" and d["name"] == "interruptions"][0]
    seqs = [d["seq_num"] for n, d in out if n == "event" and d["descriptor"] == desc["uid"]]
    stop = [d for n, d in out if n == "stop"][0]
    ok = seqs == [1, 2, 3, 4] and stop["num_events"].get("interruptions") == 4
    return ("contradicted" if ok else "confirmed"), f"interruption seq_nums {seqs}, stop.num_events={stop['num_events']}"


def counters(model, info, art):
    """create/read/save numbering with checkpoint and rewind on a replayable stream"""
    class Det:
        name = "det"
        parent = None
        hints = {"fields": ["det"]}

        def read(self):
            return {"det": {"value": 1.0, "timestamp": 0.0}}

        def describe(self):
            return {"det": {"dtype": "number", "shape": [], "source": "x"}}

        def read_configuration(self):
            return {}

        def describe_configuration(self):
            return {}
    b, out = _bundler(False)
    det = Det()

    async def shot():
        await b.create(Msg("create", name="primary"))
        await b.read(Msg("read", det), det.read())
        await b.save(Msg("save"))

    async def go():
        await b.open_run(Msg("open_run"))
        await shot()
        await b.reset_checkpoint_state_coro()
        await shot()
        b.rewind()
        await shot()
        await shot()
        await b.close_run(Msg("close_run"))
    asyncio.run(go())
    seqs = [d["seq_num"] for n, d in out if n == "event"]
    stop = [d for n, d in out if n == "stop"][0]
    ok = seqs == [1, 2, 2, 3] and stop["num_events"] == {"primary": 3}
    return ("contradicted" if ok else "confirmed"), f"primary seq_nums {seqs} (documented [1, 2, 2, 3]), num_events={stop['num_events']}"
