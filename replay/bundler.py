"""native replay adapters for RunBundler counter obligations (C05 / C40): drive a real RunBundler with a recording emit"""
import asyncio

from bluesky.bundlers import RunBundler
from bluesky.utils import Msg
import logging


def _bundler(record_interruptions=True):
    out = []

    async def emit(name, doc):
        out.append((name.name, doc))

    def emit_sync(name, doc):
        out.append((name.name, doc))
    b = RunBundler({}, record_interruptions, emit, emit_sync, logging.getLogger("replay"), strict_pre_declare=False)
    return b, out


def rewind(model, info, art):
    """interruption records around a rewind must get fresh seq_nums and be counted in the RunStop"""
    b, out = _bundler(True)

    async def go():
        await b.open_run(Msg("open_run"))
        b.record_interruption("pause")
        await b.reset_checkpoint_state_coro() if False else None
        b.rewind()
        b.record_interruption("resume")
        b.record_interruption("pause")
        b.rewind()
        b.record_interruption("resume")
        await b.close_run(Msg("close_run"))
    try:
        asyncio.run(go())
    except Exception as e:
        return "confirmed", f"recording an interruption after a rewind raised {type(e).__name__}: {e}"
    desc = [d for n, d in out if n == "descriptor" and d["name"] == "interruptions"][0]
    seqs = [d["seq_num"] for n, d in out if n == "event" and d["descriptor"] == desc["uid"]]
    stop = [d for n, d in out if n == "stop"][0]
    ok = seqs == [1, 2, 3, 4] and stop["num_events"].get("interruptions") == 4
    return ("contradicted" if ok else "confirmed"), f"interruption seq_nums {seqs}, stop.num_events={stop['num_events']}"


def _ival(model, name, default, lo=None):
    try:
        v = int(model.get(name, default))
    except (TypeError, ValueError):
        v = default
    return v if lo is None else max(lo, v)


class _Det:
    name = "det"
    parent = None
    hints = {"fields": ["det"]}

    def read(self):
        return {"det": {"value": 1.0, "timestamp": 0.0}}

    def describe(self):
        return {"det": {"dtype": "number", "shape": [], "source": "x"}}

    def read_configuration(self):
        return {}

    def describe_configuration(self):
        return {}


class _Sig(_Det):
    name = "sig"
    hints = {"fields": ["sig"]}
    cb = None

    def read(self):
        return {"sig": {"value": 1.0, "timestamp": 1.0}}

    def describe(self):
        return {"sig": {"dtype": "number", "shape": [], "source": "s"}}

    def subscribe(self, cb, **kw):
        self.cb = cb

    def clear_sub(self, cb):
        self.cb = None


def _flyer(kind, declared, batches):
    """an EventCollectable ('events') / EventPageCollectable ('pages') flyer handing over batches[k] at its k-th collect"""
    keys_of = {"fly": ["fx"], "fly2": ["fy", "fz"]}
    dk = lambda: {"dtype": "number", "shape": [], "source": "sim"}   # noqa: E731

    class Base:
        name = "flyer"
        parent = None
        calls = 0

        def kickoff(self):
            pass

        def complete(self):
            pass

        def describe_collect(self):
            if declared:
                return {"fx": dk()}
            return {s: {k: dk() for k in keys} for s, keys in keys_of.items()}

        def _next(self):
            self.calls += 1
            yield from batches[self.calls - 1]

    class Ev(Base):
        def collect(self):
            return self._next()

    class Pg(Base):
        def collect_pages(self):
            return self._next()
    return (Ev if kind == "events" else Pg)(), keys_of


def _batch(kind, tag, shape, keys_of, extras, model, base):
    """native counterpart of contracts/C05.py hand_over_batch: the device's own seq_nums come from the counter-model (default: the
    device numbers every batch from 1); data values are distinct so that the hand-over order can be recognised"""
    docs, order = [], {}
    for i, item in enumerate(shape):
        s, n = (item, None) if kind == "events" else item
        keys = keys_of[s]
        pts = [{k: float(base + 100 * i + j) for k in keys} for j in range(n or 1)]
        order.setdefault(s, []).extend(p[keys[0]] for p in pts)
        dev = [_ival(model, f"dev_seq_{tag}_{i}_{j}", j + 1) for j in range(n or 1)]
        if kind == "events":
            d = {"data": dict(pts[0]), "timestamps": {k: 1.0 for k in keys}, "time": 1.0}
            if "filled" in extras:
                d["filled"] = {k: True for k in keys}
            if "seq_num" in extras:
                d["seq_num"] = dev[0]
        else:
            d = {"data": {k: [p[k] for p in pts] for k in keys}, "timestamps": {k: [1.0] * n for k in keys}, "time": [1.0] * n}
            if "filled" in extras:
                d["filled"] = {k: [True] * n for k in keys}
            if "seq_num" in extras:
                d["seq_num"] = list(dev)
        docs.append(d)
    return docs, order


def emission(model, info, art):
    """C05: a monitor update (device read / readings passed) or an interruption record from the counters of the counter-model"""
    what = info.get("what", "interruption record")
    names = ["primary", "mon", "interruptions"]
    nxt = {s: _ival(model, f"next_{s}", 1, 1) for s in names}
    snap = {s: min(_ival(model, f"snap_{s}", 1, 1), nxt[s]) for s in names}
    b, out = _bundler(True)
    det, sig = _Det(), _Sig()
    s = "interruptions" if what == "interruption record" else "mon"

    async def go():
        await b.open_run(Msg("open_run"))
        await b.declare_stream(Msg("declare_stream", None, det, name="primary"))
        await b.monitor(Msg("monitor", sig, name="mon"))
        for x in names:
            b._sequence_counters[x] = nxt[x]
            b._sequence_counters_copy[x] = snap[x]
        del out[:]
        if s == "interruptions":
            b.record_interruption("pause")
        elif what.endswith("read"):
            sig.cb()
        else:
            sig.cb({"sig": {"value": 2.0, "timestamp": 2.0}})
    try:
        asyncio.run(go())
    except Exception as e:   # noqa
        return "confirmed", f"{what} raised {type(e).__name__}: {e}"
    uid = b._interruptions_desc_uid if s == "interruptions" else b._descriptors["mon"].descriptor_doc["uid"]
    evs = [d for n, d in out if n == "event"]
    want = {x: nxt[x] + (1 if x == s else 0) for x in names}
    ok = (len(out) == 1 and len(evs) == 1 and evs[0]["descriptor"] == uid and evs[0]["seq_num"] == nxt[s]
          and {x: b._sequence_counters.get(x) for x in names} == want and {x: b._sequence_counters_copy.get(x) for x in names} == snap)
    return ("contradicted" if ok else "confirmed"), (f"{what} with next={nxt}: emitted {[(n, d.get('seq_num')) for n, d in out]}, counters afterwards "
                                                     f"{dict(b._sequence_counters)}, snapshot {dict(b._sequence_counters_copy)}")


def checkpoint_state(model, info, art):
    """C05: reset_checkpoint_state from the counters of the counter-model, with or without an earlier snapshot: afterwards the snapshot
    holds every stream's counter; then clear_checkpoint drops it"""
    names = ["primary", "mon"]
    nxt = {s: _ival(model, f"next_{s}", 1, 1) for s in names}
    snap = {s: min(_ival(model, f"snap_{s}", 1, 1), nxt[s]) for s in names}
    b, out = _bundler(False)
    det, sig = _Det(), _Sig()

    async def go():
        await b.open_run(Msg("open_run"))
        await b.declare_stream(Msg("declare_stream", None, det, name="primary"))
        await b.monitor(Msg("monitor", sig, name="mon"))
        b._sequence_counters.clear()
        b._sequence_counters.update(nxt)
        b._sequence_counters_copy.clear()
        if info.get("had_copy", True):
            b._sequence_counters_copy.update(snap)
        b.reset_checkpoint_state()
    asyncio.run(go())
    ok = dict(b._sequence_counters_copy) == nxt and dict(b._sequence_counters) == nxt
    return ("contradicted" if ok else "confirmed"), (f"reset_checkpoint_state with next={nxt}, snapshot before {snap if info.get('had_copy', True) else 'none'}: "
                                                     f"snapshot afterwards {dict(b._sequence_counters_copy)}, counters {dict(b._sequence_counters)}")


def save_datum(model, info, art):
    """C05: create / read / save of a detector that writes one stream datum per event, from the counter of the counter-model: the datum's
    seq_nums must be [seq_num of the event, + 1)"""
    from event_model import StreamRange
    first = bool(info.get("first_datum", True))
    nxt = {s: _ival(model, f"next_{s}", 1, 1) for s in ("primary", "other")}
    snap = {s: min(_ival(model, f"snap_{s}", 1, 1), nxt[s]) for s in nxt}
    i0 = _ival(model, "idx_start", 0, 0)

    class Cam(_Det):
        name = "cam"
        hints = {"fields": ["x"]}

        def read(self):
            return {"x": {"value": 1.0, "timestamp": 0.0}}

        def describe(self):
            return {"x": {"dtype": "number", "shape": [], "source": "x"},
                    "img": {"dtype": "array", "shape": [1], "source": "x", "external": "STREAM:"}}

        def collect_asset_docs(self):
            if first:
                yield "stream_resource", {"uid": "sr", "data_key": "img", "mimetype": "x", "uri": "file://x", "parameters": {}}
            yield "stream_datum", {"uid": "sr/0", "stream_resource": "sr", "descriptor": "", "indices": StreamRange(start=i0, stop=i0 + 1),
                                   "seq_nums": StreamRange(start=0, stop=0)}

    class Other(_Det):
        name = "other"

        def describe(self):
            return {"y": {"dtype": "number", "shape": [], "source": "x"}}
    b, out = _bundler(False)
    cam = Cam()

    async def go():
        await b.open_run(Msg("open_run"))
        await b.declare_stream(Msg("declare_stream", None, cam, name="primary"))
        await b.declare_stream(Msg("declare_stream", None, Other(), name="other"))
        for s in nxt:
            b._sequence_counters[s] = nxt[s]
            b._sequence_counters_copy[s] = snap[s]
        if not first:
            b._stream_resource_data_keys["sr"] = "img"
        del out[:]
        await b.create(Msg("create", name="primary"))
        await b.read(Msg("read", cam), cam.read())
        await b.save(Msg("save"))
    try:
        asyncio.run(go())
    except Exception as e:   # noqa
        return "confirmed", f"create/read/save with a stream datum raised {type(e).__name__}: {e}"
    evs = [d for n, d in out if n == "event"]
    sds = [d for n, d in out if n == "stream_datum"]
    order = [n for n, d in out if n in ("stream_datum", "event")]
    ok = (len(evs) == 1 and len(sds) == 1 and order == ["stream_datum", "event"] and evs[0]["seq_num"] == nxt["primary"]
          and dict(sds[0]["seq_nums"]) == {"start": evs[0]["seq_num"], "stop": evs[0]["seq_num"] + 1} and sds[0]["indices"]["start"] == i0
          and sds[0]["descriptor"] == evs[0]["descriptor"]
          and b._sequence_counters["primary"] == nxt["primary"] + 1 and b._sequence_counters["other"] == nxt["other"]
          and b._sequence_counters_copy["primary"] == snap["primary"])
    return ("contradicted" if ok else "confirmed"), (f"next={nxt}: event seq_nums {[e['seq_num'] for e in evs]}, stream_datum seq_nums "
                                                     f"{[dict(d['seq_nums']) for d in sds]} indices {[dict(d['indices']) for d in sds]}, emitted {order}, "
                                                     f"counters afterwards {dict(b._sequence_counters)}")


def rewind_state(model, info, art):
    """C05 rewind contract on the real bundler: every kind of stream, each created by the real operation ('primary' declared for a
    readable, 'mon' by monitor, 'interruptions' by open_run, 'fly' by an old-style collect of a flyer, 'sd' / 'sd2' by a collect of a
    stream-datum detector on a pre-declared stream - with / without get_index, the two no-event branches of collect), counters and
    snapshot from the counter-model, the streams listed in info['no_snapshot'] without a snapshot entry; then rewind twice and emit
    an interruption record and a 'primary' event"""
    from event_model import StreamRange
    gone = list(info.get("no_snapshot") or [])
    names = ["primary", "mon", "interruptions", "fly", "sd", "sd2"]
    never = names[1:]
    nxt = {s: _ival(model, f"next_{s}", 1, 1) for s in names}
    snap = {s: min(_ival(model, f"snap_{s}", 1, 1), nxt[s]) for s in names}
    b, out = _bundler(True)
    det, sig = _Det(), _Sig()
    fl, _ = _flyer("events", False, [[{"data": {"fx": 1.0}, "timestamps": {"fx": 1.0}, "time": 1.0}]])    # (describes 'fly' and 'fly2')

    class SD:
        parent = None

        def __init__(self, name, key, width):
            self.name, self.key, self.width = name, key, width

        def describe_collect(self):
            return {self.key: {"dtype": "array", "shape": [1], "source": "x", "external": "STREAM:"}}

        def read_configuration(self):
            return {}

        def describe_configuration(self):
            return {}

        def kickoff(self):
            pass

        def complete(self):
            pass

        def collect_asset_docs(self, index=None):
            yield "stream_resource", {"uid": "sr-" + self.key, "data_key": self.key, "mimetype": "x", "uri": "file://x", "parameters": {}}
            yield "stream_datum", {"uid": "sr-" + self.key + "/0", "stream_resource": "sr-" + self.key, "descriptor": "",
                                   "indices": StreamRange(start=0, stop=self.width), "seq_nums": StreamRange(start=0, stop=0)}

    class SDIndexed(SD):
        def get_index(self):
            return self.width
    sd, sd2 = SDIndexed("sd_det", "img", 3), SD("sd2_det", "img2", 2)
    bad = []

    async def go():
        await b.open_run(Msg("open_run"))
        await b.declare_stream(Msg("declare_stream", None, det, name="primary"))
        await b.monitor(Msg("monitor", sig, name="mon"))
        await b.collect(Msg("collect", fl))
        await b.declare_stream(Msg("declare_stream", None, sd, name="sd", collect=True))
        await b.collect(Msg("collect", sd, name="sd"))
        await b.declare_stream(Msg("declare_stream", None, sd2, name="sd2", collect=True))
        await b.collect(Msg("collect", sd2, name="sd2"))
        missing = [s for s in names if s not in b._sequence_counters]
        if missing:
            bad.append(f"streams without a counter after their creation: {missing}")
        if (b._sequence_counters.get("sd"), b._sequence_counters.get("sd2")) != (4, 3):
            bad.append(f"collects of 3 and 2 frames left the counters at sd={b._sequence_counters.get('sd')}, sd2={b._sequence_counters.get('sd2')}")
        for s in names:
            b._sequence_counters[s] = nxt[s]
            b._sequence_counters_copy[s] = snap[s]
        b._interruptions_counter = nxt["interruptions"] - 1
        for s in gone:
            del b._sequence_counters_copy[s]
        b.bundling = True
        b.rewind()
        got = dict(b._sequence_counters)
        want = 1 if "primary" in gone else snap["primary"]
        if got.get("primary") != want or b.bundling is not False:
            bad.append(f"replayable stream 'primary' (next {nxt['primary']}, snapshot {'none' if 'primary' in gone else snap['primary']}) is at "
                       f"{got.get('primary')} after the rewind, bundling={b.bundling}")
        for s in never:
            if got.get(s) != nxt[s]:
                bad.append(f"never-replayed stream {s!r} (next {nxt[s]}, snapshot {'none' if s in gone else snap[s]}) is at {got.get(s)} after the rewind")
        b.rewind()
        if dict(b._sequence_counters) != got:
            bad.append(f"a second rewind changed the counters from {got} to {dict(b._sequence_counters)}")
        del out[:]
        b.record_interruption("resume")
        await b.create(Msg("create", name="primary"))
        await b.read(Msg("read", det), det.read())
        await b.save(Msg("save"))
        seqs = [d["seq_num"] for n, d in out if n == "event"]
        after = (b._sequence_counters.get("interruptions"), b._sequence_counters.get("primary"))
        if seqs != [nxt["interruptions"], want] or after != (nxt["interruptions"] + 1, want + 1):
            bad.append(f"after the rewind an interruption record and a 'primary' event were numbered {seqs} (expected {[nxt['interruptions'], want]}), "
                       f"counters afterwards interruptions={after[0]} primary={after[1]}")
    try:
        asyncio.run(go())
    except Exception as e:   # noqa
        if bad:
            return "confirmed", "; ".join(bad) + f"; then {type(e).__name__}: {e}"
        return "confirmed", f"the scenario raised {type(e).__name__}: {e}"
    if bad:
        return "confirmed", "; ".join(bad)
    return "contradicted", f"rewind with next={nxt}, snap={snap}, no snapshot for {gone}: all clauses hold natively"


def collect_events(model, info, art):
    """C05: two collects of a flyer handing over partial events / event pages (old-style describe_collect streams or a pre-declared
    stream), the second from the counters of the counter-model, then a rewind: the clauses of contracts/C05.py E_NEW / E_NUM / E_REW
    evaluated on the real bundler with the real event_model"""
    kind, declared, named = info.get("kind", "events"), bool(info.get("declared")), bool(info.get("named"))
    extras = list(info.get("extras") or [])
    tup = lambda sh: [tuple(x) if isinstance(x, list) else x for x in sh]   # noqa: E731
    shape1, shape2 = tup(info.get("shape1") or []), tup(info.get("shape2") or [])
    streams = ["fly"] if declared else ["fly", "fly2"]
    keys_of = {"fly": ["fx"], "fly2": ["fy", "fz"]}
    docs1, order1 = _batch(kind, "a", shape1, keys_of, extras, model, 1000)
    docs2, order2 = _batch(kind, "b", shape2, keys_of, extras, model, 5000)
    fl, _ = _flyer(kind, declared, [docs1, docs2])
    det = _Det()
    b, out = _bundler(False)
    nxt = {s: _ival(model, f"next_{s}", 1, 1) for s in ["primary"] + streams}
    snap = {s: min(_ival(model, f"snap_{s}", 1, 1), nxt[s]) for s in nxt}
    bad = []

    def numbering(order, start, what):
        pages = [d for n, d in out if n == "event_page"]
        if any(n == "event" for n, d in out):
            bad.append(f"{what}: single events emitted")
        for s, vals in order.items():
            uid = b._descriptors[s].descriptor_doc["uid"]
            mine = [p for p in pages if p["descriptor"] == uid]
            seqs = [x for p in mine for x in p["seq_num"]]
            got = [x for p in mine for x in p["data"][keys_of[s][0]]]
            want = list(range(start[s], start[s] + len(vals)))
            if seqs != want or got != vals or b._sequence_counters[s] != start[s] + len(vals):
                bad.append(f"{what}: stream {s!r}: {len(vals)} points handed over with the counter at {start[s]} were numbered {seqs} "
                           f"(order kept: {got == vals}), counter afterwards {b._sequence_counters[s]}")

    async def go():
        await b.open_run(Msg("open_run"))
        await b.declare_stream(Msg("declare_stream", None, det, name="primary"))
        kw = {}
        if declared:
            await b.declare_stream(Msg("declare_stream", None, fl, name="fly", collect=True))
            if named:
                kw = {"name": "fly"}
        del out[:]
        await b.collect(Msg("collect", fl, **kw))
        numbering(order1, {s: 1 for s in streams}, "first collect (new streams)")
        for s in nxt:
            b._sequence_counters[s] = nxt[s]
            b._sequence_counters_copy[s] = snap[s]
        del out[:]
        await b.collect(Msg("collect", fl, **kw))
        numbering(order2, nxt, "later collect")
        for s in ["primary"] + streams:
            if s not in order2 and b._sequence_counters[s] != nxt[s]:
                bad.append(f"later collect: counter of untouched stream {s!r} went from {nxt[s]} to {b._sequence_counters[s]}")
        if info.get("absent"):
            for s in streams:
                del b._sequence_counters_copy[s]
        after = {s: b._sequence_counters[s] for s in streams}
        b.rewind()
        for s in streams:
            if b._sequence_counters.get(s) != after[s]:
                bad.append(f"rewind: stream {s!r} (fed by collect, snapshot {'absent' if info.get('absent') else snap[s]}) rolled back from "
                           f"{after[s]} to {b._sequence_counters.get(s)}")
        if b._sequence_counters.get("primary") != snap["primary"]:
            bad.append(f"rewind: replayable stream 'primary' is at {b._sequence_counters.get('primary')}, snapshot {snap['primary']}")
    try:
        asyncio.run(go())
    except Exception as e:   # noqa
        bad.append(f"raised {type(e).__name__}: {e}")
    clause = info.get("clause")
    if clause:
        key = {"new": "first collect", "numbering": "later collect", "rewind": "rewind"}[clause]
        mine = [x for x in bad if x.startswith(key) or x.startswith("raised")]
        if mine:
            return "confirmed", "; ".join(mine)
        return "contradicted", f"clause '{clause}' holds natively ({kind}, declared={declared}, extras={extras}, shapes {shape1} / {shape2}, next={nxt}, snap={snap})" + \
            (f"; other clauses: {'; '.join(bad)}" if bad else "")
    return ("confirmed", "; ".join(bad)) if bad else ("contradicted", "all clauses hold natively")


def counters(model, info, art):
    """create/read/save numbering with checkpoint and rewind on a replayable stream"""
    class Det:
        name = "det"
        parent = None
        hints = {"fields": ["det"]}

        def read(self):
            return {"det": {"value": 1.0, "timestamp": 0.0}}

        def describe(self):
            return {"det": {"dtype": "number", "shape": [], "source": "x"}}

        def read_configuration(self):
            return {}

        def describe_configuration(self):
            return {}
    b, out = _bundler(False)
    det = Det()

    async def shot():
        await b.create(Msg("create", name="primary"))
        await b.read(Msg("read", det), det.read())
        await b.save(Msg("save"))

    async def go():
        await b.open_run(Msg("open_run"))
        await shot()
        await b.reset_checkpoint_state_coro()
        await shot()
        b.rewind()
        await shot()
        await shot()
        await b.reset_checkpoint_state_coro()
        await b.configure(Msg("configure", det))        # the stream is re-described after the checkpoint
        await shot()
        b.rewind()
        await shot()
        await b.close_run(Msg("close_run"))
    asyncio.run(go())
    seqs = [d["seq_num"] for n, d in out if n == "event"]
    stop = [d for n, d in out if n == "stop"][0]
    ok = seqs == [1, 2, 2, 3, 4, 4] and stop["num_events"] == {"primary": 4}
    return ("contradicted" if ok else "confirmed"), f"primary seq_nums {seqs} (documented [1, 2, 2, 3, 4, 4]), num_events={stop['num_events']}"


def bundles(model, info, art):
    """create/read/save/drop sequences over fake devices with overlapping / disjoint keys, checked against the documented rules"""
    from bluesky.utils import IllegalMessageSequence
    problems = []

    class Dev:
        parent = None

        def __init__(self, name, keys):
            self.name, self.keys = name, keys
            self.hints = {"fields": list(keys)}

        def read(self):
            return {k: {"value": hash((self.name, k)) % 97, "timestamp": 1.0} for k in self.keys}

        def describe(self):
            return {k: {"dtype": "number", "shape": [], "source": self.name} for k in self.keys}

        def read_configuration(self):
            return {}

        def describe_configuration(self):
            return {}
    a, b2, c = Dev("a", ["x"]), Dev("b", ["y", "z"]), Dev("c", ["x", "w"])
    bd, out = _bundler(False)

    async def go():
        await bd.open_run(Msg("open_run"))
        # empty bundle and drop consume nothing
        await bd.create(Msg("create", name="primary"))
        await bd.save(Msg("save"))
        await bd.create(Msg("create", name="primary"))
        await bd.read(Msg("read", a), a.read())
        await bd.drop(Msg("drop"))
        n0 = len(out)
        await bd.create(Msg("create", name="primary"))
        try:
            await bd.create(Msg("create", name="primary"))
            problems.append("second create accepted")
        except IllegalMessageSequence:
            pass
        await bd.read(Msg("read", a), a.read())
        await bd.read(Msg("read", b2), b2.read())
        try:
            await bd.read(Msg("read", c), c.read())
            problems.append("colliding read accepted")
        except ValueError:
            pass
        await bd.save(Msg("save"))
        new = out[n0:]
        names = [n for n, d in new]
        if names != ["descriptor", "event"]:
            problems.append(f"documents of the first real bundle: {names}")
        else:
            ev, desc = new[1][1], new[0][1]
            if set(ev["data"]) != {"x", "y", "z"} or set(desc["data_keys"]) != {"x", "y", "z"} or ev["seq_num"] != 1:
                problems.append(f"event data keys {sorted(ev['data'])}, descriptor keys {sorted(desc['data_keys'])}, seq_num {ev['seq_num']}")
            if ev["data"] != {**{k: v['value'] for k, v in a.read().items()}, **{k: v['value'] for k, v in b2.read().items()}}:
                problems.append(f"event data {ev['data']}")
        try:
            await bd.save(Msg("save"))
            problems.append("save outside a bundle accepted")
        except IllegalMessageSequence:
            pass
    try:
        asyncio.run(go())
    except Exception as e:
        problems.append(f"{type(e).__name__}: {e}")
    return ("confirmed" if problems else "contradicted"), "; ".join(problems) or "bundling rules as documented"


def configure(model, info, art):
    """monitored + configured device: events after configure must reference the new descriptor"""
    class Sig:
        parent = None
        name = "sig"
        hints = {"fields": ["sig"]}

        def __init__(self):
            self.gain = 1
            self.cb = None

        def read(self):
            return {"sig": {"value": 1.0, "timestamp": 1.0}}

        def describe(self):
            return {"sig": {"dtype": "number", "shape": [], "source": "s"}}

        def read_configuration(self):
            return {"gain": {"value": self.gain, "timestamp": 2.0}}

        def describe_configuration(self):
            return {"gain": {"dtype": "number", "shape": [], "source": "s"}}

        def subscribe(self, cb, **kw):
            self.cb = cb

        def clear_sub(self, cb):
            self.cb = None
    sig = Sig()
    bd, out = _bundler(False)

    async def go():
        await bd.open_run(Msg("open_run"))
        await bd.monitor(Msg("monitor", sig, name="mon"))
        sig.cb()
        sig.gain = 20
        await bd.configure(Msg("configure", sig))
        sig.cb()
    asyncio.run(go())
    descs = [d for n, d in out if n == "descriptor" and d["name"] == "mon"]
    evs = [d for n, d in out if n == "event"]
    ok = (len(descs) == 2 and len(evs) == 2 and evs[0]["descriptor"] == descs[0]["uid"] and evs[1]["descriptor"] == descs[1]["uid"]
          and descs[1]["configuration"]["sig"]["data"]["gain"] == 20 and [e["seq_num"] for e in evs] == [1, 2])
    return ("contradicted" if ok else "confirmed"), (f"{len(descs)} 'mon' descriptors (gains {[d['configuration']['sig']['data']['gain'] for d in descs]}); "
                                                     f"events reference {[descs.index(next(d for d in descs if d['uid'] == e['descriptor'])) for e in evs]} "
                                                     f"with seq_nums {[e['seq_num'] for e in evs]}")


def configure_program(model, info, art):
    """C16: run the program of the counter-example (info['program'], see replay/c16_spec.py) on a real RunBundler - 'configure'
    through a real RunEngine._configure - with the configuration values of the counter-model, and judge the emitted documents
    with the same monitor as the symbolic side; confirmed iff the clause of the failed obligation is violated natively"""
    from replay import c16_spec as S
    from replay.common import real
    from bluesky import RunEngine
    program, flyer, clause = info["program"], info.get("flyer"), info.get("clause") or art.get("obligation")
    problems = []
    spec = S.native_spec(problems)
    b, out = _bundler(False)
    RE = RunEngine({}, context_managers=[])
    RE._run_bundlers[None] = b
    base = {"det": 100.0, "other": 200.0, "fly": 300.0}
    dk = {"dtype": "number", "shape": [], "source": "sim"}

    class Dev:
        parent = None

        def __init__(self, name, keys):
            self.name, self.keys, self.hints = name, keys, {"fields": list(keys)}
            self.n, self.cbs, self.count = 0, [], 0
            self._report()

        def _report(self):
            k = self.n
            self.gain = real(model.get(f"{self.name}_gain{k}"), base[self.name] + k + 0.5)
            self.ts = real(model.get(f"{self.name}_ts{k}"), 7000 + base[self.name] + k + 0.25)
            spec.device_reports(self.name, {"gain": (self.gain, self.ts)})

        def read_configuration(self):
            return {"gain": {"value": self.gain, "timestamp": self.ts}}

        def describe_configuration(self):
            return {"gain": dict(dk)}

        def configure(self, k):
            old = self.read_configuration()
            self.n += 1
            self._report()
            return old, self.read_configuration()

    class Det(Dev):
        def read(self):
            self.count += 1
            return {k: {"value": self.count, "timestamp": float(self.count)} for k in self.keys}

        def describe(self):
            return {k: dict(dk) for k in self.keys}

        def subscribe(self, cb, **kw):
            self.cbs.append(cb)

        def clear_sub(self, cb):
            self.cbs.remove(cb)
    D = {"det": Det("det", ["x"]), "other": Det("other", ["y"])}
    if flyer:
        keys = {"fly": ["fx", "fz"], "fly2": ["fy"]}
        streams = keys if flyer["describe"] == "nested" else {"fly": keys["fly"]}

        class FlyBase(Dev):
            def kickoff(self):
                return None

            def complete(self):
                return None

            def describe_collect(self):
                if flyer["describe"] == "nested":
                    return {s: {k: dict(dk) for k in ks} for s, ks in streams.items()}
                return {k: dict(dk) for k in streams["fly"]}

        class EventsFlyer(FlyBase):
            def collect(self):
                for _ in range(2):
                    for s, ks in streams.items():
                        self.count += 1
                        yield {"data": {k: self.count for k in ks}, "timestamps": {k: float(self.count) for k in ks}, "time": float(self.count)}

        class PagesFlyer(FlyBase):
            def collect_pages(self):
                for s, ks in streams.items():
                    self.count += 2
                    yield {"data": {k: [self.count - 1, self.count] for k in ks}, "timestamps": {k: [1.0, 2.0] for k in ks}, "time": [1.0, 2.0]}
        class AssetsFlyer(FlyBase):
            first, idx = True, 0

            def describe_collect(self):
                return {"fx": dict(dk, dtype="array", shape=[1], external="STREAM:")}

            def get_index(self):
                return self.idx + 2

            def collect_asset_docs(self, index=None):
                from event_model import StreamRange
                if self.first:
                    yield "stream_resource", {"uid": "sr-fx", "data_key": "fx", "mimetype": "x", "uri": "file://x", "parameters": {}}
                yield "stream_datum", {"uid": f"sr-fx/{self.idx}", "stream_resource": "sr-fx", "descriptor": "",
                                       "indices": StreamRange(start=self.idx, stop=self.idx + 2), "seq_nums": StreamRange(start=0, stop=0)}
                self.first, self.idx = False, self.idx + 2
        D["fly"] = {"events": EventsFlyer, "pages": PagesFlyer, "assets": AssetsFlyer}[flyer["kind"]]("fly", [])

    async def act(a):
        if a[0] in ("bundle", "dropped"):
            await b.create(Msg("create", name=a[1]))
            for o in a[2]:
                await b.read(Msg("read", D[o]), D[o].read())
            await (b.save(Msg("save")) if a[0] == "bundle" else b.drop(Msg("drop")))
        elif a[0] == "declare":
            await b.declare_stream(Msg("declare_stream", None, *[D[o] for o in a[2]], name=a[1]))
        elif a[0] == "declare_fly":
            await b.declare_stream(Msg("declare_stream", None, D[a[2]], name=a[1], collect=True))
        elif a[0] == "monitor":
            await b.monitor(Msg("monitor", D[a[1]], name=a[2]))
        elif a[0] == "tick":
            for cb in list(D[a[1]].cbs):
                cb()
        elif a[0] == "collect":
            await b.kickoff(Msg("kickoff", D[a[1]]))
            await b.collect(Msg("collect", D[a[1]], **({"name": a[2]} if a[2] else {})))
        elif a[0] == "configure":
            await RE._configure(Msg("configure", D[a[1]], D[a[1]].n + 1))
        else:
            raise ValueError(f"unknown action {a}")

    async def go():
        await b.open_run(Msg("open_run"))
        del out[:]
        for a in program:
            n0 = len(out)
            spec.begin(a)
            raised = None
            try:
                await act(a)
            except Exception as e:   # noqa
                raised = f"{type(e).__name__}: {e}"[:200]
            for name, doc in out[n0:]:
                spec.doc(name, doc)
            spec.end(raised)
    asyncio.run(go())
    mine = [d for c, d in problems if c == clause]
    if mine:
        return "confirmed", f"{len(program)} actions; violated natively: " + " | ".join(mine[:3])
    others = sorted({c for c, d in problems})
    return "contradicted", f"{len(program)} actions {program}: the clause holds natively" + (f" (other clauses violated: {others})" if others else "")


def lifecycle(model, info, art):
    """a run with bundles, a monitor and interruption records: the emitted documents must form start ... stop with
    backward references only, and a second close_run must be refused"""
    from bluesky.utils import IllegalMessageSequence
    problems = []
    bd, out = _bundler(True)

    class Sig:
        parent = None
        name = "sig"
        hints = {"fields": ["sig"]}
        cb = None

        def read(self):
            return {"sig": {"value": 1.0, "timestamp": 1.0}}

        def describe(self):
            return {"sig": {"dtype": "number", "shape": [], "source": "s"}}

        def read_configuration(self):
            return {}

        def describe_configuration(self):
            return {}

        def subscribe(self, cb, **kw):
            self.cb = cb

        def clear_sub(self, cb):
            self.cb = None
    sig = Sig()

    async def go():
        await bd.open_run(Msg("open_run"))
        bd.record_interruption("pause")
        await bd.monitor(Msg("monitor", sig, name="mon"))
        sig.cb()
        await bd.create(Msg("create", name="primary"))
        await bd.read(Msg("read", sig), sig.read())
        await bd.save(Msg("save"))
        sig.cb()
        await bd.close_run(Msg("close_run", exit_status="success"))
        try:
            await bd.close_run(Msg("close_run"))
            problems.append("second close_run accepted")
        except IllegalMessageSequence:
            pass
    asyncio.run(go())
    names = [n for n, d in out]
    if names[0] != "start" or names.count("start") != 1 or names.count("stop") != 1 or names[-1] != "stop":
        problems.append(f"document kinds {names}")
    start_uid = out[0][1]["uid"]
    seen, uids = set(), set()
    for n, d in out:
        if d["uid"] in uids:
            problems.append(f"uid {d['uid']} emitted twice")
        uids.add(d["uid"])
        if n == "descriptor":
            seen.add(d["uid"])
            if d["run_start"] != start_uid:
                problems.append("descriptor of another run")
        if n == "event" and d["descriptor"] not in seen:
            problems.append("event before its descriptor")
        if n == "stop" and d["run_start"] != start_uid:
            problems.append("stop of another run")
    return ("confirmed" if problems else "contradicted"), "; ".join(problems) or f"well-formed stream {names}"


def _collect_streams(model, info, art, declare_collect):
    """C45: one collect of n WritesStreamAssets detectors on a pre-declared stream, with the indices / counter of the counter-model"""
    from event_model import StreamRange, EventModelValueError
    n, first = int(info.get("n", 2)), bool(info.get("first", True))

    def val(name, default):
        try:
            return int(model.get(name, default))
        except (TypeError, ValueError):
            return default
    nxt = max(1, val("next_fly", 1))
    asked = []

    class Det:
        parent = None

        def __init__(self, i):
            self.i, self.name = i, f"det{i}"
            self.index = max(0, val(f"index_{i}", 5 + i))
            self.start = max(0, val(f"start_{i}", 0))
            self.stop = max(self.start, val(f"stop_{i}", 5))

        def describe_collect(self):
            return {f"img{self.i}": {"dtype": "array", "shape": [1], "source": "x", "external": "STREAM:"}}

        def describe(self):
            return self.describe_collect()

        def read(self):
            return {}

        def read_configuration(self):
            return {}

        def describe_configuration(self):
            return {}

        def kickoff(self):
            pass

        def complete(self):
            pass

        def get_index(self):
            return self.index

        def collect_asset_docs(self, index=None):
            asked.append(index)
            if first:
                yield "stream_resource", {"uid": f"sr{self.i}", "data_key": f"img{self.i}", "mimetype": "x", "uri": "file://x", "parameters": {}}
            yield "stream_datum", {"uid": f"sr{self.i}/0", "stream_resource": f"sr{self.i}", "descriptor": "",
                                   "indices": StreamRange(start=self.start, stop=self.stop), "seq_nums": StreamRange(start=0, stop=0)}
    dets = [Det(i) for i in range(n)]
    b, out = _bundler(False)
    res = {}

    async def go():
        await b.open_run(Msg("open_run"))
        await b.declare_stream(Msg("declare_stream", None, *dets, name="fly", collect=declare_collect))
        first_counter = b._sequence_counters["fly"]
        b._sequence_counters["fly"] = nxt
        if not first:
            for d in dets:
                b._stream_resource_data_keys[f"sr{d.i}"] = f"img{d.i}"
        del out[:]
        try:
            await b.collect(Msg("collect", dets[0], *dets[1:], name="fly"))
            res["raised"] = None
        except Exception as e:   # noqa
            res["raised"] = e
        res["first_counter"] = first_counter
    asyncio.run(go())
    widths = [d.stop - d.start for d in dets]
    same = len(set(widths)) == 1
    datums = [d for nm, d in out if nm == "stream_datum"]
    desc_uid = b._descriptors["fly"].descriptor_doc["uid"]
    bad = []
    if res["first_counter"] != 1:
        bad.append(f"a new stream's counter starts at {res['first_counter']}")
    if res["raised"] is not None:
        if not isinstance(res["raised"], EventModelValueError) or same or b._sequence_counters["fly"] != nxt:
            bad.append(f"collect raised {res['raised']!r} (widths {widths}, counter {b._sequence_counters['fly']} from {nxt})")
    else:
        if not same and all(x > 0 for x in widths):
            bad.append(f"detectors declaring different widths {widths} were accepted")
        want = None if n == 1 else min(d.index for d in dets)
        if asked != [want] * n:
            bad.append(f"detectors were asked to advance to {asked}, expected {[want] * n}")
        for d, doc in zip(dets, datums):
            if (doc["seq_nums"]["start"], doc["seq_nums"]["stop"]) != (nxt, nxt + d.stop - d.start) or \
                    (doc["indices"]["start"], doc["indices"]["stop"]) != (d.start, d.stop) or doc["descriptor"] != desc_uid:
                bad.append(f"stream_datum {doc} (counter was {nxt}, detector indices [{d.start}, {d.stop}))")
        if len(datums) != n:
            bad.append(f"{len(datums)} stream_datums emitted for {n} detectors")
        if same and b._sequence_counters["fly"] != nxt + widths[0]:
            bad.append(f"counter went from {nxt} to {b._sequence_counters['fly']} for a collect of width {widths[0]}")
        # a rewind before the next checkpoint must not roll the collected stream back
        snap = min(max(1, val("snap_fly", 1)), nxt)
        after = b._sequence_counters["fly"]
        b._sequence_counters_copy["fly"] = snap
        b.rewind()
        if b._sequence_counters["fly"] != after:
            bad.append(f"a rewind after the collect rolled the stream's counter back from {after} to {b._sequence_counters['fly']}")
    if bad:
        return "confirmed", "; ".join(bad)
    return "contradicted", f"n={n} first={first} next={nxt} widths={widths} asked={asked}: all clauses hold natively"


def collect_streams(model, info, art):
    """the stream may have been declared with collect=True or collect=False: the clauses hold either way"""
    out = []
    for mode in (True, False):
        v, d = _collect_streams(model, info, art, mode)
        out.append((v, f"[declare_stream(collect={mode})] {d}"))
    for v, d in out:
        if v == "confirmed":
            return v, d
    return out[0]


def open_emit_fails(model, info, art):
    """C01: a subscriber raising while open_run delivers its first documents: the run must count as open afterwards"""
    fail_at = info.get("fail_at", "start")
    sent = []

    async def emit(name, doc):
        sent.append(name.name)
        if name.name == fail_at:
            raise ValueError("callback failed")
    b = RunBundler({}, fail_at == "descriptor", emit, lambda n, d: None, logging.getLogger("replay"), strict_pre_declare=False)

    async def go():
        try:
            await b.open_run(Msg("open_run"))
            return None
        except ValueError as e:
            return e
    e = asyncio.run(go())
    ok = e is not None and sent[:1] == ["start"] and b.run_is_open is True
    return ("contradicted" if ok else "confirmed"), f"delivery of {fail_at} failed: raised={e!r}, sent={sent}, run_is_open={b.run_is_open}"


def close_monitors_suspended(model, info, art):
    """C01: closing a run whose monitors are suspended, on a device whose clear_sub refuses unknown callbacks"""
    suspended, via_epilogue = bool(info.get("suspended", True)), bool(info.get("via_epilogue", False))

    class Sig:
        name = "sig"
        parent = None

        def __init__(self):
            self.cbs = []

        def read(self):
            return {"sig": {"value": 1, "timestamp": 0}}

        def describe(self):
            return {"sig": {"dtype": "number", "shape": [], "source": "x"}}

        def read_configuration(self):
            return {}

        def describe_configuration(self):
            return {}

        def subscribe(self, cb, **kw):
            self.cbs.append(cb)

        def clear_sub(self, cb):
            self.cbs.remove(cb)
    b, out = _bundler(False)
    sig = Sig()

    async def go():
        await b.open_run(Msg("open_run"))
        await b.monitor(Msg("monitor", sig, name="mon"))
        if suspended:
            await b.suspend_monitors()
        if via_epilogue:
            b.clear_monitors()
        del out[:]
        try:
            await b.close_run(Msg("close_run", exit_status="abort", reason=""))
            return None
        except Exception as e:   # noqa
            return e
    e = asyncio.run(go())
    ok = e is None and [n for n, d in out] == ["stop"] and not sig.cbs and b.run_is_open is False
    return ("contradicted" if ok else "confirmed"), f"suspended={suspended} via_epilogue={via_epilogue}: raised={e!r}, emitted={[n for n, d in out]}, still subscribed={len(sig.cbs)}"


def checkpoint_guard(model, info, art):
    """C15: two runs open under different run keys, one of them between create and save: a checkpoint - whatever run key it carries -
    must be refused (checkpoint state is global)"""
    from bluesky import RunEngine
    from bluesky.utils import IllegalMessageSequence
    bkey, mkey = info.get("bundling_key"), info.get("message_key")
    okey = "a" if bkey is None else None
    RE = RunEngine({}, context_managers=[])
    plan = [Msg("open_run", run=bkey), Msg("open_run", run=okey), Msg("create", name="primary", run=bkey), Msg("checkpoint", run=mkey)]
    try:
        RE(plan)
    except IllegalMessageSequence as e:
        return "contradicted", f"checkpoint(run={mkey!r}) while run {bkey!r} is bundling was refused: {e}"
    except Exception as e:   # noqa
        return "confirmed", f"checkpoint(run={mkey!r}) while run {bkey!r} is bundling raised {type(e).__name__}: {e}"
    return "confirmed", f"checkpoint(run={mkey!r}) was accepted while run {bkey!r} was between create and save"


def interruptions(model, info, art):
    """C40 (contracts/C40.py: record_interruption): on a real RunBundler with recording enabled - after `before` (nothing / a monitor started /
    a classic flyer described: both register another never-replayed stream), n - 1 earlier records and possibly a checkpoint - a 'pause'
    record, a rewind and a 'resume' record must carry the stream's next two seq_nums, must not raise, and the RunStop must count all records"""
    b, out = _bundler(True)
    before, checkpoint = info.get("before", "nothing"), bool(info.get("checkpoint"))
    try:
        n = int((model or {}).get("next_interruptions", 1))
    except (TypeError, ValueError):
        n = 1
    n = n if 1 <= n <= 40 else 3

    class Sig:
        name, parent, hints = "sig", None, {}

        def describe(self):
            return {"sig": {"dtype": "number", "shape": [], "source": "s"}}

        def read_configuration(self):
            return {}

        describe_configuration = read_configuration

        def subscribe(self, cb, **kw):
            pass

        def clear_sub(self, cb):
            pass

    class Fly:
        name, parent, hints = "fly", None, {}

        def describe_collect(self):
            return {"flystream": {"fx": {"dtype": "number", "shape": [], "source": "fly"}}}

        def read_configuration(self):
            return {}

        describe_configuration = read_configuration

        def kickoff(self):
            pass

        def complete(self):
            pass

        def collect(self):
            return iter(())
    raised = []

    async def go():
        await b.open_run(Msg("open_run"))
        if before == "monitor":
            await b.monitor(Msg("monitor", Sig(), name="mon"))
        elif before == "describe_collect":
            await b._describe_collect(Fly())
        for _ in range(n - 1):
            b.record_interruption("earlier")
        if checkpoint:
            await b.reset_checkpoint_state_coro()
        if info.get("bundling"):
            await b.create(Msg("create", name="primary"))
        for what in ("pause", "resume"):
            if what == "resume":
                b.rewind()
            try:
                b.record_interruption(what)
            except Exception as e:     # noqa
                raised.append(f"record_interruption({what!r}) raised {type(e).__name__}: {e}")
        await b.close_run(Msg("close_run"))
    asyncio.run(go())
    obligation = art.get("obligation", "")
    if "#frame[" in obligation:
        ok = "interruptions" in b._unreplayed_streams
        return ("contradicted" if ok else "confirmed"), f"after {before}: never-replayed streams {sorted(map(str, b._unreplayed_streams))}"
    desc = [d for nm, d in out if nm == "descriptor" and d["name"] == "interruptions"][0]
    seqs = [d["seq_num"] for nm, d in out if nm == "event" and d["descriptor"] == desc["uid"]]
    stop = [d for nm, d in out if nm == "stop"][0]
    cnt = stop["num_events"].get("interruptions")
    if "close_run#ensures" in obligation:
        ok = cnt == n + 1
    else:
        ok = not raised and seqs == list(range(1, n + 2))
    return ("contradicted" if ok else "confirmed"), (f"before={before}, checkpoint={checkpoint}: interruption seq_nums {seqs}, "
                                                    f"stop.num_events={stop['num_events']}; {'; '.join(raised)}")
