"""native replay adapters for RunBundler counter obligations (C05 / C40): drive a real RunBundler with a recording emit"""
import asyncio

from bluesky.bundlers import RunBundler
from bluesky.utils import Msg
import logging


def _bundler(record_interruptions=True):
    out = []

    async def emit(name, doc):
        out.append((name.name, doc))

    def emit_sync(name, doc):
        out.append((name.name, doc))
    b = RunBundler({}, record_interruptions, emit, emit_sync, logging.getLogger("replay"), strict_pre_declare=False)
    return b, out


def rewind(model, info, art):
    """interruption records around a rewind must get fresh seq_nums and be counted in the RunStop"""
    b, out = _bundler(True)

    async def go():
        await b.open_run(Msg("open_run"))
        b.record_interruption("pause")
        await b.reset_checkpoint_state_coro() if False else None
        b.rewind()
        b.record_interruption("resume")
        b.record_interruption("pause")
        b.rewind()
        b.record_interruption("resume")
        await b.close_run(Msg("close_run"))
    try:
        asyncio.run(go())
    except Exception as e:
        return "confirmed", f"recording an interruption after a rewind raised {type(e).__name__}: {e}"
    desc = [d for n, d in out if n == "descriptor" and d["name"] == "interruptions"][0]
    seqs = [d["seq_num"] for n, d in out if n == "event" and d["descriptor"] == desc["uid"]]
    stop = [d for n, d in out if n == "stop"][0]
    ok = seqs == [1, 2, 3, 4] and stop["num_events"].get("interruptions") == 4
    return ("contradicted" if ok else "confirmed"), f"interruption seq_nums {seqs}, stop.num_events={stop['num_events']}"


def counters(model, info, art):
    """create/read/save numbering with checkpoint and rewind on a replayable stream"""
    class Det:
        name = "det"
        parent = None
        hints = {"fields": ["det"]}

        def read(self):
            return {"det": {"value": 1.0, "timestamp": 0.0}}

        def describe(self):
            return {"det": {"dtype": "number", "shape": [], "source": "x"}}

        def read_configuration(self):
            return {}

        def describe_configuration(self):
            return {}
    b, out = _bundler(False)
    det = Det()

    async def shot():
        await b.create(Msg("create", name="primary"))
        await b.read(Msg("read", det), det.read())
        await b.save(Msg("save"))

    async def go():
        await b.open_run(Msg("open_run"))
        await shot()
        await b.reset_checkpoint_state_coro()
        await shot()
        b.rewind()
        await shot()
        await shot()
        await b.reset_checkpoint_state_coro()
        await b.configure(Msg("configure", det))        # the stream is re-described after the checkpoint
        await shot()
        b.rewind()
        await shot()
        await b.close_run(Msg("close_run"))
    asyncio.run(go())
    seqs = [d["seq_num"] for n, d in out if n == "event"]
    stop = [d for n, d in out if n == "stop"][0]
    ok = seqs == [1, 2, 2, 3, 4, 4] and stop["num_events"] == {"primary": 4}
    return ("contradicted" if ok else "confirmed"), f"primary seq_nums {seqs} (documented [1, 2, 2, 3, 4, 4]), num_events={stop['num_events']}"


def bundles(model, info, art):
    """create/read/save/drop sequences over fake devices with overlapping / disjoint keys, checked against the documented rules"""
    from bluesky.utils import IllegalMessageSequence
    problems = []

    class Dev:
        parent = None

        def __init__(self, name, keys):
            self.name, self.keys = name, keys
            self.hints = {"fields": list(keys)}

        def read(self):
            return {k: {"value": hash((self.name, k)) % 97, "timestamp": 1.0} for k in self.keys}

        def describe(self):
            return {k: {"dtype": "number", "shape": [], "source": self.name} for k in self.keys}

        def read_configuration(self):
            return {}

        def describe_configuration(self):
            return {}
    a, b2, c = Dev("a", ["x"]), Dev("b", ["y", "z"]), Dev("c", ["x", "w"])
    bd, out = _bundler(False)

    async def go():
        await bd.open_run(Msg("open_run"))
        # empty bundle and drop consume nothing
        await bd.create(Msg("create", name="primary"))
        await bd.save(Msg("save"))
        await bd.create(Msg("create", name="primary"))
        await bd.read(Msg("read", a), a.read())
        await bd.drop(Msg("drop"))
        n0 = len(out)
        await bd.create(Msg("create", name="primary"))
        try:
            await bd.create(Msg("create", name="primary"))
            problems.append("second create accepted")
        except IllegalMessageSequence:
            pass
        await bd.read(Msg("read", a), a.read())
        await bd.read(Msg("read", b2), b2.read())
        try:
            await bd.read(Msg("read", c), c.read())
            problems.append("colliding read accepted")
        except ValueError:
            pass
        await bd.save(Msg("save"))
        new = out[n0:]
        names = [n for n, d in new]
        if names != ["descriptor", "event"]:
            problems.append(f"documents of the first real bundle: {names}")
        else:
            ev, desc = new[1][1], new[0][1]
            if set(ev["data"]) != {"x", "y", "z"} or set(desc["data_keys"]) != {"x", "y", "z"} or ev["seq_num"] != 1:
                problems.append(f"event data keys {sorted(ev['data'])}, descriptor keys {sorted(desc['data_keys'])}, seq_num {ev['seq_num']}")
            if ev["data"] != {**{k: v['value'] for k, v in a.read().items()}, **{k: v['value'] for k, v in b2.read().items()}}:
                problems.append(f"event data {ev['data']}")
        try:
            await bd.save(Msg("save"))
            problems.append("save outside a bundle accepted")
        except IllegalMessageSequence:
            pass
    try:
        asyncio.run(go())
    except Exception as e:
        problems.append(f"{type(e).__name__}: {e}")
    return ("confirmed" if problems else "contradicted"), "; ".join(problems) or "bundling rules as documented"


def configure(model, info, art):
    """monitored + configured device: events after configure must reference the new descriptor"""
    class Sig:
        parent = None
        name = "sig"
        hints = {"fields": ["sig"]}

        def __init__(self):
            self.gain = 1
            self.cb = None

        def read(self):
            return {"sig": {"value": 1.0, "timestamp": 1.0}}

        def describe(self):
            return {"sig": {"dtype": "number", "shape": [], "source": "s"}}

        def read_configuration(self):
            return {"gain": {"value": self.gain, "timestamp": 2.0}}

        def describe_configuration(self):
            return {"gain": {"dtype": "number", "shape": [], "source": "s"}}

        def subscribe(self, cb, **kw):
            self.cb = cb

        def clear_sub(self, cb):
            self.cb = None
    sig = Sig()
    bd, out = _bundler(False)

    async def go():
        await bd.open_run(Msg("open_run"))
        await bd.monitor(Msg("monitor", sig, name="mon"))
        sig.cb()
        sig.gain = 20
        await bd.configure(Msg("configure", sig))
        sig.cb()
    asyncio.run(go())
    descs = [d for n, d in out if n == "descriptor" and d["name"] == "mon"]
    evs = [d for n, d in out if n == "event"]
    ok = (len(descs) == 2 and len(evs) == 2 and evs[0]["descriptor"] == descs[0]["uid"] and evs[1]["descriptor"] == descs[1]["uid"]
          and descs[1]["configuration"]["sig"]["data"]["gain"] == 20 and [e["seq_num"] for e in evs] == [1, 2])
    return ("contradicted" if ok else "confirmed"), (f"{len(descs)} 'mon' descriptors (gains {[d['configuration']['sig']['data']['gain'] for d in descs]}); "
                                                     f"events reference {[descs.index(next(d for d in descs if d['uid'] == e['descriptor'])) for e in evs]} "
                                                     f"with seq_nums {[e['seq_num'] for e in evs]}")


def lifecycle(model, info, art):
    """a run with bundles, a monitor and interruption records: the emitted documents must form start ... stop with
    backward references only, and a second close_run must be refused"""
    from bluesky.utils import IllegalMessageSequence
    problems = []
    bd, out = _bundler(True)

    class Sig:
        parent = None
        name = "sig"
        hints = {"fields": ["sig"]}
        cb = None

        def read(self):
            return {"sig": {"value": 1.0, "timestamp": 1.0}}

        def describe(self):
            return {"sig": {"dtype": "number", "shape": [], "source": "s"}}

        def read_configuration(self):
            return {}

        def describe_configuration(self):
            return {}

        def subscribe(self, cb, **kw):
            self.cb = cb

        def clear_sub(self, cb):
            self.cb = None
    sig = Sig()

    async def go():
        await bd.open_run(Msg("open_run"))
        bd.record_interruption("pause")
        await bd.monitor(Msg("monitor", sig, name="mon"))
        sig.cb()
        await bd.create(Msg("create", name="primary"))
        await bd.read(Msg("read", sig), sig.read())
        await bd.save(Msg("save"))
        sig.cb()
        await bd.close_run(Msg("close_run", exit_status="success"))
        try:
            await bd.close_run(Msg("close_run"))
            problems.append("second close_run accepted")
        except IllegalMessageSequence:
            pass
    asyncio.run(go())
    names = [n for n, d in out]
    if names[0] != "start" or names.count("start") != 1 or names.count("stop") != 1 or names[-1] != "stop":
        problems.append(f"document kinds {names}")
    start_uid = out[0][1]["uid"]
    seen, uids = set(), set()
    for n, d in out:
        if d["uid"] in uids:
            problems.append(f"uid {d['uid']} emitted twice")
        uids.add(d["uid"])
        if n == "descriptor":
            seen.add(d["uid"])
            if d["run_start"] != start_uid:
                problems.append("descriptor of another run")
        if n == "event" and d["descriptor"] not in seen:
            problems.append("event before its descriptor")
        if n == "stop" and d["run_start"] != start_uid:
            problems.append("stop of another run")
    return ("confirmed" if problems else "contradicted"), "; ".join(problems) or f"well-formed stream {names}"


def _collect_streams(model, info, art, declare_collect):
    """C45: one collect of n WritesStreamAssets detectors on a pre-declared stream, with the indices / counter of the counter-model"""
    from event_model import StreamRange, EventModelValueError
    n, first = int(info.get("n", 2)), bool(info.get("first", True))

    def val(name, default):
        try:
            return int(model.get(name, default))
        except (TypeError, ValueError):
            return default
    nxt = max(1, val("next_fly", 1))
    asked = []

    class Det:
        parent = None

        def __init__(self, i):
            self.i, self.name = i, f"det{i}"
            self.index = max(0, val(f"index_{i}", 5 + i))
            self.start = max(0, val(f"start_{i}", 0))
            self.stop = max(self.start, val(f"stop_{i}", 5))

        def describe_collect(self):
            return {f"img{self.i}": {"dtype": "array", "shape": [1], "source": "x", "external": "STREAM:"}}

        def describe(self):
            return self.describe_collect()

        def read(self):
            return {}

        def read_configuration(self):
            return {}

        def describe_configuration(self):
            return {}

        def kickoff(self):
            pass

        def complete(self):
            pass

        def get_index(self):
            return self.index

        def collect_asset_docs(self, index=None):
            asked.append(index)
            if first:
                yield "stream_resource", {"uid": f"sr{self.i}", "data_key": f"img{self.i}", "mimetype": "x", "uri": "file://x", "parameters": {}}
            yield "stream_datum", {"uid": f"sr{self.i}/0", "stream_resource": f"sr{self.i}", "descriptor": "",
                                   "indices": StreamRange(start=self.start, stop=self.stop), "seq_nums": StreamRange(start=0, stop=0)}
    dets = [Det(i) for i in range(n)]
    b, out = _bundler(False)
    res = {}

    async def go():
        await b.open_run(Msg("open_run"))
        await b.declare_stream(Msg("declare_stream", None, *dets, name="fly", collect=declare_collect))
        first_counter = b._sequence_counters["fly"]
        b._sequence_counters["fly"] = nxt
        if not first:
            for d in dets:
                b._stream_resource_data_keys[f"sr{d.i}"] = f"img{d.i}"
        del out[:]
        try:
            await b.collect(Msg("collect", dets[0], *dets[1:], name="fly"))
            res["raised"] = None
        except Exception as e:   # noqa
            res["raised"] = e
        res["first_counter"] = first_counter
    asyncio.run(go())
    widths = [d.stop - d.start for d in dets]
    same = len(set(widths)) == 1
    datums = [d for nm, d in out if nm == "stream_datum"]
    desc_uid = b._descriptors["fly"].descriptor_doc["uid"]
    bad = []
    if res["first_counter"] != 1:
        bad.append(f"a new stream's counter starts at {res['first_counter']}")
    if res["raised"] is not None:
        if not isinstance(res["raised"], EventModelValueError) or same or b._sequence_counters["fly"] != nxt:
            bad.append(f"collect raised {res['raised']!r} (widths {widths}, counter {b._sequence_counters['fly']} from {nxt})")
    else:
        if not same and all(x > 0 for x in widths):
            bad.append(f"detectors declaring different widths {widths} were accepted")
        want = None if n == 1 else min(d.index for d in dets)
        if asked != [want] * n:
            bad.append(f"detectors were asked to advance to {asked}, expected {[want] * n}")
        for d, doc in zip(dets, datums):
            if (doc["seq_nums"]["start"], doc["seq_nums"]["stop"]) != (nxt, nxt + d.stop - d.start) or \
                    (doc["indices"]["start"], doc["indices"]["stop"]) != (d.start, d.stop) or doc["descriptor"] != desc_uid:
                bad.append(f"stream_datum {doc} (counter was {nxt}, detector indices [{d.start}, {d.stop}))")
        if len(datums) != n:
            bad.append(f"{len(datums)} stream_datums emitted for {n} detectors")
        if same and b._sequence_counters["fly"] != nxt + widths[0]:
            bad.append(f"counter went from {nxt} to {b._sequence_counters['fly']} for a collect of width {widths[0]}")
        # a rewind before the next checkpoint must not roll the collected stream back
        snap = min(max(1, val("snap_fly", 1)), nxt)
        after = b._sequence_counters["fly"]
        b._sequence_counters_copy["fly"] = snap
        b.rewind()
        if b._sequence_counters["fly"] != after:
            bad.append(f"a rewind after the collect rolled the stream's counter back from {after} to {b._sequence_counters['fly']}")
    if bad:
        return "confirmed", "; ".join(bad)
    return "contradicted", f"n={n} first={first} next={nxt} widths={widths} asked={asked}: all clauses hold natively"


def collect_streams(model, info, art):
    """the stream may have been declared with collect=True or collect=False: the clauses hold either way"""
    out = []
    for mode in (True, False):
        v, d = _collect_streams(model, info, art, mode)
        out.append((v, f"[declare_stream(collect={mode})] {d}"))
    for v, d in out:
        if v == "confirmed":
            return v, d
    return out[0]


def open_emit_fails(model, info, art):
    """C01: a subscriber raising while open_run delivers its first documents: the run must count as open afterwards"""
    fail_at = info.get("fail_at", "start")
    sent = []

    async def emit(name, doc):
        sent.append(name.name)
        if name.name == fail_at:
            raise ValueError("callback failed")
    b = RunBundler({}, fail_at == "descriptor", emit, lambda n, d: None, logging.getLogger("replay"), strict_pre_declare=False)

    async def go():
        try:
            await b.open_run(Msg("open_run"))
            return None
        except ValueError as e:
            return e
    e = asyncio.run(go())
    ok = e is not None and sent[:1] == ["start"] and b.run_is_open is True
    return ("contradicted" if ok else "confirmed"), f"delivery of {fail_at} failed: raised={e!r}, sent={sent}, run_is_open={b.run_is_open}"


def close_monitors_suspended(model, info, art):
    """C01: closing a run whose monitors are suspended, on a device whose clear_sub refuses unknown callbacks"""
    suspended, via_epilogue = bool(info.get("suspended", True)), bool(info.get("via_epilogue", False))

    class Sig:
        name = "sig"
        parent = None

        def __init__(self):
            self.cbs = []

        def read(self):
            return {"sig": {"value": 1, "timestamp": 0}}

        def describe(self):
            return {"sig": {"dtype": "number", "shape": [], "source": "x"}}

        def read_configuration(self):
            return {}

        def describe_configuration(self):
            return {}

        def subscribe(self, cb, **kw):
            self.cbs.append(cb)

        def clear_sub(self, cb):
            self.cbs.remove(cb)
    b, out = _bundler(False)
    sig = Sig()

    async def go():
        await b.open_run(Msg("open_run"))
        await b.monitor(Msg("monitor", sig, name="mon"))
        if suspended:
            await b.suspend_monitors()
        if via_epilogue:
            b.clear_monitors()
        del out[:]
        try:
            await b.close_run(Msg("close_run", exit_status="abort", reason=""))
            return None
        except Exception as e:   # noqa
            return e
    e = asyncio.run(go())
    ok = e is None and [n for n, d in out] == ["stop"] and not sig.cbs and b.run_is_open is False
    return ("contradicted" if ok else "confirmed"), f"suspended={suspended} via_epilogue={via_epilogue}: raised={e!r}, emitted={[n for n, d in out]}, still subscribed={len(sig.cbs)}"


def checkpoint_guard(model, info, art):
    """C15: two runs open under different run keys, one of them between create and save: a checkpoint - whatever run key it carries -
    must be refused (checkpoint state is global)"""
    from bluesky import RunEngine
    from bluesky.utils import IllegalMessageSequence
    bkey, mkey = info.get("bundling_key"), info.get("message_key")
    okey = "a" if bkey is None else None
    RE = RunEngine({}, context_managers=[])
    plan = [Msg("open_run", run=bkey), Msg("open_run", run=okey), Msg("create", name="primary", run=bkey), Msg("checkpoint", run=mkey)]
    try:
        RE(plan)
    except IllegalMessageSequence as e:
        return "contradicted", f"checkpoint(run={mkey!r}) while run {bkey!r} is bundling was refused: {e}"
    except Exception as e:   # noqa
        return "confirmed", f"checkpoint(run={mkey!r}) while run {bkey!r} is bundling raised {type(e).__name__}: {e}"
    return "confirmed", f"checkpoint(run={mkey!r}) was accepted while run {bkey!r} was between create and save"


def interruptions(model, info, art):
    """C40 (contracts/C40.py: record_interruption): on a real RunBundler with recording enabled - after `before` (nothing / a monitor started /
    a classic flyer described: both register another never-replayed stream), n - 1 earlier records and possibly a checkpoint - a 'pause'
    record, a rewind and a 'resume' record must carry the stream's next two seq_nums, must not raise, and the RunStop must count all records"""
    b, out = _bundler(True)
    before, checkpoint = info.get("before", "nothing"), bool(info.get("checkpoint"))
    try:
        n = int((model or {}).get("next_interruptions", 1))
    except (TypeError, ValueError):
        n = 1
    n = n if 1 <= n <= 40 else 3

    class Sig:
        name, parent, hints = "sig", None, {}

        def describe(self):
            return {"sig": {"dtype": "number", "shape": [], "source": "s"}}

        def read_configuration(self):
            return {}

        describe_configuration = read_configuration

        def subscribe(self, cb, **kw):
            pass

        def clear_sub(self, cb):
            pass

    class Fly:
        name, parent, hints = "fly", None, {}

        def describe_collect(self):
            return {"flystream": {"fx": {"dtype": "number", "shape": [], "source": "fly"}}}

        def read_configuration(self):
            return {}

        describe_configuration = read_configuration

        def kickoff(self):
            pass

        def complete(self):
            pass

        def collect(self):
            return iter(())
    raised = []

    async def go():
        await b.open_run(Msg("open_run"))
        if before == "monitor":
            await b.monitor(Msg("monitor", Sig(), name="mon"))
        elif before == "describe_collect":
            await b._describe_collect(Fly())
        for _ in range(n - 1):
            b.record_interruption("earlier")
        if checkpoint:
            await b.reset_checkpoint_state_coro()
        if info.get("bundling"):
            await b.create(Msg("create", name="primary"))
        for what in ("pause", "resume"):
            if what == "resume":
                b.rewind()
            try:
                b.record_interruption(what)
            except Exception as e:     # noqa
                raised.append(f"record_interruption({what!r}) raised {type(e).__name__}: {e}")
        await b.close_run(Msg("close_run"))
    asyncio.run(go())
    obligation = art.get("obligation", "")
    if "#frame[" in obligation:
        ok = "interruptions" in b._unreplayed_streams
        return ("contradicted" if ok else "confirmed"), f"after {before}: never-replayed streams {sorted(map(str, b._unreplayed_streams))}"
    desc = [d for nm, d in out if nm == "descriptor" and d["name"] == "interruptions"][0]
    seqs = [d["seq_num"] for nm, d in out if nm == "event" and d["descriptor"] == desc["uid"]]
    stop = [d for nm, d in out if nm == "stop"][0]
    cnt = stop["num_events"].get("interruptions")
    if "close_run#ensures" in obligation:
        ok = cnt == n + 1
    else:
        ok = not raised and seqs == list(range(1, n + 2))
    return ("contradicted" if ok else "confirmed"), (f"before={before}, checkpoint={checkpoint}: interruption seq_nums {seqs}, "
                                                    f"stop.num_events={stop['num_events']}; {'; '.join(raised)}")
