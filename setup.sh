#!/bin/sh
# offline tool-chain check; nothing is downloaded or built outside /verif
set -e
cd "$(dirname "$0")"
python3-vt -c "import z3; assert z3.get_version_string()"
/usr/bin/cvc5 --version >/dev/null
/venv/bin/python -c "import bluesky"
mkdir -p evidence replays
echo setup-ok
