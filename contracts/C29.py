"""C29 - adaptive and tuning scans terminate and stay within their range.

Carriers: bluesky/plans.py: adaptive_scan (+ nested adaptive_core), tune_centroid (+ nested _tune_core); the stage / run
decorator stacks around them are executed too (real bodies).
Technique: the real plans are run symbolically as generators (all parameters symbolic reals, A-REAL) by a driver that answers
every 'read' with a reading holding an arbitrary fresh real ("every detector response").  The one `while` loop of each
carrier is cut at its head by a classic invariant (class LoopCut, an interpreter loop spec): establish on entry, havoc the
loop's write set, assume the invariant, run the real body once from that arbitrary state, re-prove the invariant and the
decrease of a lexicographic ranking pair at the next loop head; the code after the loop runs from invariant /\\ not guard.
 * range: every 'set' message is checked against the statement's clause (adaptive: start <= p < stop along the direction;
   tune: inside the window [min(start, stop), max(start, stop)], the final parking move included for non-negative signals).
 * termination: a pair (A, B) with A >= 0, 0 <= B <= Bmax that on every iteration either drops A by >= a > 0 or keeps A and
   drops B by >= b > 0 (a, b constants of the run); lemma:lexicographic-to-linear (z3) turns this into one real-valued
   ranking function R = A (Bmax + b) / a + B >= 0 that drops by >= b per iteration, so there are at most R0 / b iterations.
   The decrease is demanded only when the guard holds again at the next loop head.
The clauses live in contracts/refs/c29_clauses.py and are evaluated by the same text in the native replay
(replay/scans_c29.py: the counter-model's loop-head state is written into the suspended frame of the real carrier).

Finding (patches/C29-adaptive-threshold.diff): on the unpatched tree '#decreases[every iteration ...]' of adaptive_core fails for
backstep=True, threshold >= 1 (constant detector: the same position is commanded forever); confirmed natively.  The range
clauses and all of tune_centroid hold on the unpatched tree.
"""
import ast
import os

from .lib import *
from pyvc.bisim import reference_module
from pyvc.interp import BreakSig, ContinueSig
from pyvc.vals import UNBOUND

PROP = "C29"
MPL = "bluesky.plans"
QA, QAC = f"{MPL}:adaptive_scan", f"{MPL}:adaptive_scan.adaptive_core"
QT, QTC = f"{MPL}:tune_centroid", f"{MPL}:tune_centroid._tune_core"
TRUSTED = [
    "A-REAL: positions, steps and readings are mathematical reals (float literals are their exact values); no NaN / inf readings",
    "assumed contract of bluesky.plan_stubs.mv (contracts/refs/c29.py: one 'set' per (device, value) pair, then one 'wait'; "
    "pseudo-positioner merging not modelled); numpy: abs, clip(x, lo, hi) = minimum(maximum(x, lo), hi), min of a list",
    "driver: the run engine answers every message (None, or a reading for 'read') and never throws into / closes the plan; "
    "'terminates' = the plan generator is exhausted after finitely many messages",
    "shape: one detector plus the motor; each reading may or may not carry the target field (value an arbitrary real per read)",
    "loop cut: the write set of a loop is the set of local names assigned in its body (the bodies contain no attribute / item "
    "stores - checked syntactically); locals not named by the invariant are dead at the loop head (a read of one is reported)",
    "the stage / run wrappers keep no state that changes while they forward the loop's messages (C22 / C23 trace contracts)",
    "termination argument: a real-valued ranking function that is >= 0 whenever the body is entered and drops by at least a "
    "positive constant per iteration bounds the number of iterations (Archimedean property)",
    "tune_centroid: the motor's reported position lies inside the window (e.g. equals the commanded position); the signal field and "
    "the motor's field are different keys of the reading",
]
NOT_DECIDED = ("floating-point rounding (positions within rounding error of the range ends, centroid rounding; with floats and threshold "
               "exactly 1 or a step_factor barely above 1 the iteration bound is astronomically large but finite); NaN / inf readings; numpy scalar "
               "start/stop with num=1 (division gives inf instead of ZeroDivisionError); behaviour under pause/rewind; that the hardware "
               "reaches the commanded position; adaptive_scan for a descending scan steps *forward* by step + new_step where the code says "
               "'go back' (next_pos -= step ignores the direction) - inside the range and terminating, so not a C29 violation, noted only")
HERE = os.path.dirname(os.path.dirname(os.path.abspath(__file__)))
REF = open(os.path.join(HERE, "contracts/refs/c29.py")).read()
CL = {}
exec(compile(open(os.path.join(HERE, "contracts/refs/c29_clauses.py")).read(), "c29_clauses", "exec"), CL)


class L:
    """logic namespace handed to the clauses (symbolic instance)"""
    And = staticmethod(And)
    Or = staticmethod(Or)
    ite = staticmethod(ite)
    half = staticmethod(lambda x: x * 0.5)


# --------------------------------------------------------------------------------------------------------- loop cut
class LoopCut:
    """Invariant cut of the single `while` loop of function `qual` (DESIGN 2.4), as an interpreter loop spec.
    live: names described by the invariant; havoc(I) -> dict live name -> value (fresh symbols; may fork on None / number);
    inv(state) -> bool term.  Hooks: on_enter(state) (guard holds), on_preserve(state0, state1) at the end of the body,
    on_again(state0, state1) when the guard holds again in state1 (decrease of the ranking function)."""

    def __init__(self, I, name, qual, live, havoc, inv, on_enter, on_preserve, on_again, info):
        self.I, self.name, self.qual, self.live = I, name, qual, list(live)
        self.havoc, self.inv, self.on_enter, self.on_preserve, self.on_again, self.info = havoc, inv, on_enter, on_preserve, on_again, info
        self.phase = "before"
        self.pre = None
        m, chain, node = I.P.find_function(qual)
        loops = []

        def walk(n, top):
            for ch in ast.iter_child_nodes(n):
                if isinstance(ch, (ast.FunctionDef, ast.AsyncFunctionDef, ast.Lambda, ast.ClassDef)):
                    continue
                if isinstance(ch, ast.While):
                    loops.append(ch)
                walk(ch, False)
        walk(node, True)
        if len(loops) != 1:
            raise EngineError(f"{qual}: expected exactly one while loop, found {len(loops)} (contract no longer matches the code)")
        st = loops[0]
        self.write = set()
        for n in ast.walk(st):
            if isinstance(n, ast.Name) and isinstance(n.ctx, (ast.Store, ast.Del)):
                self.write.add(n.id)
            elif isinstance(n, (ast.Attribute, ast.Subscript)) and isinstance(n.ctx, (ast.Store, ast.Del)):
                raise EngineError(f"{qual}: the loop body stores into the heap at line {n.lineno}; this cut has no frame condition for that")
            elif isinstance(n, (ast.FunctionDef, ast.AsyncFunctionDef, ast.Lambda, ast.Nonlocal, ast.Global, ast.While)) and n is not st:
                raise EngineError(f"{qual}: unsupported construct {type(n).__name__} in the loop body at line {n.lineno}")
        missing = [k for k in self.live if k not in self.write]
        if missing:
            raise EngineError(f"{qual}: invariant variables {missing} are not assigned in the loop (contract no longer matches the code)")
        self.st = st
        I.loop_specs[(qual, st.lineno)] = self

    def run_while(self, I, st, fr):
        w = I.w
        if self.phase != "before":
            raise EngineError(f"{self.qual}: loop entered twice")
        cur = {k: fr.vars.get(k, UNBOUND) for k in self.live}
        if any(v is UNBOUND for v in cur.values()):
            w.fail(f"{self.name}#loop.establish", self.info("invariant variable unbound at loop entry"))
            raise PathEnd("establish")
        w.check(f"{self.name}#loop.establish", self.inv(cur), self.info("loop entry"))
        s = self.havoc(I)
        for k in self.write:
            fr.vars.pop(k, None)
        fr.vars.update(s)
        w.assume(self.inv(s), "loop invariant assumed at the cut")
        self.pre = s
        self.phase = "loop"
        c = yield from I.ev(st.test, fr)
        if not I.truth(c, f"while@L{st.lineno}"):
            self.phase = "after"
            w.cover(f"{self.name}: loop left from an arbitrary invariant state")
            yield from I.ex_block(st.orelse, fr)
            return
        w.cover(f"{self.name}: body entered from an arbitrary invariant state")
        self.on_enter(s)
        try:
            yield from I.ex_block(st.body, fr)
        except BreakSig:
            self.phase = "after"
            return
        except ContinueSig:
            pass
        post = {k: fr.vars.get(k, UNBOUND) for k in self.live}
        if any(v is UNBOUND for v in post.values()):
            w.fail(f"{self.name}#loop.preserve", self.info("invariant variable unbound at the loop head"))
            raise PathEnd("preserve")
        self.on_preserve(s, post)
        # the ranking function has to decrease only if another iteration follows
        c = yield from I.ev(st.test, fr)
        if I.truth(c, f"while@L{st.lineno} (next head)"):
            self.on_again(s, post)
        w.cover(f"{self.name}: closed at the loop head")
        raise PathEnd("loop cut")


# --------------------------------------------------------------------------------------------------------- harness
def device(name):
    return Opaque(name, {"token": "dev", "attrs": {"parent": None, "name": name, "hints": {"fields": [name]}},
                         "isinstance": {"Triggerable": True}, "isinstance_default": False, "truth": True, "hasattr": {"rewindable": False}})


def clip(x, lo, hi):
    """numpy.clip for scalars: minimum(maximum(x, lo), hi)"""
    t = ite(ops.compare("<", x, lo), lo, x)
    return ite(ops.compare(">", t, hi), hi, t)


def install_stubs(I):
    w = I.w
    w.stubs["uuid.uuid4"] = lambda I_, a, k: Opaque(w.fresh("uuid"), {"token": "uuid", "isinstance_default": False})
    w.stubs["os.environ.get"] = lambda I_, a, k: w.choose([False, "1"], "BLUESKY_PREDECLARE") if a[0] == "BLUESKY_PREDECLARE" else (a[1] if len(a) > 1 else None)
    w.stubs["numpy.abs"] = lambda I_, a, k: ite(ops.compare("<", a[0], 0), ops.unop("-", a[0]), a[0])
    w.stubs["numpy.clip"] = lambda I_, a, k: clip(a[0], a[1], a[2])

    def np_min(I_, a, k):
        items = list(a[0])
        best = items[0]
        for x in items[1:]:
            best = ite(ops.compare("<", x, best), x, best)
        return best
    w.stubs["numpy.min"] = np_min
    ref = reference_module(I.P, "verif_ref_c29", REF)
    mvc = I.global_lookup(ref, "mv_contract")
    I.call_hooks["bluesky.plan_stubs:mv"] = lambda I_, f, a, k: I_.call(mvc, a, k)


def drive(I, g, name, on_set, reading, info, max_msgs=300):
    """the run engine as far as the plan can tell: answers every message, never throws; -> ('return', v) | ('raise', exc)"""
    w = I.w
    tok = ("send", None)
    for _ in range(max_msgs):
        try:
            out = g.resume(tok)
        except PyRaise as pr:
            return ("raise", pr.exc)
        if out[0] != "yield":
            return out
        msg = out[1]
        resp = None
        if not isinstance(msg, MsgVal):
            raise EngineError(f"{name}: plan yielded a non-message {msg!r}")
        if msg.command == "set":
            on_set(msg)
        elif msg.command == "read":
            resp = reading(msg.obj)
        tok = ("send", resp)
    raise EngineError(f"{name}: more than {max_msgs} messages on one path (a loop was not cut)")


def num_or_none(w, name, allow_none):
    if allow_none and w.choose(["None", "real"], name) == "None":
        return None
    return w.real(name)


def model_names(d):
    """names of the symbolic inputs behind a state/parameter dict, for the replay"""
    return {k: (None if v is None else (v.t.sexpr() if isinstance(v, Sym) else v)) for k, v in d.items()}


# --------------------------------------------------------------------------------------------------------- adaptive_scan
def adaptive_params(w):
    return {k: w.real(k) for k in ("start", "stop", "min_step", "max_step", "target_delta", "threshold")}


def run_adaptive(I, decreases, prefix=QAC):
    w = I.w
    install_stubs(I)
    det, mot = device("det"), device("mot")
    p = adaptive_params(w)
    backstep = w.bool("backstep")
    readings = []
    sets = []
    script = {"replay": "scans_c29.adaptive", "params": model_names(p), "readings": readings, "sets": sets}

    def info(why):
        d = dict(script)
        d["why"] = why
        d["pre"] = model_names(lc.pre) if lc.pre else None
        d["phase"] = lc.phase
        return d

    def havoc(I_):
        past = num_or_none(w, "past_I", True)
        return {"next_pos": w.real("next_pos"), "step": w.real("step"), "past_I": past,
                "cur_I": None if past is None else w.real("cur_I")}

    def on_enter(s):
        w.check(f"{prefix}#decreases[ranking pair bounded: A >= 0, 0 <= B <= 2 max_step, decrements positive]", CL["a_rank_bounded"](L, p, s), info("body entered"))

    def on_preserve(s0, s1):
        w.check(f"{prefix}#loop.preserve", CL["a_inv"](L, p, s1), info("next loop head"))

    def on_again(s0, s1):
        w.check(f"{prefix}#decreases[every iteration: A drops by >= m, or A stays and B drops by >= m (1 - threshold)]",
                CL[decreases](L, p, s0, s1), info("next loop head, guard true again"))

    lc = LoopCut(I, prefix, QAC, ["next_pos", "step", "past_I", "cur_I"], havoc, lambda s: CL["a_inv"](L, p, s), on_enter, on_preserve, on_again, info)

    def on_set(msg):
        pos = msg.args[0]
        sets.append(pos.t.sexpr() if isinstance(pos, Sym) else pos)
        w.check(f"{prefix}#ensures[every commanded position lies between start and stop, never at or beyond stop]",
                And(msg.obj is mot, CL["a_range"](L, p, pos)), info("set message"))

    def reading(obj):
        has = w.choose([True, False], f"reading of {obj.name} carries the target field")
        v = w.real("reading", fresh=True)
        readings.append([obj.name, has, v.t.sexpr()])
        return {("I" if has else obj.name + "_other"): {"value": v, "timestamp": 0}}

    res = catch(I, I.get_function(QA), [det], "I", mot, p["start"], p["stop"], p["min_step"], p["max_step"], p["target_delta"], backstep, p["threshold"])
    if res[0] == "ok":
        res = drive(I, res[1], prefix, on_set, reading, info)
    name = f"{QA if prefix == QAC else prefix}#terminates[returns, or rejects the parameters with ValueError before the first message]"
    if res[0] == "raise":
        w.check(name, And(exc_is(I, res[1], "ValueError"), lc.phase == "before", not sets), info(f"raised {res[1]!r} {res[1].attrs.get('args') if isinstance(res[1], Obj) else ''}"))
        w.cover(f"{prefix}: parameters rejected")
    else:
        w.check(name, lc.phase == "after", info("returned"))
        w.cover(f"{prefix}: plan returned after the loop")


@task("adaptive_scan", PROP, functions=[QA, QAC],
      expect=[f"{QAC}#loop.establish", f"{QAC}#loop.preserve",
              f"{QAC}#ensures[every commanded position lies between start and stop, never at or beyond stop]",
              f"{QAC}#decreases[ranking pair bounded: A >= 0, 0 <= B <= 2 max_step, decrements positive]",
              f"{QAC}#decreases[every iteration: A drops by >= m, or A stays and B drops by >= m (1 - threshold)]",
              f"{QA}#terminates[returns, or rejects the parameters with ValueError before the first message]"],
      covers=[f"{QAC}: body entered from an arbitrary invariant state", f"{QAC}: closed at the loop head",
              f"{QAC}: loop left from an arbitrary invariant state", f"{QAC}: plan returned after the loop", f"{QAC}: parameters rejected"])
def adaptive(I):
    run_adaptive(I, "a_decreases")


# --------------------------------------------------------------------------------------------------------- tune_centroid
T_RANGE = "every visited position lies inside the window [min(start, stop), max(start, stop)]"
T_PARK = "non-negative signals: the final parking move lies inside the window"
T_DEC = "every iteration: a new pass shrinks |step| by >= min_step (1 - 1/step_factor), or the pass advances by >= min_step"
T_BND = "ranking pair bounded: |step| >= min_step > 0, 0 <= remaining distance <= window width"
T_TERM = "returns; or ValueError before the first message; or ZeroDivisionError iff num == 1, before any move"


def run_tune(I, nonneg, decreases="t_decreases", prefix=QTC, check_park=None):
    w = I.w
    install_stubs(I)
    check_park = nonneg if check_park is None else check_park
    det, mot = device("det"), device("mot")
    q = {k: w.real(k) for k in ("start0", "stop0", "min_step", "step_factor")}
    num = w.int("num")
    q["num1"] = num - 1
    snake = w.bool("snake")
    lo, hi = CL["t_low"](L, q), CL["t_high"](L, q)
    readings, sets = [], []
    script = {"replay": "scans_c29.tune", "params": model_names(q), "readings": readings, "sets": sets, "nonneg": nonneg}

    def info(why):
        d = dict(script)
        d["why"] = why
        d["pre"] = model_names(lc.pre) if lc.pre else None
        d["phase"] = lc.phase
        return d

    def havoc(I_):
        s = {k: w.real(k) for k in ("start", "stop", "next_pos", "step", "sum_I", "sum_xI")}
        s["peak_position"] = num_or_none(w, "peak_position", True)
        return s

    def on_enter(s):
        w.check(f"{prefix}#decreases[{T_BND}]", CL["t_rank_bounded"](L, q, s), info("body entered"))

    def on_preserve(s0, s1):
        w.check(f"{prefix}#loop.preserve", CL["t_inv"](L, q, s1, nonneg), info("next loop head"))

    def on_again(s0, s1):
        w.check(f"{prefix}#decreases[{T_DEC}]", CL[decreases](L, q, s0, s1), info("next loop head, guard true again"))

    lc = LoopCut(I, prefix, QTC, ["start", "stop", "next_pos", "step", "sum_I", "sum_xI", "peak_position"], havoc,
                 lambda s: CL["t_inv"](L, q, s, nonneg), on_enter, on_preserve, on_again, info)

    def on_set(msg):
        pos = msg.args[0]
        sets.append([lc.phase, pos.t.sexpr() if isinstance(pos, Sym) else pos])
        if lc.phase != "after":
            w.check(f"{prefix}#ensures[{T_RANGE}]", And(msg.obj is mot, CL["t_in_window"](L, q, pos)), info("set message in the loop"))
        elif check_park:
            w.check(f"{prefix}#ensures[{T_PARK}]", And(msg.obj is mot, CL["t_in_window"](L, q, pos)), info("parking move"))
            w.cover(f"{prefix}: parked")

    def reading(obj):
        v = w.real("reading", fresh=True)
        readings.append([obj.name, v.t.sexpr()])
        if nonneg:
            # the statement's hypothesis (signal >= 0) and the stated assumption on the motor's read-back
            w.assume(v >= 0 if obj is det else And(lo <= v, v <= hi), "tune_centroid: signal >= 0, motor read-back inside the window")
        return {("I" if obj is det else "mot"): {"value": v, "timestamp": 0}}

    res = catch(I, I.get_function(QT), [det], "I", mot, q["start0"], q["stop0"], q["min_step"], num, q["step_factor"], snake)
    if res[0] == "ok":
        res = drive(I, res[1], prefix, on_set, reading, info)
    name = f"{QT if prefix == QTC else prefix}#terminates[{T_TERM}]"
    if res[0] == "raise":
        e = res[1]
        why = info(f"raised {e!r} {e.attrs.get('args') if isinstance(e, Obj) else ''}")
        if exc_is(I, e, "ZeroDivisionError"):
            w.check(name, And(lc.phase == "before", not sets, Eq(num, 1)), why)
            w.cover(f"{prefix}: num == 1 rejected")
        else:
            w.check(name, And(exc_is(I, e, "ValueError"), lc.phase == "before", not sets and not readings), why)
            w.cover(f"{prefix}: parameters rejected")
    else:
        w.check(name, lc.phase in ("loop", "after"), info("returned"))
        w.cover(f"{prefix}: plan returned")


def _mk_tune(nonneg):
    label = "non-negative signals" if nonneg else "arbitrary signals"

    @task(f"tune_centroid[{label}]", PROP, functions=[QT, QTC],
          expect=[f"{QTC}#loop.establish", f"{QTC}#loop.preserve", f"{QTC}#ensures[{T_RANGE}]", f"{QTC}#decreases[{T_BND}]",
                  f"{QTC}#decreases[{T_DEC}]", f"{QT}#terminates[{T_TERM}]"] + ([f"{QTC}#ensures[{T_PARK}]"] if nonneg else []),
          covers=[f"{QTC}: body entered from an arbitrary invariant state", f"{QTC}: closed at the loop head",
                  f"{QTC}: loop left from an arbitrary invariant state", f"{QTC}: plan returned", f"{QTC}: parameters rejected",
                  f"{QTC}: num == 1 rejected"] + ([f"{QTC}: parked"] if nonneg else []))
    def t(I):
        run_tune(I, nonneg)


_mk_tune(False)
_mk_tune(True)


# --------------------------------------------------------------------------------------------------------- lemma, twins
LEMMA = "lemma:lexicographic-to-linear[R = A (Bmax + b) / a + B is >= 0 and drops by >= b per iteration]"


@task("lemma.ranking", PROP, expect=[LEMMA])
def lemma(I):
    """the ranking pairs of both loops have this shape (adaptive: a = m, b = m (1 - threshold), Bmax = 2 max_step;
    tune: a = min_step (1 - 1/step_factor), b = min_step, Bmax = window width)"""
    w = I.w
    a, b, Bmax, K, A0, B0, A1, B1 = (w.real(n) for n in ("a", "b", "Bmax", "K", "A0", "B0", "A1", "B1"))
    w.add(And(a > 0, b > 0, Bmax >= 0, K * a == Bmax + b))
    w.add(And(A0 >= 0, B0 >= 0, B0 <= Bmax))                                            # '#decreases[ranking pair bounded ...]'
    w.add(Or(And(A1 <= A0 - a, B1 >= 0, B1 <= Bmax), And(A1 <= A0, B1 <= B0 - b)))      # '#decreases[every iteration ...]'
    R0, R1 = K * A0 + B0, K * A1 + B1
    w.check(LEMMA, And(R0 >= 0, R1 <= R0 - b))


@task("twin.adaptive", PROP, twin="twin:adaptive#decreases[every iteration: A drops by >= m, or A stays and B drops by >= m (1 - threshold)]")
def twin_adaptive(I):
    """'every iteration advances by at least m' must be refuted (a back-step does not advance)"""
    run_adaptive(I, "a_decreases_twin", prefix="twin:adaptive")


@task("twin.tune.pass", PROP, twin=f"twin:tune#decreases[{T_DEC}]")
def twin_tune(I):
    """'every iteration stays in the current pass' must be refuted"""
    run_tune(I, False, decreases="t_decreases_twin", prefix="twin:tune")


@task("twin.tune.park", PROP, twin=f"twin:park#ensures[{T_PARK}]")
def twin_park(I):
    """without the hypothesis 'non-negative signals' the parking position can leave the window: must be refuted"""
    run_tune(I, False, prefix="twin:park", check_park=True)
