"""Factory for the T2 (RunEngine lifecycle) tasks shared by C02, C04, C06 - C13, C31: one task per *scenario* = (plan alphabet,
environment menu, bounds), each exploring the real RunEngine code to closure under the abstract plan / environment of
contracts/run_lib.py + run_scn.py, with the ghost monitors of contracts/run_mon.py attached."""
import os

from .lib import *
from .run_lib import *
from .run_scn import *
from .run_mon import *

# functions of the repository that every T2 task executes symbolically (fingerprints go into the evidence)
T2_FUNCTIONS = [f"{RE}.{n}" for n in (
    "__init__", "__call__", "_resume_task", "resume", "_run", "_rewind", "_clear_call_cache", "request_pause", "_request_pause_coro",
    "request_suspend", "_start_suspender", "_resume", "abort", "_abort_coro", "stop", "_stop_coro", "halt", "_halt_coro", "_create_result",
    "_checkpoint", "_clear_checkpoint", "_reset_checkpoint_state_meth", "_rewindable", "_pause", "_null", "_wait_for", "_sleep",
    "_open_run", "_close_run", "_stop_movable_objects", "register_command")]


def scenario_name(msgs, env, opts):
    extra = ",".join(f"{k}={v}" for k, v in sorted(opts.items()))
    return f"{msgs}|{env}" + (f"|{extra}" if extra else "")


def t2_tasks(prop, base, scenarios, checks, expect=(), covers=(), functions=(), timeout_s=3000, path_cap=2000000, twin=None):
    """register one task per scenario.  `scenarios`: list of (msgs, env, opts) with msgs / env comma-separated names and opts
    the Scenario keyword bounds; `checks`: list of functions (sc, tr) installing monitors."""
    for msgs, env, opts in scenarios:
        def mk(msgs=msgs, env=env, opts=dict(opts)):
            nm = f"{base}[{scenario_name(msgs, env, opts)}]"

            @task(nm, prop, functions=list(T2_FUNCTIONS) + list(functions), expect=list(expect), covers=list(covers), timeout_s=timeout_s,
                  path_cap=path_cap, twin=twin)
            def t(I):
                sc = Scenario(I, [m for m in msgs.split(",") if m], env=[e for e in env.split(",") if e], **opts)
                sc.info = {"scenario": {"msgs": msgs.split(","), "env": env.split(","), "opts": {k: str(v) for k, v in opts.items()}}}
                tr = Tracker(sc)
                for c in checks:
                    c(sc, tr)
                sc.run()
            return t
        mk()
