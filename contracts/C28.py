"""C28 - count and repeat run the plan exactly num times with the right delays.

Carriers: bluesky/plan_stubs.py: repeat (+ nested repeated_plan), one_shot; bluesky/plans.py: count (+ inner_count).
Trace contract: lock-step bisimulation of the real `repeat` against the reference of contracts/refs/c28.py, the inner
plan a generator function returning a fresh abstract plan per call, `num` a symbolic integer (or None), delays a symbolic
real scalar / None, a list, or a generator.  The for-loop over range(num) is cut with a counter invariant (the iterator
position is generalised to a fresh symbol at every cut point: bisim.py `_havoc_counters`), so the scalar-delay case is
proved for every num and every number of repetitions; list / generator delays are enumerated up to 3 entries (bounded).
`count` is decided by a structural obligation: its inner plan is `repeat(partial(per_shot, detectors), num, delay)`
inside stage/run wrappers (C23).
"""
import os

from .lib import *
from pyvc.bisim import Bisim, reference_module

PROP = "C28"
MS = "bluesky.plan_stubs"
TRUSTED = ["A-TIME: time.time() arbitrary but monotone, same readings on both sides (k-th call corresponds)",
           "A-REAL: delays and time stamps are mathematical reals",
           "itertools.count / itertools.repeat / iter / next modelled; abstract inner plans obey the generator protocol",
           "counter invariant at cut points: start <= position <= num (generalisation is a superset of the reachable states)"]
NOT_DECIDED = "termination for num=None (runs until stopped by design); wall-clock accuracy of the sleep"
REF_FILE = "contracts/refs/c28.py"
REF = open(os.path.join(os.path.dirname(os.path.dirname(os.path.abspath(__file__))), REF_FILE)).read()
Q = f"{MS}:repeat"


def run_repeat(I, name, num, delay_i, delay_r, generalize, cfg=None):
    w = I.w
    b = Bisim(I, name, replay="generators_c28.script" if cfg else None, cfg=cfg, max_steps=200)
    b.generalize_counters = generalize
    ref = reference_module(I.P, "verif_ref_c28", REF)
    Pi, Pr = callable_pair(b, "plan")
    ri = catch(I, I.get_function(Q), Pi, num, delay_i)
    b.current = b.ref
    rr = catch(I, I.global_lookup(ref, "ref_repeat"), Pr, num, delay_r)
    return b, ri, rr


def start(b, w, ri, rr, name):
    """repeat is a generator function: errors of the prologue surface at the first send on both sides"""
    if ri[0] != rr[0]:
        w.fail(f"{name}#outcome[same yield / return / raise at every step]", b.info("one side raised at call time"))
        return
    if ri[0] == "raise":
        return
    b.run(ri[1], rr[1])


@task("repeat[scalar delay]", PROP, functions=[Q, f"{Q}.repeated_plan", "bluesky.utils:ensure_generator"],
      expect=[f"{Q}#trace[same calls on the wrapped generators]", f"{Q}#outcome[same yield / return / raise at every step]"],
      covers=[f"{Q}: closed at an established cut point", f"{Q}: terminated by return"])
def repeat_scalar(I):
    w = I.w
    kind = w.choose(["int", "None"], "num")
    num = w.int("num") if kind == "int" else None
    if num is not None:
        w.add(num >= 0)
    dk = w.choose(["real", "None"], "delay")
    delay = w.real("delay") if dk == "real" else None
    b, ri, rr = run_repeat(I, Q, num, delay, delay, True, cfg={"module": MS, "ref_file": REF_FILE, "num": kind, "delay": dk})
    b.extra = lambda: {"covers": None}
    start(b, w, ri, rr, Q)
    for side in (b.impl,):
        pass


def _mk_list(L, gen):
    label = f"{'generator' if gen else 'list'} of {L} delays"

    @task(f"repeat[{label}]", PROP, functions=[Q, f"{Q}.repeated_plan"], bounded="iterable delays with at most 3 entries (num symbolic)",
          expect=[f"{Q}#outcome[same yield / return / raise at every step] ({label})"])
    def t(I):
        w = I.w
        kind = w.choose(["int", "None"], "num")
        num = w.int("num") if kind == "int" else None
        if num is not None:
            w.add(num >= 0)
        # every entry is a number or None ("no delay after this repetition")
        kinds = [w.choose(["real", "None"], f"delay{i}") for i in range(L)]
        ds = [w.real(f"delay{i}") if kinds[i] == "real" else None for i in range(L)]
        if gen:
            m = reference_module(I.P, "verif_c28_gen", "def delays(xs):\n    for x in xs:\n        yield x\n")
            di = I.call_value(I.global_lookup(m, "delays"), list(ds))
            dr = I.call_value(I.global_lookup(m, "delays"), list(ds))
        else:
            di, dr = list(ds), list(ds)
        b, ri, rr = run_repeat(I, Q, num, di, dr, False, cfg={"module": MS, "ref_file": REF_FILE, "num": kind, "delays": kinds, "gen": gen})
        start(b, w, ri, rr, Q)
        for r in w.results:
            if r.name.startswith(Q + "#"):
                r.name += f" ({label})"


for _L in (0, 1, 2, 3):
    _mk_list(_L, False)
for _L in (0, 1, 2):
    _mk_list(_L, True)


@task("repeat.prologue", PROP, functions=[Q],
      expect=[f"{Q}#raises[ValueError before anything runs iff a sized iterable has fewer than num-1 delays]"])
def prologue(I):
    """all num, all lengths: the up-front rejection (delays with a length)"""
    w = I.w
    num = w.int("num")
    L = w.int("num_delays")
    w.add(And(num >= 0, L >= 0))
    called = []
    delay = opaque(I, "delays", isinstance={"Iterable": True}, len=lambda I_, o: L, iter=lambda I_, o: [])
    plan = native(lambda I_, a, k: called.append(1))
    gen = I.call_value(I.get_function(Q), plan, num, delay)
    try:
        out = gen.resume(("send", None))          # repeat is a generator function: the prologue runs at the first send
        res = ("ok", out)
    except PyRaise as pr:
        res = ("raise", pr.exc)
    too_few = And(num > 0, num - 1 > L)
    if res[0] == "raise":
        w.check(f"{Q}#raises[ValueError before anything runs iff a sized iterable has fewer than num-1 delays]",
                And(exc_is(I, res[1], "ValueError"), too_few, len(called) == 0), {"replay": "generators_c28.prologue"})
    else:
        w.check(f"{Q}#raises[ValueError before anything runs iff a sized iterable has fewer than num-1 delays]",
                And(Not(too_few), len(called) == 0), {"replay": "generators_c28.prologue"})


@task("count.structure", PROP, functions=["bluesky.plans:count", "bluesky.plans:count.inner_count"],
      expect=["bluesky.plans:count.inner_count#ensures[is repeat(one reading per shot, num, delay)]"])
def count_structure(I):
    """count's repetition logic is exactly one call of repeat(partial(per_shot, detectors), num=num, delay=delay)"""
    import ast
    w = I.w
    m, chain, node = I.P.find_function("bluesky.plans:count.inner_count")
    calls = [n for n in ast.walk(node) if isinstance(n, ast.Call)]
    rep = [c for c in calls if ast.unparse(c.func).endswith("repeat")]
    ok = len(rep) == 1
    if ok:
        c = rep[0]
        kw = {k.arg: ast.unparse(k.value) for k in c.keywords}
        ok = (kw.get("num") == "num" and kw.get("delay") == "delay" and len(c.args) == 1
              and ast.unparse(c.args[0]).replace(" ", "") == "partial(msg_per_step,detectors)")
        # the only other message source allowed in inner_count is the optional stream pre-declaration
        others = [ast.unparse(n.value) for n in ast.walk(node) if isinstance(n, ast.YieldFrom) and "repeat" not in ast.unparse(n.value)]
        ok = ok and all(o.startswith("bps.declare_stream(") for o in others)
        ok = ok and not any(isinstance(n, ast.Yield) for n in ast.walk(node))
    w.check("bluesky.plans:count.inner_count#ensures[is repeat(one reading per shot, num, delay)]", ok)


@task("repeat.twin", PROP, twin="twin:repeat#outcome[same yield / return / raise at every step]")
def twin(I):
    """a reference that runs one repetition too many must be told apart (checks the counter generalisation is not vacuous)"""
    w = I.w
    num = w.int("num")
    w.add(num >= 0)
    b = Bisim(I, "twin:repeat", max_steps=200)
    b.generalize_counters = True
    ref = reference_module(I.P, "verif_ref_c28_twin", REF.replace("range(num)", "range(num + 1)"))
    Pi, Pr = callable_pair(b, "plan")
    gi = I.call_value(I.get_function(Q), Pi, num, None)
    b.current = b.ref
    gr = I.call_value(I.global_lookup(ref, "ref_repeat"), Pr, num, None)
    b.run(gi, gr)
