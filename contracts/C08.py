"""C08 - RunEngineInterrupted means paused unless the plan was terminated.

Carriers: as C07 (the real __call__ / resume / _resume_task tails, _request_pause_coro, _run prologue and epilogue), executed
symbolically under the asyncio model with an arbitrary plan and an environment that requests pauses (immediate and deferred,
also from plan messages) and terminations at every step of the loop.

Clauses, from the statement:
  E1  RE(...) / resume() raises RunEngineInterrupted  =>  the engine is 'paused' and resumable, or the interruption was an abort / stop /
      halt or a pause / suspension in a non-resumable section and the engine is 'idle' with every run closed
  E2  RE(...) / resume() returns normally  =>  the plan ran to completion and the engine is idle"""
import os

from .t2 import *

PROP = "C08"
TRUSTED = TRUSTED_T2 + [
    "A-ENV: at most one request of another thread is in flight at a time; no new pause / suspension is requested while two or more plans are stacked",
    "a termination request counts as 'the interruption was an abort, stop or halt' as soon as it was made, also when the state machine refused it "
    "(its partial effects, e.g. the interrupted flag, are then licensed)",
]
NOT_DECIDED = "real preemptive threads racing the loop thread; SIGINT handling"
THOROUGH = os.environ.get("VERIF_TIER") == "thorough"

SCENARIOS = [
    ("custom,checkpoint", "pause", {}),
    ("custom,checkpoint", "pause_defer", {}),
    ("custom,checkpoint", "pause,pause_defer", {}),
    ("custom,checkpoint,pause", "", {}),
    ("custom,checkpoint,pause_defer", "", {}),
    # (pairs of request kinds: the statement's scope is two requests; the thorough tier goes one beyond, single kinds are unbounded)
    ("custom,checkpoint", "pause,abort", {"max_requests": 3 if THOROUGH else 2}),
    ("custom,checkpoint", "pause,stop", {"max_requests": 3 if THOROUGH else 2}),
    ("custom,checkpoint", "pause,halt", {"max_requests": 3 if THOROUGH else 2}),
    ("custom_async,checkpoint", "pause", {}),
    ("custom,clear_checkpoint,checkpoint", "pause", {}),
    ("custom,clear_checkpoint,checkpoint", "pause_defer", {}),
    ("open_run,close_run,checkpoint", "pause", {}),
    ("open_run,custom,clear_checkpoint", "pause", {} if THOROUGH else {"max_requests": 2}),
    ("custom,checkpoint", "suspend", {}),
    ("custom,clear_checkpoint", "suspend", {}),
    ("clear_checkpoint,stage,rewindable_off,checkpoint", "pause", {} if THOROUGH else {"max_requests": 2}),
    ("set_async,custom,checkpoint", "pause,abort", {"max_requests": 2}),
    # two requests in flight at once (a pause right behind a suspension request, and the reverse)
    ("custom,checkpoint", "pause,suspend", {"max_inflight": 2, "max_requests": 2}),
    # what one call leaves behind must not leak into the next call on the same engine
    ("custom,clear_checkpoint", "", {"second_call": ("pause", "custom")}),
    ("custom,checkpoint", "pause", {"second_call": ("pause", "custom"), "max_requests": 1}),
]
if THOROUGH:
    SCENARIOS += [
        ("custom,checkpoint", "pause,suspend", {"max_requests": 3}),
        ("custom,checkpoint", "pause_defer,abort", {"max_requests": 3}),
        ("custom,checkpoint", "pause_defer,stop", {"max_requests": 3}),
        ("open_run,close_run,custom,checkpoint", "pause,abort", {"max_requests": 3}),
        ("custom_async,checkpoint", "pause,halt", {"max_requests": 3}),
    ]

E1 = f"{REQ}.__call__#raises[RunEngineInterrupted: paused and resumable, or terminated (abort / stop / halt / failed pause): idle with every run closed]"
E2 = f"{REQ}.__call__#ensures[returns normally only when the plan ran to completion and the engine is idle]"
t2_tasks(PROP, "interrupted", SCENARIOS, [c08_checks])


def _twin_check(sc, tr):
    rei = sc.I.P.class_info("bluesky.utils", "RunEngineInterrupted")

    def check(kind, *a):
        if kind == "returned" and a[0] in ("__call__", "resume") and a[1][0] == "raise" and isinstance(a[1][1], Obj) and a[1][1].cls.issubclass(rei):
            sc.w.check("twin:RunEngineInterrupted always leaves the engine paused", sc.eng.state == "paused")
    tr.checks.append(check)


t2_tasks(PROP, "twin", [("custom,checkpoint", "pause,abort", {"max_requests": 2})], [_twin_check], twin="twin:RunEngineInterrupted always leaves the engine paused")
