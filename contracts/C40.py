"""C40 - interruption records are complete and uniquely numbered.

Carriers: bluesky/bundlers.py: RunBundler.open_run, record_interruption, rewind, close_run, monitor, _describe_collect (+ _prepare_stream,
_ensure_cached); bluesky/run_engine.py: request_pause / _request_pause_coro, _pause, _checkpoint, resume, _rewind, request_suspend,
_start_suspender, _run, _open_run, _close_run (and the rest of the lifecycle code the T2 harness executes).

Clauses, from the statement:
  B1  (bundler) recording enabled and run open: record_interruption emits exactly one event in the 'interruptions' stream carrying the
      stream's next seq_num - for an arbitrary number of earlier records, with or without a checkpoint since the stream was made, with or
      without a bundle open, across a rewind (own number: a record is never renumbered), and it does not raise; with recording disabled nothing
      is emitted and open_run creates no 'interruptions' descriptor; the RunStop counts the records
  B2  (bundler, frame) the 'interruptions' stream stays registered as never replayed while other never-replayed streams are registered
      (monitor, classic flyers' describe_collect executed; the remaining writers of the registry checked structurally: it is only ever grown)
  E1  (engine, over arbitrary plans and schedules - replay/c40_clause.py) every pause (the engine enters 'pausing'), resume (it leaves 'paused'
      for 'running') and suspension (a '_start_suspender' message is executed) that happens while a run is open is recorded in that run - in
      every open run, with the suspension's justification - by the time the engine goes on, and
  E2  a run holds no other record: none twice, none for a pause that was only asked for (deferred), none for a suspension that was only
      requested, none in a run that is not open; at close_run (where the RunStop counts the stream) and when the blocking call returns
      the records of a run are exactly the interruptions that happened while it was open
  E3  a run records interruptions iff the engine's record_interruptions is set when it is opened
"""
import itertools
import os

from .lib import *
from .bundler_lib import *

PROP = "C40"
Q = f"{MB}:RunBundler"
RE = "bluesky.run_engine:RunEngine"
NOT_DECIDED = ("Pausable devices (their pause() / resume() hooks are not modelled); SIGINT handling; collect paths other than a classic flyer's "
               "_describe_collect are covered for B2 by the structural frame obligation only; wall-clock timestamps of the records")


@task("open_run", PROP, functions=[f"{Q}.open_run", f"{Q}.__init__"],
      expect=[f"{Q}.open_run#ensures[interruptions descriptor iff recording enabled; start emitted first]"])
def open_run(I):
    w = I.w
    env = Env(I)
    rec = w.choose([True, False], "record_interruptions")
    b, uid = opened_bundler(I, env, record_interruptions=rec)
    names = [n for n, d in env.emitted]
    descs = [d for n, d in env.emitted if n == "descriptor"]
    if rec:
        ok = names == ["start", "descriptor"] and descs[0]["name"] == "interruptions" and descs[0]["run_start"] == uid
    else:
        ok = names == ["start"]
    w.check(f"{Q}.open_run#ensures[interruptions descriptor iff recording enabled; start emitted first]",
            ok and env.emitted[0][1]["uid"] == uid and b.run_is_open is True, {"replay": "bundler.rewind"})


REC_NEXT = f"{Q}.record_interruption#ensures[exactly one interruptions event with the stream's next number when recording]"
REC_OFF = f"{Q}.record_interruption#ensures[nothing emitted when recording is disabled]"
REC_STOP = f"{Q}.close_run#ensures[RunStop counts the interruption records]"
FRAME = f"{Q}#frame[the 'interruptions' stream stays registered as never replayed while other never-replayed streams (monitors, flyers) are added]"


def _never_replayed_op(I, w, b, op):
    """run the real method that registers another never-replayed stream on the opened bundler"""
    w.stubs[(MB, "check_supports")] = native(lambda I_, a, k: a[0])
    w.stubs[(MB, "maybe_await")] = native(lambda I_, a, k: Ready(a[0]))
    w.stubs[(MB, "maybe_update_hints")] = native(lambda I_, a, k: None)
    w.stubs["asyncio.gather"] = lambda I_, a, k: Ready([run_coro(I_, c) if isinstance(c, GenObj) else c for c in a])
    w.stubs["itertools.combinations"] = lambda I_, a, k: list(itertools.combinations(list(a[0]), a[1]))      # (concrete list of pairs)
    if op == "monitor":
        sig = Opaque("sig", {"token": "dev", "attrs": {"name": "sig", "hints": {}}, "truth": True,
                             "isinstance": {"Subscribable": True, "Readable": True, "Configurable": False}, "isinstance_default": False, "hasattr": {"hints": False},
                             "methods": {"subscribe": lambda I_, o, a, k: None, "clear_sub": lambda I_, o, a, k: None,
                                         "describe": lambda I_, o, a, k: {"sig": {"dtype": "number", "shape": [], "source": "s"}}}})
        r = call_async(I, I.getattr(b, "monitor"), MsgVal("monitor", sig, (), {"name": "mon"}, None))
    elif op == "describe_collect":
        # a classic flyer (describe_collect names its streams itself): its streams are described at the first collect
        fly = Opaque("fly", {"token": "dev", "attrs": {"name": "fly", "hints": {}}, "truth": True, "isinstance_default": False,
                             "isinstance": {"Collectable": True, "Flyable": True, "Configurable": False}, "hasattr": {"hints": False},
                             "methods": {"describe_collect": lambda I_, o, a, k: {"flystream": {"fx": {"dtype": "number", "shape": [], "source": "fly"}}},
                                         "read_configuration": lambda I_, o, a, k: {}, "describe_configuration": lambda I_, o, a, k: {}}})
        r = call_async(I, I.getattr(b, "_describe_collect"), fly)
    else:
        return
    if r[0] != "ok":
        raise EngineError(f"{op} failed in harness: {r[1]!r} {getattr(r[1], 'attrs', None)}")


@task("record_interruption", PROP, functions=[f"{Q}.record_interruption", f"{Q}.rewind", f"{Q}.close_run", f"{Q}.monitor", f"{Q}._describe_collect",
                                              f"{Q}._prepare_stream", f"{Q}._ensure_cached"],
      expect=[REC_NEXT, REC_OFF, REC_STOP, FRAME])
def record_interruption(I):
    w = I.w
    env = Env(I)
    rec = w.choose([True, False], "record_interruptions")
    b, uid = opened_bundler(I, env, record_interruptions=rec)
    if not rec:
        env.emitted.clear()
        call_method(I, b, "record_interruption", "pause")
        w.check(REC_OFF, len(env.emitted) == 0 and "interruptions" not in b._sequence_counters, {"replay": "bundler.rewind"})
        return
    desc = [d for n, d in env.emitted if n == "descriptor"][0]
    # what happened in the run before: nothing / a monitor was started / a classic flyer was described (both add a never-replayed stream)
    op = w.choose(["nothing", "monitor", "describe_collect"], "before")
    _never_replayed_op(I, w, b, op)
    info = {"replay": "bundler.interruptions", "before": op}
    w.check(FRAME, "interruptions" in b._unreplayed_streams, info)
    # arbitrary state: n - 1 records so far, some checkpoint in the past (or none since the stream was made)
    n = w.int("next_interruptions")
    c = w.int("snap_interruptions")
    w.add(And(n >= 1, c >= 1, c <= n))
    b._sequence_counters["interruptions"] = n
    has_snap = w.choose([True, False], "snapshot holds the stream")
    info["checkpoint"] = has_snap
    if has_snap:
        b._sequence_counters_copy["interruptions"] = c
    else:
        b._sequence_counters_copy.pop("interruptions", None)
    # the interruption may land between a 'create' and its 'save' (the rewind cancels the open bundle)
    info["bundling"] = b.attrs["bundling"] = w.choose([False, True], "bundle open")
    env.emitted.clear()
    r1 = catch(I, I.getattr(b, "record_interruption"), "pause")
    call_method(I, b, "rewind")                           # resume: the record must not be renumbered
    r2 = catch(I, I.getattr(b, "record_interruption"), "resume")
    evs = events(env)
    ok = r1[0] == r2[0] == "ok" and len(evs) == 2 and len(env.emitted) == 2 and all(e["descriptor"] == desc["uid"] for e in evs)
    w.check(REC_NEXT, And(ok, *([Eq(evs[0]["seq_num"], n), Eq(evs[1]["seq_num"], n + 1), evs[0]["data"] == {"interruption": "pause"},
                                 evs[1]["data"] == {"interruption": "resume"}] if ok else [False])), info)
    env.emitted.clear()
    r = call_async(I, I.getattr(b, "close_run"), MsgVal("close_run", None, (), {}, None))
    stops = [d for nm, d in env.emitted if nm == "stop"]
    cnt = stops[0]["num_events"].get("interruptions") if stops else None
    w.check(REC_STOP, And(r[0] == "ok" and len(stops) == 1 and cnt is not None, Eq(cnt, n + 1) if cnt is not None else False), info)


FRAME_ALL = f"{Q}#frame[structural: the registry of never-replayed streams is created in __init__ and afterwards only grown (add) or read]"


@task("never_replayed.frame", PROP, functions=[Q], expect=[FRAME_ALL])
def never_replayed_frame(I):
    """B2 for the writers the task above does not execute (collect's tails ...): every use of `_unreplayed_streams` in RunBundler is the
    initialisation in __init__, a call of .add, or a read (membership test, iteration, set algebra on the right-hand side)"""
    import ast
    m, chain, node = I.P.find_function(Q)
    parents = {}
    for n in ast.walk(node):
        for ch in ast.iter_child_nodes(n):
            parents[ch] = n

    def func_of(n):
        while n in parents:
            n = parents[n]
            if isinstance(n, (ast.FunctionDef, ast.AsyncFunctionDef)):
                return n.name
        return None
    bad, uses = [], 0
    for n in ast.walk(node):
        if isinstance(n, ast.Attribute) and n.attr == "_unreplayed_streams":
            uses += 1
            p = parents.get(n)
            if isinstance(n.ctx, (ast.Store, ast.Del)):
                ok = func_of(n) == "__init__" and isinstance(p, (ast.Assign, ast.AnnAssign)) and ast.unparse(p.value) == "set()"
            elif isinstance(p, ast.Attribute):            # a method of the set: only add
                ok = p.attr == "add" and isinstance(parents.get(p), ast.Call) and parents[p].func is p
            elif isinstance(p, ast.AugAssign):
                ok = False                                 # (`|=` would do, but `-=` / `&=` shrink it: none of them is used)
            else:                                         # a read: comparison operand, iteration, operand of a set expression, argument
                ok = isinstance(p, (ast.Compare, ast.comprehension, ast.BinOp, ast.For, ast.Call))
                if isinstance(p, ast.Call):
                    ok = isinstance(p.func, ast.Name) and p.func.id in ("set", "frozenset", "sorted", "list", "len", "tuple")
            if not ok:
                bad.append((func_of(n), n.lineno))
    I.w.check(FRAME_ALL, uses > 0 and not bad, {"bad": bad})


@task("twin.renumbered", PROP, functions=[f"{Q}.record_interruption", f"{Q}.rewind"], twin="twin:a rewind takes the interruption numbering back to the checkpoint")
def twin_renumbered(I):
    w = I.w
    env = Env(I)
    b, uid = opened_bundler(I, env, record_interruptions=True)
    n, c = w.int("next_interruptions"), w.int("snap_interruptions")
    w.add(And(n >= 1, c >= 1, c <= n))
    b._sequence_counters["interruptions"], b._sequence_counters_copy["interruptions"] = n, c
    env.emitted.clear()
    call_method(I, b, "record_interruption", "pause")
    call_method(I, b, "rewind")
    call_method(I, b, "record_interruption", "resume")
    evs = events(env)
    w.check("twin:a rewind takes the interruption numbering back to the checkpoint", And(len(evs) == 2, Eq(evs[1]["seq_num"], c) if len(evs) == 2 else False))


# ---------------------------------------------------------------------------------------------------------------------------------
# T2: the real RunEngine (request_pause / _request_pause_coro, _pause, _checkpoint, resume, request_suspend, _start_suspender, _run,
# _open_run / _close_run) executed symbolically under the asyncio model with an arbitrary plan and an environment that requests immediate and
# deferred pauses and suspensions at every step of the loop; the clause is replay/c40_clause.py, the ghost monitor contracts/run_mon5.py
from .t2 import *                                   # noqa: E402
from .run_mon5 import c40_checks, R_MISSING, R_EXTRA, R_FLAG      # noqa: E402

TRUSTED = EM_ASSUMPTIONS + TRUSTED_T2 + [
    "A-ENV: in each T2 scenario another thread makes at most `max_requests` (2; 3 in one thorough scenario) pause / suspension requests per call, at most "
    "`max_inflight` of them in flight at a time, none while `max_depth` or more plans are stacked; a plan opens at most two runs; the plan's alphabet and "
    "the decisions at the prompt of a paused engine are those of the scenario (listed in the task names)",
    "the abstract run bundler of the T2 tasks stands for RunBundler under B1 / B2: each record_interruption call on an open recording run is one event "
    "of its 'interruptions' stream with its own seq_num, counted by the RunStop",
    "E1 / E2 use the definitions of replay/c40_clause.py for when an interruption happens and by when its record is due",
]
THOROUGH = os.environ.get("VERIF_TIER") == "thorough"
REC = {"re_attrs": {"record_interruptions": True}}
# most scenarios: a plan that neither raises nor catches what is thrown into it, and resume / abort as the decisions at the prompt of a
# paused engine (the plan-message scenario and the pause / stop scenario keep the defaults: every decision, plans that raise and catch)
LEAN = dict(REC, can_raise=False, handles=False, post_pause=("resume", "abort"), max_requests=2)
PAUSE, RESUME, SUSP = "C40:pause with a run open", "C40:resume with a run open", "C40:suspension with a run open"
T2_SCENARIOS = [
    # immediate and deferred pauses requested by another thread, checkpoints in between
    ("open_run,checkpoint,null", "pause,pause_defer", dict(LEAN), [PAUSE, RESUME, "C40:deferred pause takes effect with a run open"]),
    # pauses asked for by the plan itself (Msg('pause', defer=...)), runs opened and closed by the plan
    ("open_run,close_run,checkpoint,pause,pause_defer", "", dict(REC), [PAUSE, RESUME]),
    # pauses / suspensions in a non-resumable section (they end the run instead)
    ("open_run,clear_checkpoint,checkpoint", "pause", dict(LEAN), [PAUSE, "C40:interruption in a non-resumable section with a run open"]),
    ("open_run,clear_checkpoint,checkpoint", "suspend", dict(LEAN), [SUSP]),
    # a device whose stop() is asynchronous: requests land inside the engine's own clean-up at a pause / a suspension / the end of the plan
    ("open_run,set_async", "pause,suspend", dict(LEAN), [PAUSE, RESUME, SUSP]),
    # two runs open at the same time: each holds its own records
    ("open_run,open_run_b,checkpoint", "pause,suspend", dict(LEAN), [PAUSE, RESUME, SUSP, "C40:interruption with two runs open"]),
    # a pause while the plan is suspended / a suspension on top of a suspension (justification given)
    ("open_run,null", "suspend,pause", dict(LEAN, max_depth=4, suspend_plans=True), [PAUSE, RESUME, SUSP]),
    # a deferred pause and a suspension in the same call
    ("open_run,checkpoint,null", "pause_defer,suspend", dict(LEAN), [PAUSE, RESUME, SUSP]),
    # a suspension requested while the engine sits paused: it is queued and carried out after resume()
    ("open_run,checkpoint,null", "pause", dict(LEAN, paused_env="suspend"),
     [PAUSE, RESUME, SUSP, "C40:suspension requested while paused is carried out with a run open"]),
    # suspensions with pre / post plans and a justification; without a justification
    ("open_run,close_run,null,checkpoint", "suspend", dict(LEAN, suspend_plans=True), [SUSP]),
    ("open_run,null,checkpoint", "suspend", dict(REC, can_raise=False, max_requests=2), [SUSP]),
    # a pause racing a stop request; stop / halt / abort from the paused state
    ("open_run,checkpoint", "pause,stop", dict(REC, max_requests=2), [PAUSE, RESUME]),
    # recording disabled
    ("open_run,checkpoint", "pause", dict(max_requests=1), []),
]
if THOROUGH:
    T2_SCENARIOS += [
        ("open_run,checkpoint,custom", "pause,pause_defer", dict(REC, max_requests=2), [PAUSE, RESUME]),
        ("open_run,close_run,custom,checkpoint", "suspend", dict(REC, suspend_plans=True, max_requests=2), [SUSP]),
        ("open_run,open_run_b,close_run,checkpoint", "pause,suspend", dict(REC, max_requests=2), [PAUSE, RESUME, SUSP]),
        ("open_run,clear_checkpoint,checkpoint,custom", "pause,suspend", dict(REC, max_requests=2), [PAUSE, SUSP]),
        ("open_run,set_async,checkpoint", "pause,suspend", dict(REC, max_requests=2), [PAUSE, RESUME, SUSP]),
        ("open_run,checkpoint", "pause,suspend", dict(REC, max_requests=2, max_inflight=2), [PAUSE, RESUME, SUSP]),
        ("open_run,checkpoint,null", "pause,pause_defer", dict(LEAN, max_requests=3), [PAUSE, RESUME]),
    ]
for _m, _e, _o, _c in T2_SCENARIOS:
    t2_tasks(PROP, "interruptions", [(_m, _e, _o)], [c40_checks], expect=[R_FLAG] + ([R_MISSING, R_EXTRA] if _o.get("re_attrs") else []), covers=_c)


def _twin(sc, tr):
    n = {"asked": 0, "recorded": 0}

    def check(kind, *a):
        if kind == "request" and a[0] in ("pause", "pause_defer"):
            n["asked"] += 1
        elif kind == "record_interruption" and a[1] == "pause":
            n["recorded"] += 1
        elif kind == "returned" and a[0] == "__call__" and sc.eng.state == "idle":
            sc.w.check("twin:every pause that was asked for is recorded, deferred ones included", n["recorded"] >= n["asked"])
    tr.checks.append(check)


t2_tasks(PROP, "twin", [("open_run,checkpoint", "pause_defer", dict(REC, max_requests=1, can_raise=False, handles=False))], [_twin],
         twin="twin:every pause that was asked for is recorded, deferred ones included")
