"""C40 - interruption records are complete and uniquely numbered.

Carriers: bluesky/bundlers.py: RunBundler.open_run, record_interruption, rewind, close_run; the three call sites in
bluesky/run_engine.py (_request_pause_coro, resume, _start_suspender).
Clauses: recording enabled and run open => record_interruption emits exactly one event in the 'interruptions' stream
carrying the stream's next seq_num (own number, also across a rewind); otherwise nothing is emitted; with recording
disabled open_run creates no 'interruptions' descriptor; the RunStop counts them; every pause / resume / suspension
calls record_interruption exactly once per open run (structural obligation on the call sites).
"""
import ast

from .lib import *
from .bundler_lib import *

PROP = "C40"
Q = f"{MB}:RunBundler"
RE = "bluesky.run_engine:RunEngine"
TRUSTED = EM_ASSUMPTIONS
NOT_DECIDED = "that every pause/suspension/resume path of the RunEngine reaches the call sites (T2: C08, C11)"


@task("open_run", PROP, functions=[f"{Q}.open_run", f"{Q}.__init__"],
      expect=[f"{Q}.open_run#ensures[interruptions descriptor iff recording enabled; start emitted first]"])
def open_run(I):
    w = I.w
    env = Env(I)
    rec = w.choose([True, False], "record_interruptions")
    b, uid = opened_bundler(I, env, record_interruptions=rec)
    names = [n for n, d in env.emitted]
    descs = [d for n, d in env.emitted if n == "descriptor"]
    if rec:
        ok = names == ["start", "descriptor"] and descs[0]["name"] == "interruptions" and descs[0]["run_start"] == uid
    else:
        ok = names == ["start"]
    w.check(f"{Q}.open_run#ensures[interruptions descriptor iff recording enabled; start emitted first]",
            ok and env.emitted[0][1]["uid"] == uid and b.run_is_open is True, {"replay": "bundler.rewind"})


@task("record_interruption", PROP, functions=[f"{Q}.record_interruption", f"{Q}.rewind", f"{Q}.close_run"],
      expect=[f"{Q}.record_interruption#ensures[exactly one interruptions event with the stream's next number when recording]",
              f"{Q}.record_interruption#ensures[nothing emitted when recording is disabled]",
              f"{Q}.close_run#ensures[RunStop counts the interruption records]"])
def record_interruption(I):
    w = I.w
    env = Env(I)
    rec = w.choose([True, False], "record_interruptions")
    b, uid = opened_bundler(I, env, record_interruptions=rec)
    if not rec:
        env.emitted.clear()
        call_method(I, b, "record_interruption", "pause")
        w.check(f"{Q}.record_interruption#ensures[nothing emitted when recording is disabled]",
                len(env.emitted) == 0 and "interruptions" not in b._sequence_counters, {"replay": "bundler.rewind"})
        return
    desc = [d for n, d in env.emitted if n == "descriptor"][0]
    # arbitrary state: k records so far, some checkpoint in the past
    n = w.int("next_interruptions")
    c = w.int("snap_interruptions")
    w.add(And(n >= 1, c >= 1, c <= n))
    b._sequence_counters["interruptions"] = n
    has_snap = w.choose([True, False], "snapshot holds the stream")
    if has_snap:
        b._sequence_counters_copy["interruptions"] = c
    else:
        b._sequence_counters_copy.pop("interruptions", None)
    env.emitted.clear()
    call_method(I, b, "record_interruption", "pause")
    call_method(I, b, "rewind")                           # resume: the record must not be renumbered
    call_method(I, b, "record_interruption", "resume")
    evs = events(env)
    ok = len(evs) == 2 and len(env.emitted) == 2 and all(e["descriptor"] == desc["uid"] for e in evs)
    w.check(f"{Q}.record_interruption#ensures[exactly one interruptions event with the stream's next number when recording]",
            And(ok, *([Eq(evs[0]["seq_num"], n), Eq(evs[1]["seq_num"], n + 1), evs[0]["data"] == {"interruption": "pause"},
                       evs[1]["data"] == {"interruption": "resume"}] if ok else [False])), {"replay": "bundler.rewind"})
    env.emitted.clear()
    r = call_async(I, I.getattr(b, "close_run"), MsgVal("close_run", None, (), {}, None))
    stops = [d for nm, d in env.emitted if nm == "stop"]
    w.check(f"{Q}.close_run#ensures[RunStop counts the interruption records]",
            And(r[0] == "ok" and len(stops) == 1, Eq(stops[0]["num_events"]["interruptions"], n + 1) if stops else False), {"replay": "bundler.rewind"})


@task("call_sites", PROP, functions=[f"{RE}._request_pause_coro", f"{RE}.resume", f"{RE}._start_suspender"],
      expect=[f"{RE}#ensures[pause, resume and suspension each record one interruption per open run]"])
def call_sites(I):
    w = I.w
    want = {"_request_pause_coro": '"pause"', "resume": '"resume"', "_start_suspender": None}
    ok = True
    for fn, label in want.items():
        m, chain, node = I.P.find_function(f"{RE}.{fn}")
        loops = [n for n in ast.walk(node) if isinstance(n, ast.For) and ast.unparse(n.iter) == "self._run_bundlers.values()"]
        hits = []
        for lp in loops:
            calls = [c for c in ast.walk(lp) if isinstance(c, ast.Call) and ast.unparse(c.func).endswith(".record_interruption")]
            # exactly one unconditional call per iteration (other statements in the loop body are allowed)
            top_level = [st for st in lp.body if isinstance(st, ast.Expr) and isinstance(st.value, ast.Call)
                         and ast.unparse(st.value.func) == f"{ast.unparse(lp.target)}.record_interruption"]
            if len(calls) == 1 and len(top_level) == 1 and top_level[0].value is calls[0]:
                hits.append(calls[0])
        total = [c for c in ast.walk(node) if isinstance(c, ast.Call) and ast.unparse(c.func).endswith(".record_interruption")]
        good = len(hits) == 1 and len(total) == 1
        if good and label is not None:
            good = ast.unparse(hits[0].args[0]).replace("'", '"') == label
        ok = ok and good
    w.check(f"{RE}#ensures[pause, resume and suspension each record one interruption per open run]", ok)
