"""C20 - message mutators are transparent when they change nothing.

Carriers: bluesky/preprocessors.py: plan_mutator (with a processor returning (None, None)) and msg_mutator (with the
identity processor).  Trace contract: lock-step bisimulation against the wrapped plan itself (`yield from plan`), the
plan abstract, every driver script.  Observed: yielded message (identity), response delivered to the plan (call
log), exceptions thrown in and raised (identity), return value, behaviour on close / halt.
Cut invariant for plan_mutator: the local `msgs_seen` is abstracted away - a syntactic frame obligation shows it is only
used for `id(msg) not in msgs_seen` / `msgs_seen[id(msg)] = msg`, and both outcomes of the membership test are explored at
every yield (fresh message / re-yielded message).
"""
import ast
import os

from .lib import *
from pyvc.bisim import Bisim, reference_module, ABS_EXC, ABS_BASE_EXC

PROP = "C20"
MP = "bluesky.preprocessors"
TRUSTED = ["abstract plans obey the generator protocol and do not yield while being closed",
           "driver vocabulary: send(v), throw(Exception instance), throw(instance of a BaseException that is neither an Exception nor a GeneratorExit: "
           "KeyboardInterrupt, asyncio.CancelledError ...), close(), throw(GeneratorExit-subclass instance); first input send(None)",
           "id() of live objects is injective (objects referenced by msgs_seen stay alive)"]
NOT_DECIDED = "garbage-collection side effects; processors that raise"
REF_FILE = "contracts/refs/c20.py"
REF = open(os.path.join(os.path.dirname(os.path.dirname(os.path.abspath(__file__))), REF_FILE)).read()


def setup(I, name, cfg, **kw):
    b = Bisim(I, name, replay="generators.script", cfg=dict(cfg, module=MP, ref_file=REF_FILE), throw_classes=[ABS_EXC, ABS_BASE_EXC], **kw)
    return b, reference_module(I.P, "verif_ref_c20", REF)


@task("plan_mutator[noop]", PROP, functions=[f"{MP}:plan_mutator"],
      expect=[f"{MP}:plan_mutator[noop]#trace[same calls on the wrapped generators]",
              f"{MP}:plan_mutator[noop]#outcome[same yield / return / raise at every step]",
              f"{MP}:plan_mutator#frame[msgs_seen only used for membership test and insertion]"],
      covers=[f"{MP}:plan_mutator[noop]: closed at an established cut point", f"{MP}:plan_mutator[noop]: terminated by return",
              f"{MP}:plan_mutator[noop]: terminated by raise", f"{MP}:plan_mutator[noop]: terminated by closed"])
def plan_mutator_noop(I):
    w = I.w
    b, ref = setup(I, f"{MP}:plan_mutator[noop]", {
        "objects": {"plan": "gen"}, "impl_build": "plan_mutator(plan, lambda msg: (None, None))", "ref_build": "ref_transparent(plan)"},
        canon_exclude=[(f"{MP}:plan_mutator", "msgs_seen")])
    # frame scan justifying the abstraction of msgs_seen
    m, chain, node = I.P.find_function(f"{MP}:plan_mutator")
    uses_ok = True
    for n in ast.walk(node):
        if isinstance(n, ast.Name) and n.id == "msgs_seen":
            parent_ok = False
            for p in ast.walk(node):
                if isinstance(p, ast.Compare) and n in p.comparators and isinstance(p.ops[0], (ast.NotIn, ast.In)):
                    parent_ok = True
                if isinstance(p, ast.Assign) and (n in p.targets or any(isinstance(t, ast.Subscript) and t.value is n for t in p.targets)):
                    parent_ok = True
            uses_ok = uses_ok and parent_ok
    w.check(f"{MP}:plan_mutator#frame[msgs_seen only used for membership test and insertion]", uses_ok)
    Pi, Pr = b.absgen_pair("plan")
    noop = native(lambda I_, a, k: (None, None))
    noop._canon_label = "noop"
    impl = I.call_value(I.get_function(f"{MP}:plan_mutator"), Pi, noop)
    rg = I.call_value(I.global_lookup(ref, "ref_transparent"), Pr)
    b.run(impl, rg)


@task("msg_mutator[identity]", PROP, functions=[f"{MP}:msg_mutator"],
      expect=[f"{MP}:msg_mutator[identity]#trace[same calls on the wrapped generators]",
              f"{MP}:msg_mutator[identity]#outcome[same yield / return / raise at every step]"],
      covers=[f"{MP}:msg_mutator[identity]: closed at an established cut point"])
def msg_mutator_identity(I):
    b, ref = setup(I, f"{MP}:msg_mutator[identity]", {
        "objects": {"plan": "gen"}, "impl_build": "msg_mutator(plan, lambda msg: msg)", "ref_build": "ref_transparent(plan)"})
    Pi, Pr = b.absgen_pair("plan")
    ident = native(lambda I_, a, k: a[0])
    ident._canon_label = "identity"
    impl = I.call_value(I.get_function(f"{MP}:msg_mutator"), Pi, ident)
    rg = I.call_value(I.global_lookup(ref, "ref_transparent"), Pr)
    b.run(impl, rg)


TWIN = '''
def ref_swallow_return(plan):
    yield from plan
'''


@task("plan_mutator.twin", PROP, twin="twin:plan_mutator#outcome[same yield / return / raise at every step]")
def twin(I):
    b = Bisim(I, "twin:plan_mutator", canon_exclude=[(f"{MP}:plan_mutator", "msgs_seen")])
    ref = reference_module(I.P, "verif_ref_c20_twin", TWIN)
    Pi, Pr = b.absgen_pair("plan")
    noop = native(lambda I_, a, k: (None, None))
    impl = I.call_value(I.get_function(f"{MP}:plan_mutator"), Pi, noop)
    rg = I.call_value(I.global_lookup(ref, "ref_swallow_return"), Pr)
    b.run(impl, rg)


# ================================================================================================ bounded stand-in (native): long plans
LONG_BOUND = ("native run of the real plan_mutator / msg_mutator on a plan of 6000 fresh messages that nothing else keeps alive (garbage collected "
              "while the plan runs, addresses recycled): the proof's assumption 'id() is injective on the messages the mutator remembers' is exercised")
E_LONG = "bounded:C20 on a long plan every distinct message is handed to the processor exactly once and every response reaches its own yield"


@task("native.long_plans", PROP, bounded=LONG_BOUND, expect=[E_LONG])
def native_long_plans(I):
    import json
    import subprocess
    from pyvc.runner import ROOT
    env = dict(os.environ, PYTHONPATH=ROOT, VERIF_REPO=os.environ.get("VERIF_REPO", "/repo"))
    try:
        p = subprocess.run(["/venv/bin/python", os.path.join(ROOT, "replay", "long_plans.py"), "sweep"], capture_output=True, text=True,
                           timeout=600, cwd=ROOT, env=env)
    except subprocess.TimeoutExpired:
        raise EngineError("native long-plan run timed out")
    line = [l for l in p.stdout.splitlines() if l.startswith("SWEEP ")]
    if p.returncode != 0 or not line:
        raise EngineError(f"native long-plan run failed: {(p.stdout + p.stderr)[-800:]}")
    r = json.loads(line[-1][6:])
    if r["messages"] < 5000:
        raise EngineError("native long-plan run too short")
    I.w.check(E_LONG, not r["failures"], {"replay": "long_plans.sweep_replay", "failures": r["failures"][:3], "messages": r["messages"]})
