"""C42 - each run's trace span ends once with that run's outcome.

Carriers: bluesky/run_engine.py: RunEngine._open_run (span creation), _close_run, _close_run_trace,
_destroy_open_run_tracing_spans, and the run-closing loop of the `_run` epilogue.
Abstract view: span_of: run_key -> span (one per open run); ledger of set_attribute / end calls per span.
Clauses (from the statement):
  _open_run rejected (key already open / validator raises) : view unchanged, no span left open and un-ended
  _open_run accepted                                        : exactly one new span, registered for that run key
  _close_run(msg) for key k, several runs open              : k's own span ended exactly once with the exit_status /
                                                               reason of that message; every other span untouched
  _destroy_open_run_tracing_spans                           : every span in the view ended exactly once; view empty
  whole call (T2: real __call__ / _run / requests, arbitrary plan, bundlers whose close_run / open_run may fail, abort / stop /
  halt / pause from other threads; second half of this file):
      every opened run got exactly one span; once the engine is idle each has been ended exactly once and carries the exit status
      its run ended with (the stop that went out, else the last attempt) - also for runs the clean-up closes and when that close
      fails; nothing stays registered on the engine; while the plan is running the span of an open run is un-ended
"""
from .lib import *
from .re_lib import *

PROP = "C42"
TRUSTED = EM_ASSUMPTIONS + ["opentelemetry: tracer.start_span returns a fresh span; set_attribute / end only record (recording fake)",
                            "_set_span_msg_attributes and logger calls are effect-free (A-LOG)"]
NOT_DECIDED = ""          # (set below, after the T2 part)


def open_runs(I, env, re_, keys, spans):
    """open runs for the given keys through the real _open_run; returns key -> span"""
    view = {}
    for k in keys:
        n0 = len(spans)
        r = call_async(I, I.getattr(re_, "_open_run"), MsgVal("open_run", None, (), {}, k))
        if r[0] != "ok" or len(spans) != n0 + 1:
            raise EngineError(f"harness could not open run {k!r}: {r}")
        view[k] = spans[-1]
    return view


def ended(sp):
    return sp.attrs.get("$ended", 0)


@task("_open_run.spans", PROP, functions=[f"{RE}._open_run"],
      expect=[f"{RE}._open_run#ensures[accepted: exactly one new span registered for the run]",
              f"{RE}._open_run#ensures[rejected: no span left open, registered spans unchanged]"])
def open_run_spans(I):
    w = I.w
    env = Env(I)
    ledger = []
    spans = install_tracer(I, ledger)
    re_ = make_re(I, env, scan_id_source=I.get_function(f"{MR}:default_scan_id_source"), md_validator=I.get_function(f"{MR}:_default_md_validator"),
                  md_normalizer=I.get_function(f"{MR}:_default_md_normalizer"))
    view = open_runs(I, env, re_, ["a"], spans)
    case = w.choose(["new key", "duplicate key", "validator rejects"], "case")
    n0 = len(spans)
    before = list(re_._run_tracing_spans.values()) if isinstance(re_._run_tracing_spans, dict) else list(re_._run_tracing_spans)
    if case == "validator rejects":
        bad = Obj(BUILTIN_CLASSES["ValueError"], {"args": ("rejected",), "__cause__": None})
        re_.attrs["md_validator"] = native(lambda I_, a, k: (_ for _ in ()).throw(PyRaise(bad)))
    key = "a" if case == "duplicate key" else "b"
    r = call_async(I, I.getattr(re_, "_open_run"), MsgVal("open_run", None, (), {}, key))
    after = list(re_._run_tracing_spans.values()) if isinstance(re_._run_tracing_spans, dict) else list(re_._run_tracing_spans)
    new = spans[n0:]
    rp = {"replay": "tracing.spans"}
    if case == "new key":
        w.check(f"{RE}._open_run#ensures[accepted: exactly one new span registered for the run]",
                r[0] == "ok" and len(new) == 1 and ended(new[0]) == 0 and [s for s in after if s not in before] == new
                and all(s in after for s in before), rp)
    else:
        open_leftover = [s for s in new if ended(s) == 0]
        w.check(f"{RE}._open_run#ensures[rejected: no span left open, registered spans unchanged]",
                r[0] == "raise" and not open_leftover and len(after) == len(before) and all(x is y for x, y in zip(after, before))
                and ended(view["a"]) == 0, rp)


@task("_close_run.spans", PROP, functions=[f"{RE}._close_run", f"{RE}._close_run_trace"],
      expect=[f"{RE}._close_run#ensures[the closed run's own span ended once with that run's status; other spans untouched]"])
def close_run_spans(I):
    w = I.w
    env = Env(I)
    ledger = []
    spans = install_tracer(I, ledger)
    re_ = make_re(I, env, scan_id_source=I.get_function(f"{MR}:default_scan_id_source"), md_validator=I.get_function(f"{MR}:_default_md_validator"),
                  md_normalizer=I.get_function(f"{MR}:_default_md_normalizer"))
    order = w.choose([["a", "b"], ["b", "a"]], "opening order")
    view = open_runs(I, env, re_, order, spans)
    victim = w.choose(["a", "b"], "run being closed")
    other = "b" if victim == "a" else "a"
    status = w.choose(["success", "fail", "abort"], "exit_status")
    r = call_async(I, I.getattr(re_, "_close_run"), MsgVal("close_run", None, (), {"exit_status": status, "reason": "because"}, victim))
    sv, so = view[victim], view[other]
    w.check(f"{RE}._close_run#ensures[the closed run's own span ended once with that run's status; other spans untouched]",
            r[0] == "ok" and ended(sv) == 1 and sv.attrs["$attrs"].get("exit_status") == status and sv.attrs["$attrs"].get("reason") == "because"
            and ended(so) == 0 and so.attrs["$attrs"] == {} and victim not in re_._run_bundlers and other in re_._run_bundlers,
            {"replay": "tracing.spans"})
    # closing the other one afterwards ends *its* span with *its* status
    r2 = call_async(I, I.getattr(re_, "_close_run"), MsgVal("close_run", None, (), {"exit_status": "success", "reason": ""}, other))
    w.check(f"{RE}._close_run#ensures[second close ends the remaining span; none ended twice; nothing left registered]",
            r2[0] == "ok" and ended(sv) == 1 and ended(so) == 1 and so.attrs["$attrs"].get("exit_status") == "success"
            and len(re_._run_tracing_spans) == 0, {"replay": "tracing.spans"})


@task("_close_run.rejected", PROP, functions=[f"{RE}._close_run"],
      expect=[f"{RE}._close_run#ensures[a close the bundler refuses leaves the run open and its span un-ended]"])
def close_run_rejected(I):
    """the span carries the run's *outcome*: if closing fails the run is still open (the engine closes it later as
    failed), so its span must not have been ended with the status of the refused message"""
    w = I.w
    env = Env(I)
    spans = install_tracer(I, [])
    re_ = make_re(I, env, scan_id_source=I.get_function(f"{MR}:default_scan_id_source"), md_validator=I.get_function(f"{MR}:_default_md_validator"),
                  md_normalizer=I.get_function(f"{MR}:_default_md_normalizer"))
    view = open_runs(I, env, re_, ["a"], spans)
    boom = Obj(BUILTIN_CLASSES["RuntimeError"], {"args": ("refused",), "__cause__": None}, label="refused")

    def refuse(I_, f, a, k):
        raise PyRaise(boom)
        yield
    I.call_hooks[f"{MB}:RunBundler.close_run"] = refuse
    r = call_async(I, I.getattr(re_, "_close_run"), MsgVal("close_run", None, (), {"exit_status": "success"}, "a"))
    w.check(f"{RE}._close_run#ensures[a close the bundler refuses leaves the run open and its span un-ended]",
            r[0] == "raise" and r[1] is boom and "a" in re_._run_bundlers and ended(view["a"]) == 0 and view["a"].attrs["$attrs"] == {},
            {"replay": "tracing.spans"})


@task("_destroy_open_run_tracing_spans", PROP, functions=[f"{RE}._destroy_open_run_tracing_spans"],
      expect=[f"{RE}._destroy_open_run_tracing_spans#ensures[every registered span ended exactly once; none left]"])
def destroy_spans(I):
    w = I.w
    env = Env(I)
    ledger = []
    spans = install_tracer(I, ledger)
    re_ = make_re(I, env, scan_id_source=I.get_function(f"{MR}:default_scan_id_source"), md_validator=I.get_function(f"{MR}:_default_md_validator"),
                  md_normalizer=I.get_function(f"{MR}:_default_md_normalizer"))
    n = w.choose([0, 1, 2, 3], "open runs")
    view = open_runs(I, env, re_, [f"k{i}" for i in range(n)], spans)
    call_method(I, re_, "_destroy_open_run_tracing_spans")
    w.check(f"{RE}._destroy_open_run_tracing_spans#ensures[every registered span ended exactly once; none left]",
            all(ended(s) == 1 for s in view.values()) and len(re_._run_tracing_spans) == 0, {"replay": "tracing.spans"})


# (the former *structural* obligation on `_run`'s finally block - "the clean-up loop contains a call self._close_run_trace(Msg(..., run=key))" -
# is replaced by the T2 tasks below, which execute that block: the syntactic test rejected harmless rewrites of the loop (renamed loop
# variables, the message bound to a local first) and accepted a call that is skipped when closing the run fails)


# ------------------------------------------------------------------------------------------------ T2: the whole call, real _run
# The statement quantifies over plans and schedules (interleaved run keys, failures, interruptions) and says that *whatever happens* each
# opened run has one span, ended once, with that run's own exit status - "including ... when the engine closes a run during cleanup".
# The tasks below execute the real RunEngine.__call__ / _run (prologue, message loop, exception ladder, the whole epilogue) / _open_run /
# _close_run / _close_run_trace / abort / stop / halt / request_pause / resume on the asyncio model of contracts/aio.py with
#   * an arbitrary plan over open_run / close_run messages for two run keys (with and without an explicit exit status) that may also
#     return, raise, and handle or re-raise whatever is thrown into it,
#   * run bundlers whose close_run may *fail* (the delivery of the stop document raises: a subscriber in strict mode, a schema rejection);
#     the run then stays open (contract of RunBundler.close_run: run_is_open is cleared last) - in one scenario open_run may fail too,
#     before or after the start document went out,
#   * requests of other threads (abort / stop / halt / pause, then resume / abort / stop / halt) landing between any two steps of the loop.
from .t2 import t2_tasks, TRUSTED_T2                                   # noqa: E402
from .run_lib import Bundler                                           # noqa: E402
from .run_scn import ALPHABET, msg as _msg                             # noqa: E402
from .run_mon2 import Mon                                              # noqa: E402

ALPHABET.setdefault("close_run_fail", _msg("close_run", exit_status="fail", reason="gave up"))
ALPHABET.setdefault("close_run_b_abort", _msg("close_run", run="b", exit_status="abort", reason="not needed"))

TRUSTED = TRUSTED + TRUSTED_T2 + [
    "T2 uses the contract of RunBundler (C01, C19): close_run either emits the stop with the message's exit_status (default 'success') and reports the "
    "run closed, or raises and leaves run_is_open set (run_is_open is cleared after the stop went out); it may fail any number of times; open_run "
    "either emits the start and reports the run open, or raises - before the start went out (run not open) or after (run open)",
    "A-RUNS: at most two runs (run keys None and 'b') are opened per call in the T2 tasks",
    "A-ENV: at most one request of another thread is in flight at a time; one pause request per call in the pause scenario (followed by the "
    "user's resume / abort / stop / halt)",
]
NOT_DECIDED = ("suspensions (request_suspend) and more than two simultaneously open runs in the whole-call (T2) tasks; the `reason` attribute of spans "
               "ended by the engine's clean-up (only the exit status is in the statement); real preemptive threads")

S_ONE = (f"{RE}.__call__#ensures[every run opened during the call got exactly one span, started while its open_run was processed; an open_run that "
         "is rejected leaves no un-ended span]")
S_END = (f"{RE}.__call__#ensures[once the engine is idle every opened run's span has been ended exactly once and carries that run's own exit status - "
         "also when the run was closed by the engine's clean-up, also when closing it failed, also after abort / stop / halt]")
S_LEAK = f"{RE}.__call__#ensures[once the engine is idle no span is left registered on the engine]"
S_EARLY = f"{RE}._run#ensures[whenever the plan yields a message the span of every run that is still open is un-ended]"


def _status_of(m):
    return m.kwargs.get("exit_status", "success") or "success"


class C42Mon(Mon):
    """ghost: which spans were started while which open_run message was processed; the outcome of a run = the exit status of the
    close_run that closed it, or - if no close_run ever got through - of the last attempt (the engine's own, in its clean-up)"""
    fields = ("window", "summary")

    def __init__(self, sc, tr):
        self.sc, self.tr, self.I, self.w, self.eng = sc, tr, sc.I, sc.w, sc.eng
        self.window = None            # (number of spans, number of bundlers) when the open_run being processed was yielded
        self.span_of = {}             # bundler idx -> spans started while its open_run was processed
        self.orphans = []             # spans started by an open_run that was rejected
        self.attempt = {}             # bundler idx -> exit status of the last close_run attempted on it
        self.hist = []                # diagnostic only
        self.violated = False

    @property
    def summary(self):
        """the part of the ledgers the obligations depend on (bounded: A-RUNS; part of the closure key - spans are opaque tokens there)"""
        def st(sp):
            return (ended(sp), sp.attrs["$attrs"].get("exit_status"))
        return (tuple((i, tuple(st(s) for s in sps)) for i, sps in sorted(self.span_of.items())), tuple(st(s) for s in self.orphans),
                tuple(sorted(self.attempt.items())))

    def info(self, **more):
        return dict({"replay": "tracing.call_replay", "requests": list(self.sc.requests), "scenario": getattr(self.sc, "info", {}).get("scenario"),
                     "history": [list(h) for h in self.hist]}, **more)

    def close_window(self):
        if self.window is None:
            return
        n_sp, n_b = self.window
        self.window = None
        new_sp, new_b = self.eng.spans[n_sp:], self.eng.bundlers[n_b:]
        if len(new_b) > 1:
            raise EngineError("one open_run message created two bundlers")
        if new_b:
            self.span_of[new_b[0].idx] = list(new_sp)
            self.req(S_ONE, len(new_sp) == 1, self.info(run=new_b[0].idx, spans=len(new_sp), what="accepted open_run"))
        else:
            self.orphans.extend(new_sp)
            self.req(S_ONE, all(ended(s) >= 1 for s in new_sp), self.info(spans=len(new_sp), what="rejected open_run"))

    def req(self, name, cond, info):
        if not self.w.check(name, cond, info):
            self.violated = True

    def __call__(self, kind, *a):
        self.on(kind, *a)
        if self.violated:
            # a path on which an obligation has failed is not explored further (the ledgers of a broken engine need not stay bounded)
            raise PathEnd("C42 obligation violated")

    def on(self, kind, *a):
        eng, w, tr = self.eng, self.w, self.tr
        if kind in ("plan-yield", "replay-yield", "plan-send", "plan-throw", "plan-return", "plan-raise", "plan-close", "replay-done", "replay-raise", "returned"):
            self.close_window()
        if kind in ("plan-yield", "replay-yield"):
            early = [b.idx for b in eng.bundlers if b.open and any(ended(s) for s in self.span_of.get(b.idx, []))]
            self.req(S_EARLY, not early, self.info(runs=early, next_message=a[1].command))
            self.hist.append(("yield", a[1].command, a[1].run, dict(a[1].kwargs)))
            if a[1].command == "open_run":
                self.window = (len(eng.spans), len(eng.bundlers))
        elif kind in ("close_run", "close_run-refused"):
            self.attempt[a[0].idx] = _status_of(a[1])
            self.hist.append((kind, a[0].idx, _status_of(a[1])))
            if kind == "close_run-refused":
                if tr.plan_outcome is None:
                    w.cover("a close_run of the plan fails")
                else:
                    w.cover("clean-up: closing a run fails")
                    if sum(1 for b in eng.bundlers if b.open) > 1:
                        w.cover("clean-up: closing a run fails while another run is open too")
        elif kind == "open_run-refused":
            self.hist.append((kind, a[0].idx, a[2]))
            w.cover("open_run fails " + a[2])
        elif kind == "request":
            self.hist.append(("request", a[0], eng.state))
        if kind == "returned" and eng.state == "idle":
            bad = []
            for b in eng.bundlers:
                want = b.stop["exit_status"] if b.stop is not None else self.attempt.get(b.idx)
                for s in self.span_of.get(b.idx, []):
                    got = s.attrs["$attrs"].get("exit_status")
                    if ended(s) != 1:
                        bad.append(f"run #{b.idx}: span ended {ended(s)} times")
                    elif want is not None and got != want:
                        bad.append(f"run #{b.idx}: span carries exit_status {got!r}, the run ended as {want!r}")
            if eng.bundlers and tr.term_requested:
                w.cover("a run was opened in a call that was " + "/".join(sorted(tr.term_requested)) + "-ed")
            if len(eng.bundlers) > 1 and any(self.attempt.get(b.idx) != self.attempt.get(eng.bundlers[0].idx) for b in eng.bundlers):
                w.cover("two runs ending with different exit statuses")
            self.req(S_END, not bad, self.info(problems=bad, call=a[0]))
            left = self.I.getattr(self.sc.re, "_run_tracing_spans")
            self.req(S_LEAK, len(left) == 0 and all(ended(s) >= 1 for s in self.orphans), self.info(left=len(left), call=a[0]))


def fallible_bundlers(sc, open_may_fail=False):
    """the engine's RunBundler: the abstract bundler of contracts/run_lib.py whose close_run (and open_run) may fail"""
    eng, w = sc.eng, sc.w

    def boom(text, lab):
        return PyRaise(Obj(BUILTIN_CLASSES["RuntimeError"], {"args": (text,), "__cause__": None}, label=w.fresh(lab)))

    def mk(I_, a, k):
        b = Bundler(eng, a[0], a[1])
        plain_close, plain_open = b.facade.spec["methods"]["close_run"], b.facade.spec["methods"]["open_run"]

        def close(I2, o, a2, k2):
            if b.open and w.choose(["ok", "raise"], "close_run outcome") == "raise":
                eng.event("close_run-refused", b, a2[0])
                raise boom("the stop document was not delivered", "close_error")
            return plain_close(I2, o, a2, k2)

        def open_(I2, o, a2, k2):
            c = w.choose(["ok", "before the start document went out", "after the start document went out"], "open_run outcome")
            if c == "ok":
                return plain_open(I2, o, a2, k2)
            if c.startswith("after"):
                plain_open(I2, o, a2, k2)
            eng.event("open_run-refused", b, a2[0], c)
            raise boom("the start document was not delivered", "open_error")
        b.facade.spec["methods"]["close_run"] = close
        if open_may_fail:
            b.facade.spec["methods"]["open_run"] = open_
        return b.facade
    w.stubs[(MR, "RunBundler")] = native(mk)


def c42_checks(sc, tr):
    fallible_bundlers(sc)
    tr.checks.append(C42Mon(sc, tr))


def c42_checks_open(sc, tr):
    fallible_bundlers(sc, open_may_fail=True)
    tr.checks.append(C42Mon(sc, tr))


RUNS = "open_run,close_run,close_run_fail,open_run_b,close_run_b,close_run_b_abort"
T2_C42 = [f"{RE}._close_run_trace", f"{RE}._destroy_open_run_tracing_spans"]
t2_tasks(PROP, "call.spans", [(RUNS, "", {})], [c42_checks], expect=[S_ONE, S_END, S_LEAK, S_EARLY], functions=T2_C42,
         covers=["a close_run of the plan fails", "clean-up: closing a run fails", "clean-up: closing a run fails while another run is open too",
                 "two runs ending with different exit statuses"])
t2_tasks(PROP, "call.spans.open_fails", [("open_run,close_run,open_run_b", "", {})], [c42_checks_open], expect=[S_ONE, S_END, S_LEAK, S_EARLY], functions=T2_C42,
         covers=["open_run fails before the start document went out", "open_run fails after the start document went out", "clean-up: closing a run fails"])
for _k in ("abort", "halt", "stop"):
    t2_tasks(PROP, "call.spans", [("open_run,close_run,open_run_b", _k, {})], [c42_checks], expect=[S_ONE, S_END, S_LEAK, S_EARLY], functions=T2_C42,
             covers=[f"a run was opened in a call that was {_k}-ed", "clean-up: closing a run fails"])
t2_tasks(PROP, "call.spans", [("open_run,close_run,open_run_b,checkpoint", "pause", {"max_requests": 1})], [c42_checks], expect=[S_ONE, S_END, S_LEAK, S_EARLY],
         functions=T2_C42, covers=["a run was opened in a call that was abort-ed", "a run was opened in a call that was halt-ed", "a close_run of the plan fails"])


def _twin(sc, tr):
    fallible_bundlers(sc)

    def check(kind, *a):
        if kind == "returned" and sc.eng.state == "idle":
            sc.w.check("twin:every span ends with exit_status success", all(s.attrs["$attrs"].get("exit_status") == "success" for s in sc.eng.spans))
    tr.checks.append(check)


t2_tasks(PROP, "twin", [("open_run,close_run", "", {})], [_twin], twin="twin:every span ends with exit_status success")

