"""C42 - each run's trace span ends once with that run's outcome.

Carriers: bluesky/run_engine.py: RunEngine._open_run (span creation), _close_run, _close_run_trace,
_destroy_open_run_tracing_spans, and the run-closing loop of the `_run` epilogue.
Abstract view: span_of: run_key -> span (one per open run); ledger of set_attribute / end calls per span.
Clauses (from the statement):
  _open_run rejected (key already open / validator raises) : view unchanged, no span left open and un-ended
  _open_run accepted                                        : exactly one new span, registered for that run key
  _close_run(msg) for key k, several runs open              : k's own span ended exactly once with the exit_status /
                                                               reason of that message; every other span untouched
  _destroy_open_run_tracing_spans                           : every span in the view ended exactly once; view empty
  epilogue (structural obligation on `_run`'s finally)      : every run the engine closes itself also gets its span
                                                               ended through _close_run_trace for that run key
"""
import ast

from .lib import *
from .re_lib import *

PROP = "C42"
TRUSTED = EM_ASSUMPTIONS + ["opentelemetry: tracer.start_span returns a fresh span; set_attribute / end only record (recording fake)",
                            "_set_span_msg_attributes and logger calls are effect-free (A-LOG)"]
NOT_DECIDED = "the order in which `_run`'s epilogue and an abort/halt request end the spans (T2)"


def open_runs(I, env, re_, keys, spans):
    """open runs for the given keys through the real _open_run; returns key -> span"""
    view = {}
    for k in keys:
        n0 = len(spans)
        r = call_async(I, I.getattr(re_, "_open_run"), MsgVal("open_run", None, (), {}, k))
        if r[0] != "ok" or len(spans) != n0 + 1:
            raise EngineError(f"harness could not open run {k!r}: {r}")
        view[k] = spans[-1]
    return view


def ended(sp):
    return sp.attrs.get("$ended", 0)


@task("_open_run.spans", PROP, functions=[f"{RE}._open_run"],
      expect=[f"{RE}._open_run#ensures[accepted: exactly one new span registered for the run]",
              f"{RE}._open_run#ensures[rejected: no span left open, registered spans unchanged]"])
def open_run_spans(I):
    w = I.w
    env = Env(I)
    ledger = []
    spans = install_tracer(I, ledger)
    re_ = make_re(I, env, scan_id_source=I.get_function(f"{MR}:default_scan_id_source"), md_validator=I.get_function(f"{MR}:_default_md_validator"),
                  md_normalizer=I.get_function(f"{MR}:_default_md_normalizer"))
    view = open_runs(I, env, re_, ["a"], spans)
    case = w.choose(["new key", "duplicate key", "validator rejects"], "case")
    n0 = len(spans)
    before = list(re_._run_tracing_spans.values()) if isinstance(re_._run_tracing_spans, dict) else list(re_._run_tracing_spans)
    if case == "validator rejects":
        bad = Obj(BUILTIN_CLASSES["ValueError"], {"args": ("rejected",), "__cause__": None})
        re_.attrs["md_validator"] = native(lambda I_, a, k: (_ for _ in ()).throw(PyRaise(bad)))
    key = "a" if case == "duplicate key" else "b"
    r = call_async(I, I.getattr(re_, "_open_run"), MsgVal("open_run", None, (), {}, key))
    after = list(re_._run_tracing_spans.values()) if isinstance(re_._run_tracing_spans, dict) else list(re_._run_tracing_spans)
    new = spans[n0:]
    rp = {"replay": "tracing.spans"}
    if case == "new key":
        w.check(f"{RE}._open_run#ensures[accepted: exactly one new span registered for the run]",
                r[0] == "ok" and len(new) == 1 and ended(new[0]) == 0 and [s for s in after if s not in before] == new
                and all(s in after for s in before), rp)
    else:
        open_leftover = [s for s in new if ended(s) == 0]
        w.check(f"{RE}._open_run#ensures[rejected: no span left open, registered spans unchanged]",
                r[0] == "raise" and not open_leftover and len(after) == len(before) and all(x is y for x, y in zip(after, before))
                and ended(view["a"]) == 0, rp)


@task("_close_run.spans", PROP, functions=[f"{RE}._close_run", f"{RE}._close_run_trace"],
      expect=[f"{RE}._close_run#ensures[the closed run's own span ended once with that run's status; other spans untouched]"])
def close_run_spans(I):
    w = I.w
    env = Env(I)
    ledger = []
    spans = install_tracer(I, ledger)
    re_ = make_re(I, env, scan_id_source=I.get_function(f"{MR}:default_scan_id_source"), md_validator=I.get_function(f"{MR}:_default_md_validator"),
                  md_normalizer=I.get_function(f"{MR}:_default_md_normalizer"))
    order = w.choose([["a", "b"], ["b", "a"]], "opening order")
    view = open_runs(I, env, re_, order, spans)
    victim = w.choose(["a", "b"], "run being closed")
    other = "b" if victim == "a" else "a"
    status = w.choose(["success", "fail", "abort"], "exit_status")
    r = call_async(I, I.getattr(re_, "_close_run"), MsgVal("close_run", None, (), {"exit_status": status, "reason": "because"}, victim))
    sv, so = view[victim], view[other]
    w.check(f"{RE}._close_run#ensures[the closed run's own span ended once with that run's status; other spans untouched]",
            r[0] == "ok" and ended(sv) == 1 and sv.attrs["$attrs"].get("exit_status") == status and sv.attrs["$attrs"].get("reason") == "because"
            and ended(so) == 0 and so.attrs["$attrs"] == {} and victim not in re_._run_bundlers and other in re_._run_bundlers,
            {"replay": "tracing.spans"})
    # closing the other one afterwards ends *its* span with *its* status
    r2 = call_async(I, I.getattr(re_, "_close_run"), MsgVal("close_run", None, (), {"exit_status": "success", "reason": ""}, other))
    w.check(f"{RE}._close_run#ensures[second close ends the remaining span; none ended twice; nothing left registered]",
            r2[0] == "ok" and ended(sv) == 1 and ended(so) == 1 and so.attrs["$attrs"].get("exit_status") == "success"
            and len(re_._run_tracing_spans) == 0, {"replay": "tracing.spans"})


@task("_close_run.rejected", PROP, functions=[f"{RE}._close_run"],
      expect=[f"{RE}._close_run#ensures[a close the bundler refuses leaves the run open and its span un-ended]"])
def close_run_rejected(I):
    """the span carries the run's *outcome*: if closing fails the run is still open (the engine closes it later as
    failed), so its span must not have been ended with the status of the refused message"""
    w = I.w
    env = Env(I)
    spans = install_tracer(I, [])
    re_ = make_re(I, env, scan_id_source=I.get_function(f"{MR}:default_scan_id_source"), md_validator=I.get_function(f"{MR}:_default_md_validator"),
                  md_normalizer=I.get_function(f"{MR}:_default_md_normalizer"))
    view = open_runs(I, env, re_, ["a"], spans)
    boom = Obj(BUILTIN_CLASSES["RuntimeError"], {"args": ("refused",), "__cause__": None}, label="refused")

    def refuse(I_, f, a, k):
        raise PyRaise(boom)
        yield
    I.call_hooks[f"{MB}:RunBundler.close_run"] = refuse
    r = call_async(I, I.getattr(re_, "_close_run"), MsgVal("close_run", None, (), {"exit_status": "success"}, "a"))
    w.check(f"{RE}._close_run#ensures[a close the bundler refuses leaves the run open and its span un-ended]",
            r[0] == "raise" and r[1] is boom and "a" in re_._run_bundlers and ended(view["a"]) == 0 and view["a"].attrs["$attrs"] == {},
            {"replay": "tracing.spans"})


@task("_destroy_open_run_tracing_spans", PROP, functions=[f"{RE}._destroy_open_run_tracing_spans"],
      expect=[f"{RE}._destroy_open_run_tracing_spans#ensures[every registered span ended exactly once; none left]"])
def destroy_spans(I):
    w = I.w
    env = Env(I)
    ledger = []
    spans = install_tracer(I, ledger)
    re_ = make_re(I, env, scan_id_source=I.get_function(f"{MR}:default_scan_id_source"), md_validator=I.get_function(f"{MR}:_default_md_validator"),
                  md_normalizer=I.get_function(f"{MR}:_default_md_normalizer"))
    n = w.choose([0, 1, 2, 3], "open runs")
    view = open_runs(I, env, re_, [f"k{i}" for i in range(n)], spans)
    call_method(I, re_, "_destroy_open_run_tracing_spans")
    w.check(f"{RE}._destroy_open_run_tracing_spans#ensures[every registered span ended exactly once; none left]",
            all(ended(s) == 1 for s in view.values()) and len(re_._run_tracing_spans) == 0, {"replay": "tracing.spans"})


@task("_run.epilogue.spans", PROP, functions=[f"{RE}._run"],
      expect=[f"{RE}._run#ensures[runs closed by the engine during cleanup also end their span via _close_run_trace(run key)]"])
def epilogue_spans(I):
    """structural obligation on the finally block of _run: in the loop that closes still-open runs, the span of
    that run key is ended (a call of self._close_run_trace with a message whose run is the loop's key)"""
    w = I.w
    m, chain, node = I.P.find_function(f"{RE}._run")
    ok = False
    for loop in [n for n in ast.walk(node) if isinstance(n, ast.For) and ast.unparse(n.iter) == "self._run_bundlers.items()"]:
        src = ast.unparse(loop)
        if "close_run(" not in src:
            continue
        key = ast.unparse(loop.target.elts[0]) if isinstance(loop.target, ast.Tuple) else None
        for c in ast.walk(loop):
            if isinstance(c, ast.Call) and ast.unparse(c.func) == "self._close_run_trace" and c.args:
                arg = ast.unparse(c.args[0])
                if key and f"run={key}" in arg.replace(" ", ""):
                    ok = True
    w.check(f"{RE}._run#ensures[runs closed by the engine during cleanup also end their span via _close_run_trace(run key)]", ok,
            {"replay": "tracing.spans"})
