"""C14 - concurrent runs with different run keys stay independent.

Carriers: bluesky/run_engine.py: RunEngine._create, _declare_stream, _read, _monitor, _unmonitor, _save, _drop, _kickoff,
_collect, _configure, _close_run, _open_run, _checkpoint, _rewind, _reset_checkpoint_state_meth / _coro;
bluesky/bundlers.py: RunBundler.create / read / save / close_run / reset_checkpoint_state / rewind (executed, contract = C05);
bluesky/preprocessors.py: set_run_key_wrapper, set_run_key_wrapper._set_run_key, msg_mutator, baseline_wrapper (+ plan_mutator).

F   (T1, frame contracts, recording fake bundlers) with several runs open - the default key None, a string key and *falsy but valid*
    keys (0, '') among them - each handler applies the message to the bundler registered under the message's run key and to no
    other bundler; a key that is not open (a falsy one while the default run is open included) raises IllegalMessageSequence
    (read / configure pass through to the device) without touching any bundler; the handlers that are implicit checkpoints
    (close_run, monitor, unmonitor) refresh the checkpoint state of *every* run that stays open; opening a key
    that is already open is rejected without disturbing the open runs; a new key gets its own bundler.
K   set_run_key_wrapper, nested to depth 2, for run keys of every kind (arbitrary int, arbitrary str, an object of arbitrary
    truth value, (), False): a message that carries a key (anything but None) keeps it, an un-keyed one gets the key of the
    innermost wrapper; the other fields are kept; the answer of the RunEngine reaches the plan.  baseline_wrapper (the preprocessor
    that inserts messages for a keyed run) over two interleaved runs: every inserted baseline message carries the key of the run
    whose open_run / close_run triggered it.
I   (interleaved runs under an interruption; the real RunEngine handlers over two *real* RunBundlers with symbolic sequence
    counters 1 <= snap <= next, keys of every kind) any (explicit / implicit) checkpoint - caused by a message of the *other* run
    or by none in particular -, then events of the two runs in any order of an enumerated shape, a rejected duplicate open_run in
    between, then a rewind (what resume / a suspension do) and the replay of exactly what _rewind hands back, then close_run:
    run by run, the documents carry the run's own start uid, a replayed event gets the seq_num it had the first time (numbering
    continues from where the run was at the checkpoint, whatever happened to the other run), and stop.num_events counts the
    run's own events.  (Per-run lifecycle / numbering of a single bundler are C01 / C05.)
T2  (the real _run / __call__ / resume / abort / stop / halt / request_pause / request_suspend under the asyncio model, an arbitrary plan
    over open_run / close_run of two run keys - a string and the falsy key 0 -, checkpoint / clear_checkpoint / a registered command,
    abstract bundlers, every schedule of pause / suspension / abort requests, every post-pause decision) whatever an interruption does
    to one open run - interruption record, monitors suspended / restored, rewind, checkpoint state reset / cleared, monitors cleared in
    the epilogue - it does to every open run; a close_run of the plan closes the run opened under its key; when the engine is idle
    again every run that was opened has been closed exactly once.
"""
import collections
import os

from .lib import *
from .re_lib import *

PROP = "C14"
IMS = "bluesky.utils:IllegalMessageSequence"
PP = "bluesky.preprocessors"
TRUSTED = EM_ASSUMPTIONS + ["F: bundlers are abstract (recording fakes): only which bundler receives which call is observed",
                            "devices: read / configure / kickoff return arbitrary values; check_supports and warn_if_msg_args_or_kwargs are effect-free",
                            "I: the caching fragment of RunEngine._run is the C04 invariant (INV): every replayable message executed since the most recent "
                            "checkpoint is appended to the message cache, and resume / a suspension replay exactly what _rewind returns before "
                            "the interrupted plan goes on; the harness appends the executed messages to the cache accordingly",
                            "I: enumerated shape: two runs, one stream each, up to two events between the checkpoint and the interruption; "
                            "counters, readings and run keys are symbolic / representative of their kind",
                            "run keys are hashable values used only through ==, hash, `is None` and truth testing"]
NOT_DECIDED = ("interruptions landing *inside* a bundler method that awaits a device (T2 runs abstract bundlers, I runs the real ones between scheduling points); "
               "monitor / collect streams of concurrent runs under a rewind (C05, per bundler); more than two concurrent runs in T2 / I (three in F); "
               "run keys on messages inserted by preprocessors other than set_run_key_wrapper / baseline_wrapper (monitor_during, fly_during ... insert run=None "
               "messages, which an enclosing set_run_key_wrapper keys)")

# handler -> (bundler method, behaviour when the key is not open)
HANDLERS = {"_create": ("create", "ims"), "_declare_stream": ("declare_stream", "ims"), "_save": ("save", "ims"), "_drop": ("drop", "ims"),
            "_monitor": ("monitor", "ims"), "_unmonitor": ("unmonitor", "ims"), "_kickoff": ("kickoff", "ims"), "_collect": ("collect", "ims"),
            "_read": ("read", "pass"), "_configure": ("configure", "pass"), "_close_run": ("close_run", "ims")}
IMPLICIT_CHECKPOINTS = ("_close_run", "_monitor", "_unmonitor")
OPEN_KEYS = [None, "a", 0]            # the default key, a string, a falsy key that is a perfectly valid key
ABSENT_KEYS = ["", "zz"]              # not open: a falsy one (must not fall back to the default run) and an ordinary one
NAMES = {None: "default", "a": "a", 0: "zero", "": "empty", "zz": "zz"}


def fake_bundler(log, key, resets=None):
    def method(name):
        def m(I_, o, a, k):
            log.append((key, name, tuple(a)))
            return Ready("result-" + key)
        return m

    def reset(I_, o, a, k):
        if resets is not None:
            resets.append(key)
    methods = {m: method(m) for m in set(v[0] for v in HANDLERS.values())}
    methods["reset_checkpoint_state"] = reset
    return Opaque(f"bundler[{key}]", {"token": "bundler", "truth": True, "attrs": {"bundling": False, "run_is_open": True},
                                      "methods": methods, "isinstance_default": False})


def frame_name(h, absent):
    return f"{RE}.{h}#frame[applies the message to the bundler of its run key only; unknown key: {'rejected' if absent == 'ims' else 'device only'}]"


CKPT = "#ensures[an implicit checkpoint caused by one run's message refreshes the checkpoint state of every run that stays open]"

for _h, (_m, _absent) in HANDLERS.items():
    def _mk(h=_h, meth=_m, absent=_absent):
        @task(h, PROP, functions=[f"{RE}.{h}"] + ([f"{RE}._reset_checkpoint_state_meth", f"{RE}._reset_checkpoint_state_coro"] if h in IMPLICIT_CHECKPOINTS else []),
              expect=[frame_name(h, absent)] + ([f"{RE}.{h}{CKPT}"] if h in IMPLICIT_CHECKPOINTS else []))
        def t(I):
            w = I.w
            env = Env(I)
            install_tracer(I, [])
            log, resets = [], []
            dev_calls = []
            dev = Opaque("dev", {"token": "dev", "truth": True, "attrs": {"name": "dev"}, "isinstance_default": True,
                                 "methods": {"read": lambda I_, o, a, k: dev_calls.append("read") or {"x": {"value": 1, "timestamp": 0}},
                                             "configure": lambda I_, o, a, k: dev_calls.append("configure") or ({}, {}),
                                             "kickoff": lambda I_, o, a, k: dev_calls.append("kickoff") or Opaque("status", {"token": "status"})}})
            w.stubs[(MR, "check_supports")] = native(lambda I_, a, k: a[0])
            w.stubs[(MR, "warn_if_msg_args_or_kwargs")] = native(lambda I_, a, k: None)
            w.stubs[(MR, "trace")] = Opaque("trace", {"methods": {"get_current_span": lambda *a: None}})
            bundlers = {k: fake_bundler(log, NAMES[k], resets) for k in OPEN_KEYS}
            old = MsgVal("custom", None, (), {}, None)
            re_ = make_re(I, env, _run_bundlers=dict(bundlers), _msg_cache=collections.deque([old]))
            I.call_hooks[f"{RE}._add_status_to_group"] = lambda I_, f, a, k: ret(None)
            I.call_hooks[f"{RE}._close_run_trace"] = lambda I_, f, a, k: ret(None)
            key = w.choose(OPEN_KEYS + ABSENT_KEYS, "run key of the message")
            msg = MsgVal(h[1:], dev, (), {}, key)
            r = call_async(I, I.getattr(re_, h), msg)
            name = frame_name(h, absent)
            rp = {"replay": "runkeys.frame", "handler": h, "key": NAMES[key]}
            unchanged = len(re_._run_bundlers) == len(bundlers) and all(k in re_._run_bundlers and re_._run_bundlers[k] is bundlers[k] for k in bundlers)
            if key in ABSENT_KEYS:
                if absent == "ims":
                    w.check(name, r[0] == "raise" and exc_is(I, r[1], IMS) and log == [] and dev_calls == [] and unchanged and resets == [], rp)
                else:
                    w.check(name, r[0] == "ok" and log == [] and dev_calls == [h[1:]] and unchanged, rp)
                return
            ok = r[0] == "ok" and [(k, m) for k, m, a in log] == [(NAMES[key], meth)] and log[0][2][0] is msg
            rest = [k for k in OPEN_KEYS if k != key]
            if h == "_close_run":
                ok = ok and len(re_._run_bundlers) == len(rest) and all(k in re_._run_bundlers and re_._run_bundlers[k] is bundlers[k] for k in rest)
            else:
                ok = ok and unchanged
            w.check(name, ok, rp)
            if h in IMPLICIT_CHECKPOINTS:
                still = rest if h == "_close_run" else OPEN_KEYS
                cache = I.getattr(re_, "_msg_cache")
                w.check(f"{RE}.{h}{CKPT}", r[0] == "ok" and set(NAMES[k] for k in still) <= set(resets) and cache is not None and len(cache) == 0,
                        dict(rp, replay="runkeys.checkpoint_all", resets=sorted(resets)))
    _mk()


def _open_re(I, env, bundlers):
    return make_re(I, env, _run_bundlers=dict(bundlers), scan_id_source=I.get_function(f"{MR}:default_scan_id_source"),
                   md_validator=I.get_function(f"{MR}:_default_md_validator"), md_normalizer=I.get_function(f"{MR}:_default_md_normalizer"))


@task("_open_run.duplicate_key", PROP, functions=[f"{RE}._open_run"],
      expect=[f"{RE}._open_run#ensures[a key that is already open is rejected; open runs undisturbed, nothing emitted]"])
def open_duplicate(I):
    w = I.w
    env = Env(I)
    install_tracer(I, [])
    log = []
    bundlers = {k: fake_bundler(log, NAMES[k]) for k in OPEN_KEYS}
    re_ = _open_re(I, env, bundlers)
    key = w.choose(OPEN_KEYS, "key")
    r = call_async(I, I.getattr(re_, "_open_run"), MsgVal("open_run", None, (), {}, key))
    w.check(f"{RE}._open_run#ensures[a key that is already open is rejected; open runs undisturbed, nothing emitted]",
            r[0] == "raise" and exc_is(I, r[1], IMS) and log == [] and env.emitted == [] and all(re_._run_bundlers[k] is bundlers[k] for k in bundlers)
            and len(re_._run_bundlers) == len(bundlers) and re_._run_start_uids == [] and "scan_id" not in re_.md,
            {"replay": "runkeys.frame", "handler": "_open_run", "key": NAMES[key], "open": "all"})


@task("_open_run.new_key", PROP, functions=[f"{RE}._open_run"],
      expect=[f"{RE}._open_run#ensures[a new key gets its own bundler; the other runs are untouched]"])
def open_new(I):
    w = I.w
    env = Env(I)
    install_tracer(I, [])
    log = []
    # a key is new when no *equal* key is open: a falsy key next to the open default run, the default key next to an open falsy one
    first, key = w.choose([(None, "a"), (None, 0), (None, ""), (0, None), (0, ""), ("a", 0)], "open key, new key")
    bundlers = {first: fake_bundler(log, NAMES[first])}
    re_ = _open_re(I, env, bundlers)
    r = call_async(I, I.getattr(re_, "_open_run"), MsgVal("open_run", None, (), {}, key))
    starts = [d for n, d in env.emitted if n == "start"]
    w.check(f"{RE}._open_run#ensures[a new key gets its own bundler; the other runs are untouched]",
            r[0] == "ok" and log == [] and re_._run_bundlers[first] is bundlers[first] and len(re_._run_bundlers) == 2 and key in re_._run_bundlers
            and len(starts) == 1 and starts[0]["uid"] == r[1] and re_._run_bundlers[key]._run_start_uid == r[1],
            {"replay": "runkeys.frame", "handler": "_open_run", "key": NAMES[key], "open": NAMES[first]})


# ------------------------------------------------------------------------------------------------ K: set_run_key_wrapper
KEY_KINDS = ["int", "str", "object", "empty-tuple", "false"]


def run_key(w, kind, name):
    """a run key of the given kind: symbolic where the language has a symbolic value of that kind, else a representative"""
    if kind == "int":
        return w.int(f"{name}_int")                    # any integer, 0 included
    if kind == "str":
        return w.str(f"{name}_str")                    # any string, '' included
    if kind == "object":
        return Opaque(name, {"token": "key", "truth": "sym", "isinstance_default": False})     # an object of arbitrary truth value
    return {"empty-tuple": (), "false": False}[kind]


def same_key(got, want):
    if isinstance(want, Sym):
        return Eq(got, want) if isinstance(got, Sym) else False
    return got is want or (isinstance(want, tuple) and got == want)


SRK = f"{PP}:set_run_key_wrapper._set_run_key#ensures[a message that carries a run key - any value but None - keeps it; an un-keyed one gets the innermost wrapper's key; other fields kept]"


@task("_set_run_key", PROP, functions=[f"{PP}:set_run_key_wrapper", f"{PP}:set_run_key_wrapper._set_run_key", f"{PP}:msg_mutator"],
      expect=[SRK, f"{PP}:set_run_key_wrapper#raises[ValueError for run=None]", f"{PP}:set_run_key_wrapper#ensures[the RunEngine's answer reaches the plan]"])
def set_run_key(I):
    w = I.w
    own = w.choose(["none"] + KEY_KINDS, "run key carried by the message")
    inner = w.choose(KEY_KINDS, "key of the (inner) wrapper")
    depth = w.choose([1, 2], "nesting depth")
    k_own = None if own == "none" else run_key(w, own, "msg_key")
    k_inner = run_key(w, inner, "inner_key")
    obj = Opaque("dev", {"token": "dev"})
    msg = MsgVal("read", obj, (1,), {"k": 2}, k_own)
    m = __import__("pyvc.bisim", fromlist=["reference_module"]).reference_module(I.P, "verif_c14_plan", "def one(m):\n    r = yield m\n    return r\n")
    wrap = I.get_function(f"{PP}:set_run_key_wrapper")
    g = I.call_value(wrap, I.call_value(I.global_lookup(m, "one"), msg), k_inner)
    if depth == 2:
        g = I.call_value(wrap, g, "outer")
    rp = {"replay": "runkeys.set_run_key", "own": own, "inner": inner, "depth": depth}
    try:
        o = g.resume(("send", None))
    except PyRaise as pr:
        w.fail(SRK, dict(rp, raised=repr(pr.exc)))          # every value but None is a valid key for the wrapper too
        return
    got = o[1]
    ok = o[0] == "yield" and isinstance(got, MsgVal) and got.command == "read" and got.obj is obj and got.args == (1,) and got.kwargs == {"k": 2}
    if ok:
        ok = And(same_key(got.run, k_own), got is msg) if own != "none" else same_key(got.run, k_inner)
    w.check(SRK, ok, rp)
    answer = Opaque("answer", {"token": "answer"})
    try:
        o2 = g.resume(("send", answer))
    except PyRaise as pr:
        o2 = ("raise", pr.exc)
    w.check(f"{PP}:set_run_key_wrapper#ensures[the RunEngine's answer reaches the plan]", o2[0] == "return" and o2[1] is answer, rp)
    gen2 = I.call_value(wrap, I.call_value(I.global_lookup(m, "one"), msg), None)
    try:
        gen2.resume(("send", None))
        raised = None
    except PyRaise as pr:
        raised = pr.exc
    w.check(f"{PP}:set_run_key_wrapper#raises[ValueError for run=None]", raised is not None and exc_is(I, raised, "ValueError"))


@task("_set_run_key.twin", PROP, twin="twin:an enclosing wrapper re-keys every message")
def set_run_key_twin(I):
    w = I.w
    msg = MsgVal("read", None, (), {}, w.int("msg_key_int"))
    m = __import__("pyvc.bisim", fromlist=["reference_module"]).reference_module(I.P, "verif_c14_plan", "def one(m):\n    r = yield m\n    return r\n")
    g = I.call_value(I.get_function(f"{PP}:set_run_key_wrapper"), I.call_value(I.global_lookup(m, "one"), msg), "outer")
    o = g.resume(("send", None))
    w.check("twin:an enclosing wrapper re-keys every message", o[0] == "yield" and o[1].run == "outer")


BASE = f"{PP}:baseline_wrapper#ensures[the baseline readings inserted after open_run / before close_run of a keyed run carry that run's key - any value but None; the plan's own messages pass unchanged]"


@task("baseline_wrapper.run_key", PROP, functions=[f"{PP}:baseline_wrapper", f"{PP}:plan_mutator", f"{PP}:set_run_key_wrapper", f"{PP}:msg_mutator"],
      expect=[BASE], covers=["baseline readings inserted for a keyed run"])
def baseline_run_key(I):
    """the one preprocessor that inserts messages *for a keyed run*: with two interleaved runs (keys of any kind) every inserted baseline
    message must go to the run whose open_run / close_run triggered it (declare_stream / trigger_and_read are abstract plans of un-keyed
    messages, as plan_stubs writes them)"""
    w = I.w
    kinds = w.choose([("int", "str"), ("str", "object"), ("object", "false"), ("empty-tuple", "int"), ("none", "str"), ("int", "none")], "kinds of the two run keys")
    keys = [None if k == "none" else run_key(w, k, f"key{i}") for i, k in enumerate(kinds)]
    m = __import__("pyvc.bisim", fromlist=["reference_module"]).reference_module(
        I.P, "verif_c14_seq", "def seq(msgs):\n    out = []\n    for m in msgs:\n        out.append((yield m))\n    return out\n")
    seq = I.global_lookup(m, "seq")
    dev = Opaque("bdev", {"token": "dev", "truth": True, "isinstance_default": False})
    inserted = []

    def stub(cmds):
        def f(I_, a, k):
            ms = [MsgVal(c, dev if c != "create" else None, (), {"name": k.get("name")} if c in ("create", "declare_stream") else {}, None) for c in cmds]
            inserted.extend(ms)
            return I_.call_value(seq, ms)
        return native(f)
    w.stubs[(PP, "declare_stream")] = stub(["declare_stream"])
    w.stubs[(PP, "trigger_and_read")] = stub(["trigger", "create", "read", "save"])
    user = [MsgVal("open_run", None, (), {}, keys[0]), MsgVal("open_run", None, (), {}, keys[1]), MsgVal("checkpoint", None, (), {}, None),
            MsgVal("close_run", None, (), {}, keys[0]), MsgVal("close_run", None, (), {}, keys[1])]
    g = I.call_value(I.get_function(f"{PP}:baseline_wrapper"), I.call_value(seq, user), [dev])
    got, tok = [], ("send", None)
    rp = {"replay": "runkeys.baseline", "kinds": list(kinds)}
    try:
        while len(got) < 40:
            o = g.resume(tok)
            if o[0] != "yield":
                break
            got.append(o[1])
            tok = ("send", None)
    except PyRaise as pr:
        w.fail(BASE, dict(rp, raised=repr(pr.exc)))
        return
    # from the statement: open(k0) [declare, trigger, create, read, save]@k0  open(k1) [..5..]@k1  checkpoint  [trigger, create, read, save]@k0 close(k0)  [..4..]@k1 close(k1)
    want = [("open_run", 0, True)] + [(c, 0, False) for c in ("declare_stream", "trigger", "create", "read", "save")] \
        + [("open_run", 1, True)] + [(c, 1, False) for c in ("declare_stream", "trigger", "create", "read", "save")] + [("checkpoint", None, True)] \
        + [(c, 0, False) for c in ("trigger", "create", "read", "save")] + [("close_run", 0, True)] + [(c, 1, False) for c in ("trigger", "create", "read", "save")] + [("close_run", 1, True)]
    ok = len(got) == len(want) and all(isinstance(x, MsgVal) and x.command == c for x, (c, r, own) in zip(got, want))
    conds = []
    if ok:
        w.cover("baseline readings inserted for a keyed run")
        for x, (c, r, own) in zip(got, want):
            k = None if r is None else keys[r]
            conds.append(x.run is None if k is None else same_key(x.run, k))
            if own:
                conds.append(any(x is u for u in user))
    w.check(BASE, And(*conds) if ok and all(c is not False for c in conds) else False, dict(rp, commands=[getattr(x, "command", None) for x in got]))


# ------------------------------------------------------------------------------------------------ I: interleaved runs under a rewind
MBQ = f"{MB}:RunBundler"
PAIRS = {"default+str": (None, "b"), "str+zero": ("a", 0), "zero+default": (0, None), "empty+str": ("", "b")}
SHAPES = {"-": [], "A": ["A"], "B": ["B"], "AB": ["A", "B"], "BA": ["B", "A"], "AA": ["A", "A"]}
NUM = f"{RE}._rewind#ensures[interleaved runs: after any checkpoint, events of either run, a rewind and the replay, each run's replayed events get the seq_nums they had and its stop counts its own events]"
OWN = f"{RE}#ensures[interleaved runs: every document produced by a message belongs to the run of the message's key and to no other run]"
SNAP = f"{RE}#ensures[interleaved runs: whenever the engine forgets the messages executed so far (a checkpoint, explicit or caused by the other run), every open run's snapshot is its current numbering]"
DUP = f"{RE}._open_run#ensures[a duplicate open_run between the events of interleaved runs is rejected and changes nothing]"


def real_run(I, env, tag):
    """a real, opened RunBundler with a declared stream 'primary' over one device and symbolic counters 1 <= snap <= next"""
    w = I.w
    b, uid = opened_bundler(I, env)
    dname = f"det{tag}"
    reads = []

    def read(I_, o, a, k):
        v = w.real(f"reading{tag}", fresh=True)
        reads.append(v)
        return {dname: {"value": v, "timestamp": w.real(f"ts{tag}", fresh=True)}}
    dev = Opaque(dname, {"token": "dev", "attrs": {"name": dname, "hints": {"fields": [dname]}}, "truth": True, "isinstance_default": False,
                         "hasattr": {"hints": True}, "methods": {"read": read}})
    for cache in ("_config_values_cache", "_config_ts_cache", "_config_desc_cache"):
        b.attrs[cache][dev] = {}
    dks = {dname: {"dtype": "number", "shape": [], "source": "dev"}}
    b._describe_cache[dev] = dks
    r = call_async(I, I.getattr(b, "_prepare_stream"), "primary", {dev: dks})
    if r[0] != "ok":
        raise EngineError(f"_prepare_stream failed in harness: {r[1].attrs}")
    n, s = w.int(f"next_{tag}"), w.int(f"snap_{tag}")
    w.add(And(s >= 1, s <= n))
    I.getattr(b, "_sequence_counters")["primary"] = n           # (I.getattr: wherever the class keeps them)
    I.getattr(b, "_sequence_counters_copy")["primary"] = s
    return {"b": b, "uid": uid, "dev": dev, "desc": r[1][0]["uid"], "next": n, "snap": s, "tag": tag}


def _mk_interleaved(M):
    @task(f"interleaved.rewind[{M}]", PROP,
          functions=[f"{RE}.{n}" for n in ("_create", "_read", "_save", "_close_run", "_checkpoint", "_rewind", "_open_run", "_reset_checkpoint_state_meth",
                                          "_reset_checkpoint_state_coro")]
          + [f"{MBQ}.{n}" for n in ("create", "read", "save", "close_run", "rewind", "reset_checkpoint_state")] + ["bluesky.utils:ensure_generator"],
          expect=[NUM, OWN, DUP, SNAP], covers=["a replayed event", "a run closed before the interruption"] if M == "close_run_B" else ["a replayed event"],
          bounded=None)
    def t(I):
        w = I.w
        env = Env(I)
        install_tracer(I, [])
        pair = w.choose(list(PAIRS), "run keys (A, B)")
        shape = w.choose(list(SHAPES), "events between the checkpoint and the interruption")
        cache0 = w.choose(["messages", "empty"], "message cache before the checkpoint")
        dup = w.choose([False, True], "a duplicate open_run is attempted")
        ka, kb = PAIRS[pair]
        w.stubs[(MR, "check_supports")] = native(lambda I_, a, k: a[0])
        w.stubs[(MR, "warn_if_msg_args_or_kwargs")] = native(lambda I_, a, k: None)
        w.stubs[(MB, "maybe_collect_asset_docs")] = native(lambda I_, a, k: [])
        w.stubs["asyncio.gather"] = lambda I_, a, k: Ready([run_coro(I_, c) if isinstance(c, GenObj) else c for c in a])
        I.call_hooks[f"{RE}._close_run_trace"] = lambda I_, f, a, k: ret(None)
        runs = {"A": real_run(I, env, "A"), "B": real_run(I, env, "B")}
        key = {"A": ka, "B": kb}
        old = [MsgVal("null", None, (), {}, None)]
        re_ = _open_re(I, env, {ka: runs["A"]["b"], kb: runs["B"]["b"]})
        I.setattr(re_, "_msg_cache", collections.deque(old if cache0 == "messages" else []))
        if cache0 == "empty":
            # the coupling invariant between the engine's cache and the runs' snapshots: nothing replayable was executed since the snapshots
            # were taken (SNAP below re-establishes it at every checkpoint; events only ever make the cache non-empty)
            w.add(And(Eq(runs["A"]["snap"], runs["A"]["next"]), Eq(runs["B"]["snap"], runs["B"]["next"])))
        I.setattr(re_, "_deferred_pause_requested", False)
        env.emitted.clear()
        rp = {"replay": "runkeys.interleaved", "keys": pair, "shape": SHAPES[shape], "checkpoint": M, "dup": dup, "cache": cache0}
        problems = []

        def execute(msg, replaying=False):
            """what _run does with one message (C04 INV): cache it if replayable, dispatch it to its handler"""
            cache = I.getattr(re_, "_msg_cache")
            if cache is not None and msg.command not in ("open_run", "close_run", "monitor", "unmonitor"):
                cache.append(msg)
            r = call_async(I, I.getattr(re_, "_" + msg.command), msg)
            if r[0] != "ok":
                problems.append((msg.command, msg.run, repr(r[1])))
            return r

        # ---- the checkpoint: explicit, or implicit through a message of run B
        if M == "close_run_B":
            execute(MsgVal("close_run", None, (), {}, kb))
            w.cover("a run closed before the interruption")
            open_now = ["A"]
        else:
            execute(MsgVal("checkpoint", None, (), {}, None))
            open_now = ["A", "B"]
        cache = I.getattr(re_, "_msg_cache")
        emptied = cache is not None and len(cache) == 0
        w.check(SNAP, And(emptied,
                          *[And(Eq(I.getattr(runs[R]["b"], "_sequence_counters_copy").get("primary"), runs[R]["next"]),
                                Eq(I.getattr(runs[R]["b"], "_sequence_counters").get("primary"), runs[R]["next"])) for R in open_now]), rp)
        if not emptied:
            # (`old` stands for whatever was executed between the snapshots and this checkpoint; it is only sound as long as it is never replayed)
            raise PathEnd("reported: the checkpoint did not empty the message cache")
        # ---- events of the open runs, a rejected duplicate open_run in between
        taken = {"A": [], "B": []}       # run -> list of readings, in the order taken
        n_before = len(env.emitted)
        for i, R in enumerate([x for x in SHAPES[shape] if x in open_now]):
            if dup and i == 0:
                before = (len(env.emitted), dict(re_._run_bundlers), list(re_._run_start_uids), dict(re_.md))
                r = call_async(I, I.getattr(re_, "_open_run"), MsgVal("open_run", None, (), {}, key[R]))
                now = I.getattr(re_, "_run_bundlers")
                if not w.check(DUP, r[0] == "raise" and exc_is(I, r[1], IMS) and len(env.emitted) == before[0] and len(now) == len(before[1])
                               and all(now[k] is v for k, v in before[1].items()) and list(re_._run_start_uids) == before[2] and dict(re_.md) == before[3], rp):
                    raise PathEnd("reported")         # (the open runs are no longer what the rest of the path assumes)
            execute(MsgVal("create", None, (), {"name": "primary"}, key[R]))
            execute(MsgVal("read", runs[R]["dev"], (), {}, key[R]))
            execute(MsgVal("save", None, (), {}, key[R]))
            taken[R].append(R)
        first_pass = list(env.emitted[n_before:])
        # ---- the interruption: resume / a suspension rewind and replay what _rewind hands back
        r = catch(I, I.getattr(re_, "_rewind"))
        if r[0] != "ok":
            w.fail(NUM, dict(rp, raised=repr(r[1])))
            return
        gen, replayed = r[1], []
        while len(replayed) <= 3 * len(SHAPES[shape]) + 2:
            out = catch(I, I.getattr(gen, "send"), None)
            if out[0] == "raise":
                break
            replayed.append(out[1])
        n_mid = len(env.emitted)
        for m_ in replayed:
            execute(m_, True)
            if m_.command == "save":
                w.cover("a replayed event")
        second_pass = list(env.emitted[n_mid:])
        for R in open_now:
            execute(MsgVal("close_run", None, (), {}, key[R]))
        # ---- run by run: documents grouped by run_start
        if problems:
            w.fail(NUM, dict(rp, raised=problems))
            return
        num_ok, own_ok = [], []
        for R in ("A", "B"):
            run = runs[R]
            other = runs["B" if R == "A" else "A"]
            k = len([x for x in SHAPES[shape] if x == R and R in open_now])
            mine1 = [d for n, d in first_pass if n == "event" and d["descriptor"] == run["desc"]]
            mine2 = [d for n, d in second_pass if n == "event" and d["descriptor"] == run["desc"]]
            stops = [d for n, d in env.emitted if n == "stop" and d["run_start"] == run["uid"]]
            own_ok.append(len(mine1) == k and len(mine2) == k and len(stops) == 1)
            if not own_ok[-1]:
                continue
            for i in range(k):
                num_ok.append(Eq(mine1[i]["seq_num"], run["next"] + i))
                num_ok.append(Eq(mine2[i]["seq_num"], run["next"] + i))         # the replayed event re-uses the number it had
                own_ok.append(set(mine1[i]["data"]) == {f"det{R}"} and set(mine2[i]["data"]) == {f"det{R}"})
            num_ok.append(set(stops[0]["num_events"]) == {"primary"})
            if set(stops[0]["num_events"]) == {"primary"}:
                num_ok.append(Eq(stops[0]["num_events"]["primary"], run["next"] - 1 + k))
        n_events = len([1 for n, d in env.emitted if n == "event"])
        own_ok.append(n_events == 2 * len([x for x in SHAPES[shape] if x in open_now]))
        own_ok.append(all(n in ("event", "stop") for n, d in env.emitted))
        w.check(OWN, all(own_ok), rp)
        w.check(NUM, And(*num_ok) if all(x is not False for x in num_ok) else False, rp)
    return t


for _M in ("close_run_B", "checkpoint"):
    _mk_interleaved(_M)


# ------------------------------------------------------------------------------------------------ T2: two run keys under pauses / suspensions / aborts
# The real _run / __call__ / resume / abort / stop / halt / request_pause / request_suspend under the asyncio model (contracts/t2.py) with an
# arbitrary plan over open_run / close_run messages of two different run keys (a string and the falsy key 0), abstract bundlers (contract of
# RunBundler) and every schedule of the environment: what an interruption does to one open run it does to every open run.
from . import t2 as _t2   # noqa: E402

for _cmd in ("open_run", "close_run"):
    for _k in ("a", 0):
        _t2.ALPHABET[f"{_cmd}@{_k}"] = _t2.msg(_cmd, run=_k)
TRUSTED = TRUSTED + [a for a in _t2.TRUSTED_T2 if a not in TRUSTED] + [
    "T2: A-ENV: at most one request of another thread is in flight at a time; A-RUNS: a plan opens at most two runs per scenario"]
T2_KINDS = ("record_interruption", "suspend_monitors", "restore_monitors", "rewind", "reset_checkpoint_state", "clear_checkpoint", "clear_monitors")
ALIKE = f"{RE}._run#invariant[concurrent runs: whatever an interruption does to one open run (interruption record, monitors suspended / restored, rewind, checkpoint reset / clear) it does to every open run]"
LIFE = f"{RE}._run#ensures[concurrent runs: when the engine is idle again every run that was opened has been closed exactly once]"
BYKEY = f"{RE}._close_run#ensures[concurrent runs: a close_run message of the plan closes the run opened under its key]"


class C14Runs:
    """ghost: per pair (older, younger) of open runs and per kind of step, (#steps the older got since the younger opened) - (#steps the
    younger got); the engine performs these steps in loops over all open runs without a scheduling point in between, so at every
    scheduling point each difference is 0.  The differences are part of the closure key."""

    def __init__(self, sc, tr):
        self.sc, self.tr, self.w, self.eng = sc, tr, sc.w, sc.eng
        self.lag = {}
        self.key_of = {}
        self.closed = {}
        self.stepped = False

    def canon(self, cn):
        return ("C14", tuple(sorted((p, tuple(sorted(d.items()))) for p, d in self.lag.items())), tuple(sorted(self.closed.items())))

    def compare(self, info, pairs):
        """at a scheduling point, and when one of the two runs is closed"""
        w = self.w
        uneven = sorted((p, k, v) for p in pairs for k, v in self.lag[p].items() if v)
        if uneven:
            w.check(ALIKE, False, dict(info, uneven=[f"run #{p[0]} got {abs(v)} {k} {'more' if v > 0 else 'fewer'} than run #{p[1]}" for p, k, v in uneven], step=uneven[0][1]))
            raise PathEnd("reported")
        if pairs and self.stepped:
            w.ok(ALIKE)                   # (two runs open and at least one such step was compared)

    def __call__(self, kind, *a):
        w, eng = self.w, self.eng
        info = {"requests": list(self.sc.requests), "replay": "lifecycle.replay"}
        if kind == "open_run":
            b = a[0]
            self.key_of[b.idx] = a[1].run
            self.closed[b.idx] = 0
            for o in eng.bundlers:
                if o is not b and o.open:
                    self.lag[(o.idx, b.idx)] = {}
        elif kind == "close_run":
            b, m = a
            self.closed[b.idx] = self.closed.get(b.idx, 0) + 1
            self.compare(info, [p for p in self.lag if b.idx in p])
            for p in [p for p in self.lag if b.idx in p]:
                del self.lag[p]
            if "exit_status" not in m.kwargs:          # (a close_run of the plan; the epilogue's own close_run messages are covered by LIFE)
                w.check(BYKEY, b.idx in self.key_of and m.run == self.key_of[b.idx] and type(m.run) is type(self.key_of[b.idx]), dict(info, key=repr(m.run)))
        elif kind in T2_KINDS and a and isinstance(a[0], _t2.Bundler):
            b = a[0]
            for (o, y), d in self.lag.items():
                if b.idx == o:
                    d[kind] = d.get(kind, 0) + 1
                elif b.idx == y:
                    d[kind] = d.get(kind, 0) - 1
                if d.get(kind) == 0:
                    del d[kind]
                    self.stepped = True
        elif kind == "cut":
            self.compare(info, list(self.lag))
        elif kind == "returned" and eng.state == "idle":
            still = [b.idx for b in eng.bundlers if b.open]
            w.check(LIFE, not still and all(self.closed.get(b.idx) == 1 for b in eng.bundlers), dict(info, open=still, closed=dict(self.closed)))


def _c14_runs(sc, tr):
    tr.checks.append(C14Runs(sc, tr))


T2_SCENARIOS = [
    ("open_run@a,open_run@0,close_run@a,close_run@0,checkpoint", "pause", {"max_requests": 1}),
    ("open_run@a,open_run@0,close_run@0,custom", "suspend", {"max_requests": 1}),
    ("open_run@a,open_run@0,close_run@a,clear_checkpoint", "abort", {"max_requests": 1}),
]
if os.environ.get("VERIF_TIER") == "thorough":
    T2_SCENARIOS += [("open_run@a,open_run@0,close_run@a,close_run@0,checkpoint", "pause,suspend", {"max_requests": 2})]
_t2.t2_tasks(PROP, "two-keys", T2_SCENARIOS, [_c14_runs], expect=[ALIKE, LIFE, BYKEY])


def _t2_twin(sc, tr):
    def check(kind, *a):
        if kind == "record_interruption":
            sc.w.check("twin:an interruption is recorded in at most one run", not any(b.open and b is not a[0] for b in sc.eng.bundlers))
    tr.checks.append(check)


_t2.t2_tasks(PROP, "twin", [("open_run@a,open_run@0", "pause", {"max_requests": 1})], [_t2_twin], twin="twin:an interruption is recorded in at most one run")
