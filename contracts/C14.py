"""C14 - concurrent runs with different run keys stay independent.

Carriers: bluesky/run_engine.py: RunEngine._create, _declare_stream, _read, _monitor, _unmonitor, _save, _drop, _kickoff,
_collect, _configure, _close_run, _open_run; bluesky/preprocessors.py: set_run_key_wrapper._set_run_key.
Frame contracts: with several runs open, each handler applies the message to the bundler registered under the
message's run key and to no other bundler; a key that is not open raises IllegalMessageSequence (read / configure pass
through to the device) without touching any bundler; opening a key that is already open is rejected without
disturbing the open runs; _set_run_key fills in only a missing run key.  (Per-run lifecycle / numbering are C01 / C05:
every RunBundler composes its documents from its own compose_run, i.e. its own start uid.)
"""
from .lib import *
from .re_lib import *

PROP = "C14"
IMS = "bluesky.utils:IllegalMessageSequence"
TRUSTED = EM_ASSUMPTIONS + ["bundlers are abstract here (recording fakes): only which bundler receives which call is observed",
                            "devices: read / configure / kickoff return arbitrary values; check_supports and warn_if_msg_args_or_kwargs are effect-free"]
NOT_DECIDED = "interleavings of concurrent runs under interruptions (T2); run keys on messages inserted by preprocessors (they carry run=None)"

# handler -> (bundler method, behaviour when the key is not open)
HANDLERS = {"_create": ("create", "ims"), "_declare_stream": ("declare_stream", "ims"), "_save": ("save", "ims"), "_drop": ("drop", "ims"),
            "_monitor": ("monitor", "ims"), "_unmonitor": ("unmonitor", "ims"), "_kickoff": ("kickoff", "ims"), "_collect": ("collect", "ims"),
            "_read": ("read", "pass"), "_configure": ("configure", "pass"), "_close_run": ("close_run", "ims")}


def fake_bundler(log, key):
    def method(name):
        def m(I_, o, a, k):
            log.append((key, name, tuple(a)))
            return Ready("result-" + key)
        return m
    return Opaque(f"bundler[{key}]", {"token": "bundler", "truth": True, "attrs": {"bundling": False, "run_is_open": True},
                                      "methods": {m: method(m) for m in set(v[0] for v in HANDLERS.values())}, "isinstance_default": False})


for _h, (_m, _absent) in HANDLERS.items():
    def _mk(h=_h, meth=_m, absent=_absent):
        @task(h, PROP, functions=[f"{RE}.{h}"],
              expect=[f"{RE}.{h}#frame[applies the message to the bundler of its run key only; unknown key: {'rejected' if absent == 'ims' else 'device only'}]"])
        def t(I):
            w = I.w
            env = Env(I)
            install_tracer(I, [])
            log = []
            dev_calls = []
            dev = Opaque("dev", {"token": "dev", "truth": True, "attrs": {"name": "dev"}, "isinstance_default": True,
                                 "methods": {"read": lambda I_, o, a, k: dev_calls.append("read") or {"x": {"value": 1, "timestamp": 0}},
                                             "configure": lambda I_, o, a, k: dev_calls.append("configure") or ({}, {}),
                                             "kickoff": lambda I_, o, a, k: dev_calls.append("kickoff") or Opaque("status", {"token": "status"})}})
            w.stubs[(MR, "check_supports")] = native(lambda I_, a, k: a[0])
            w.stubs[(MR, "warn_if_msg_args_or_kwargs")] = native(lambda I_, a, k: None)
            w.stubs[(MR, "trace")] = Opaque("trace", {"methods": {"get_current_span": lambda *a: None}})
            bundlers = {None: fake_bundler(log, "default"), "a": fake_bundler(log, "a"), "b": fake_bundler(log, "b")}
            names = {None: "default", "a": "a", "b": "b"}
            re_ = make_re(I, env, _run_bundlers=dict(bundlers))
            I.call_hooks[f"{RE}._reset_checkpoint_state_coro"] = lambda I_, f, a, k: ret(Ready(None))
            I.call_hooks[f"{RE}._add_status_to_group"] = lambda I_, f, a, k: ret(None)
            I.call_hooks[f"{RE}._close_run_trace"] = lambda I_, f, a, k: ret(None)
            key = w.choose([None, "a", "b", "zz"], "run key of the message")
            msg = MsgVal(h[1:], dev, (), {}, key)
            r = call_async(I, I.getattr(re_, h), msg)
            name = f"{RE}.{h}#frame[applies the message to the bundler of its run key only; unknown key: {'rejected' if absent == 'ims' else 'device only'}]"
            rp = {"replay": "runkeys.independent"}
            if key == "zz":
                if absent == "ims":
                    w.check(name, r[0] == "raise" and exc_is(I, r[1], IMS) and log == [] and dev_calls == [] and set(re_._run_bundlers) == {None, "a", "b"}, rp)
                else:
                    w.check(name, r[0] == "ok" and log == [] and dev_calls == [h[1:]], rp)
                return
            ok = r[0] == "ok" and [(k, m) for k, m, a in log] == [(names[key], meth)] and log[0][2][0] is msg
            if h == "_close_run":
                ok = ok and set(re_._run_bundlers) == {None, "a", "b"} - {key}
            else:
                ok = ok and set(re_._run_bundlers) == {None, "a", "b"} and all(re_._run_bundlers[k] is bundlers[k] for k in bundlers)
            w.check(name, ok, rp)
    _mk()


@task("_open_run.duplicate_key", PROP, functions=[f"{RE}._open_run"],
      expect=[f"{RE}._open_run#ensures[a key that is already open is rejected; open runs undisturbed, nothing emitted]"])
def open_duplicate(I):
    w = I.w
    env = Env(I)
    install_tracer(I, [])
    log = []
    bundlers = {None: fake_bundler(log, "default"), "a": fake_bundler(log, "a")}
    re_ = make_re(I, env, _run_bundlers=dict(bundlers), scan_id_source=I.get_function(f"{MR}:default_scan_id_source"),
                  md_validator=I.get_function(f"{MR}:_default_md_validator"), md_normalizer=I.get_function(f"{MR}:_default_md_normalizer"))
    key = w.choose([None, "a"], "key")
    r = call_async(I, I.getattr(re_, "_open_run"), MsgVal("open_run", None, (), {}, key))
    w.check(f"{RE}._open_run#ensures[a key that is already open is rejected; open runs undisturbed, nothing emitted]",
            r[0] == "raise" and exc_is(I, r[1], IMS) and log == [] and env.emitted == [] and all(re_._run_bundlers[k] is bundlers[k] for k in bundlers)
            and set(re_._run_bundlers) == set(bundlers) and re_._run_start_uids == [], {"replay": "runkeys.independent"})


@task("_open_run.new_key", PROP, functions=[f"{RE}._open_run"],
      expect=[f"{RE}._open_run#ensures[a new key gets its own bundler; the other runs are untouched]"])
def open_new(I):
    w = I.w
    env = Env(I)
    install_tracer(I, [])
    log = []
    bundlers = {None: fake_bundler(log, "default")}
    re_ = make_re(I, env, _run_bundlers=dict(bundlers), scan_id_source=I.get_function(f"{MR}:default_scan_id_source"),
                  md_validator=I.get_function(f"{MR}:_default_md_validator"), md_normalizer=I.get_function(f"{MR}:_default_md_normalizer"))
    r = call_async(I, I.getattr(re_, "_open_run"), MsgVal("open_run", None, (), {}, "a"))
    starts = [d for n, d in env.emitted if n == "start"]
    w.check(f"{RE}._open_run#ensures[a new key gets its own bundler; the other runs are untouched]",
            r[0] == "ok" and log == [] and re_._run_bundlers[None] is bundlers[None] and set(re_._run_bundlers) == {None, "a"}
            and len(starts) == 1 and starts[0]["uid"] == r[1] and re_._run_bundlers["a"]._run_start_uid == r[1], {"replay": "runkeys.independent"})


@task("_set_run_key", PROP, functions=["bluesky.preprocessors:set_run_key_wrapper", "bluesky.preprocessors:set_run_key_wrapper._set_run_key"],
      expect=["bluesky.preprocessors:set_run_key_wrapper._set_run_key#ensures[only a missing run key is filled in; all other fields kept]"])
def set_run_key(I):
    w = I.w
    has = w.choose([False, True], "message already has a run key")
    obj = Opaque("dev", {"token": "dev"})
    msg = MsgVal("read", obj, (1,), {"k": 2}, "mine" if has else None)
    out = []
    m = __import__("pyvc.bisim", fromlist=["reference_module"]).reference_module(I.P, "verif_c14_plan", "def one(m):\n    r = yield m\n    return r\n")
    plan = I.call_value(I.global_lookup(m, "one"), msg)
    g = I.call_value(I.get_function("bluesky.preprocessors:set_run_key_wrapper"), plan, "wrapped")
    o = g.resume(("send", None))
    got = o[1]
    ok = o[0] == "yield" and isinstance(got, MsgVal) and got.command == "read" and got.obj is obj and got.args == (1,) and got.kwargs == {"k": 2}
    w.check("bluesky.preprocessors:set_run_key_wrapper._set_run_key#ensures[only a missing run key is filled in; all other fields kept]",
            ok and got.run == ("mine" if has else "wrapped") and (got is msg if has else True), {"replay": "runkeys.independent"})
    bad = catch(I, lambda: None) if False else None
    gen2 = I.call_value(I.get_function("bluesky.preprocessors:set_run_key_wrapper"), I.call_value(I.global_lookup(m, "one"), msg), None)
    try:
        gen2.resume(("send", None))
        raised = None
    except PyRaise as pr:
        raised = pr.exc
    w.check("bluesky.preprocessors:set_run_key_wrapper#raises[ValueError for run=None]", raised is not None and exc_is(I, raised, "ValueError"))
