"""C05 - seq_num and num_events account for every event exactly.

Carriers: bluesky/bundlers.py: RunBundler._prepare_stream, save (event emission), record_interruption,
monitor.emit_event, reset_checkpoint_state, rewind, _pack_seq_nums_into_stream_datum, close_run (num_events).
Abstract view per stream s: next(s) = _sequence_counters[s] (shared with event_model's event_counters),
snap(s) = _sequence_counters_copy[s]; `never_replayed` = {interruptions} + monitor streams + streams fed by collect.
Step contracts (pre-state: an arbitrary open bundler with symbolic counters 1 <= snap <= next):
  new stream: next = snap = 1;  every emitted event carries seq_num = next(s) and then next'(s) = next(s) + 1
  reset_checkpoint_state: snap' = next for every stream
  rewind (from the statement): replayable streams next' = snap (1 if the stream did not exist at the checkpoint);
      never-replayed streams keep next' = next; bundling' = False
  _pack_seq_nums_into_stream_datum: seq_nums = [next, next + width), counters untouched; pre-filled seq_nums or a
      width different from the previous one raise EventModelValueError
  close_run: stop.num_events[s] = next(s) - 1
  monitor update / interruption record: exactly one event of its stream, seq_num = next, next' = next + 1
  save with a stream datum: the datum's seq_nums = [seq_num of the event saved with it, + 1)
  collect on a flyer handing over events / event pages (old-style describe_collect streams or a pre-declared stream; the real
      collect, _describe_collect, _collect_events, _collect_event_pages): the n points handed over for a stream are numbered
      next .. next + n - 1 in hand-over order by the engine's counter - whatever the device puts into its partial events, its own
      seq_num included (event_model's compose_event honours a seq_num keyword, so the bundler must never pass the device's through) -
      next' = next + n, other streams untouched, a new stream starts at 1; a collect without events advances the counter by the
      frames its stream datums declare
  rewind, widened: the pre-state holds every kind of stream (create/read/save, monitor, interruptions, old-style flyer events,
      stream-datum collects through both no-event branches), each created by the real operation, each possibly WITHOUT a snapshot
      entry (created after the last checkpoint); a second rewind ends in the same state; the events emitted after the rewind are
      numbered from the restored counters (the dictionary stays the one event_model's composers count in)
Lemma (z3, over the step contracts): the emitted seq_nums of a stream are always exactly 1..hi-1 with next <= hi, a
seq_num is re-emitted only after a rewind of a replayable stream, and for never-replayed streams next == hi (no
duplicates, stream-datum ranges and collected batches start exactly where the numbering ended); at stop num_events = hi - 1
when next == hi.
"""
from .lib import *
from .bundler_lib import *

PROP = "C05"
Q = f"{MB}:RunBundler"
TRUSTED = EM_ASSUMPTIONS + [
    "stream names are used only as dictionary keys (concrete representatives 'primary', 'mon', 'interruptions', 'fly', 'fly2', 'sd', 'sd2')",
    "A-EVENTMODEL also covers compose_event's seq_num/uid/time keywords, compose_event_page and pack_event_page as stated in contracts/bundler_lib.py",
    "iterate_maybe_async(it) yields exactly the items of the device's (a)synchronous iterator, in order, and does not suspend; a flyer handing over "
    "events writes no external assets (maybe_collect_asset_docs yields nothing for it); itertools.combinations, asyncio.gather (results in order), "
    "check_supports / maybe_await / maybe_update_hints are replaced by their contracts",
    "collect shapes are enumerated: per collect 0-3 partial events (two streams) or 0-2 event pages of 1-2 points; the extra keys a device adds are "
    "enumerated (none, filled, seq_num, both); values, device numbering, counters and snapshots are unbounded symbolic values",
    "invariant assumed and re-established: _interruptions_counter == next('interruptions') - 1",
]
NOT_DECIDED = ("that every pause/suspension schedule reaches rewind with the right snapshot (T2, C04); flyers that are both event-collectable and write "
               "stream assets in the same collect; key validation of partial events (event_model)")
KF = "C05-rewind-rolls-back-never-replayed-streams"


def symbolic_state(I, env, b, streams, with_copy=True):
    """overwrite the counters of an opened bundler by symbolic ones: 1 <= snap(s) <= next(s)"""
    w = I.w
    nxt, snap = {}, {}
    for s in streams:
        n = w.int(f"next_{s}")
        c = w.int(f"snap_{s}")
        w.add(And(n >= 1, c >= 1, c <= n))
        nxt[s], snap[s] = n, c
    b._sequence_counters.clear()
    b._sequence_counters.update(nxt)
    b._sequence_counters_copy.clear()
    if with_copy:
        b._sequence_counters_copy.update(snap)
    return nxt, snap


def declare(I, env, b, name, keys=("x",), external=()):
    """compose a descriptor for stream `name` through the real _prepare_stream (`external`: keys whose data go to a stream resource)"""
    dev = Opaque(f"dev_{name}", {"token": "dev", "attrs": {"name": f"dev_{name}", "hints": {"fields": list(keys)}}, "truth": True,
                                 "isinstance_default": False, "hasattr": {"hints": True}})
    for cache in ("_config_values_cache", "_config_ts_cache", "_config_desc_cache"):
        b.attrs[cache][dev] = {}
    dks = {k: {"dtype": "number", "shape": [], "source": "dev"} for k in keys}
    dks.update({k: {"dtype": "array", "shape": [1], "source": "dev", "external": "STREAM:"} for k in external})
    b._describe_cache[dev] = dks
    r = call_async(I, I.getattr(b, "_prepare_stream"), name, {dev: dks})
    if r[0] != "ok":
        raise EngineError(f"_prepare_stream failed in harness: {r[1].attrs}")
    return dev, r[1]


@task("_prepare_stream", PROP, functions=[f"{Q}._prepare_stream", f"{Q}.open_run"],
      expect=[f"{Q}._prepare_stream#ensures[new stream starts at next = snap = 1; an existing stream keeps its counters]"])
def prepare_stream(I):
    w = I.w
    env = Env(I)
    b, uid = opened_bundler(I, env)
    declare(I, env, b, "primary")
    # (the snapshot entry may be absent until the next checkpoint: rewind treats an absent entry as 1)
    ok_new = And(Eq(b._sequence_counters["primary"], 1), Eq(b._sequence_counters_copy.get("primary", 1), 1))
    n = w.int("next")
    w.add(n >= 1)
    b._sequence_counters["primary"] = n
    b._sequence_counters_copy["primary"] = n
    declare(I, env, b, "primary")      # a second descriptor for the same stream (e.g. after configure)
    w.check(f"{Q}._prepare_stream#ensures[new stream starts at next = snap = 1; an existing stream keeps its counters]",
            And(ok_new, Eq(b._sequence_counters["primary"], n), Eq(b._sequence_counters_copy["primary"], n)),
            {"replay": "bundler.counters"})


S_DATUM = f"{Q}.save#ensures[a stream datum saved with an event carries seq_nums = [seq_num of that event, + 1): contiguous with the stream's event numbering]"


@task("save.seq_num", PROP, functions=[f"{Q}.save", f"{Q}.create", f"{Q}.read", f"{Q}._pack_external_assets", f"{Q}._pack_seq_nums_into_stream_datum"],
      expect=[f"{Q}.save#ensures[event seq_num == next(stream) and next' = next + 1; other streams untouched]", S_DATUM])
def save_seq(I):
    w = I.w
    env = Env(I)
    b, uid = opened_bundler(I, env)
    with_datum = w.choose([False, True], "the device read writes a stream datum for this event")
    dev, _ = declare(I, env, b, "primary", external=("img",) if with_datum else ())
    declare(I, env, b, "other", keys=("y",))
    nxt, snap = symbolic_state(I, env, b, ["primary", "other"])
    w.stubs[(MB, "StreamRange")] = native(lambda I_, a, k: dict(k))
    w.stubs[(MB, "EventModelValueError")] = env.value_error
    i0 = w.int("idx_start")
    w.add(i0 >= 0)
    first_datum = w.choose([True, False], "first datum of its stream resource") if with_datum else True
    assets = []
    if with_datum:
        if first_datum:
            assets.append(("stream_resource", {"uid": "sr", "data_key": "img", "mimetype": "x", "uri": "file://x", "parameters": {}}))
        else:
            b._stream_resource_data_keys["sr"] = "img"
        assets.append(("stream_datum", {"uid": "sr/0", "stream_resource": "sr", "descriptor": "", "indices": {"start": i0, "stop": i0 + 1},
                                        "seq_nums": {"start": 0, "stop": 0}}))
    w.stubs[(MB, "maybe_collect_asset_docs")] = native(lambda I_, a, k: list(assets))
    call_async(I, I.getattr(b, "create"), MsgVal("create", None, (), {"name": "primary"}, None))
    reading = {"x": {"value": w.real("v"), "timestamp": w.real("ts")}}
    I.call_hooks[f"{Q}._ensure_cached"] = lambda I_, f, a, k: ret(Ready(None))
    r1 = call_async(I, I.getattr(b, "read"), MsgVal("read", dev, (), {}, None), reading)
    env.emitted.clear()
    r2 = call_async(I, I.getattr(b, "save"), MsgVal("save", None, (), {}, None))
    evs = events(env)
    ok = r1[0] == "ok" and r2[0] == "ok" and len(evs) == 1
    w.check(f"{Q}.save#ensures[event seq_num == next(stream) and next' = next + 1; other streams untouched]",
            And(ok, Eq(evs[0]["seq_num"], nxt["primary"]) if ok else False,
                Eq(b._sequence_counters["primary"], nxt["primary"] + 1), Eq(b._sequence_counters["other"], nxt["other"]),
                Eq(b._sequence_counters_copy["primary"], snap["primary"])),
            {"replay": "bundler.save_datum" if with_datum else "bundler.counters", "first_datum": first_datum})
    datums = [d for n, d in env.emitted if n == "stream_datum"]
    if with_datum:
        names = [n for n, d in env.emitted if n in ("stream_datum", "event")]
        w.check(S_DATUM, And(ok, len(datums) == 1, names == ["stream_datum", "event"],
                             *([Eq(datums[0]["seq_nums"]["start"], evs[0]["seq_num"]), Eq(datums[0]["seq_nums"]["stop"], evs[0]["seq_num"] + 1),
                                Eq(datums[0]["indices"]["start"], i0), datums[0]["descriptor"] == evs[0]["descriptor"]] if ok and len(datums) == 1 else [False])),
                {"replay": "bundler.save_datum", "first_datum": first_datum})
    else:
        w.check(S_DATUM, len(datums) == 0)


@task("reset_checkpoint_state", PROP, functions=[f"{Q}.reset_checkpoint_state", f"{Q}.clear_checkpoint"],
      expect=[f"{Q}.reset_checkpoint_state#ensures[snap' = next for every stream, counters unchanged]"])
def reset_checkpoint(I):
    w = I.w
    env = Env(I)
    b, uid = opened_bundler(I, env)
    had_copy = w.choose([True, False], "a snapshot existed (no clear_checkpoint before)")
    nxt, snap = symbolic_state(I, env, b, ["primary", "mon"], with_copy=had_copy)
    call_method(I, b, "reset_checkpoint_state")
    w.check(f"{Q}.reset_checkpoint_state#ensures[snap' = next for every stream, counters unchanged]",
            And(set(b._sequence_counters_copy) == {"primary", "mon"}, *[Eq(b._sequence_counters_copy.get(s, 0), nxt[s]) for s in nxt],
                *[Eq(b._sequence_counters.get(s, 0), nxt[s]) for s in nxt]), {"replay": "bundler.checkpoint_state", "had_copy": had_copy})
    call_async(I, I.getattr(b, "clear_checkpoint"), MsgVal("clear_checkpoint", None, (), {}, None))
    w.check(f"{Q}.clear_checkpoint#ensures[snapshot dropped, counters unchanged]",
            And(len(b._sequence_counters_copy) == 0, *[Eq(b._sequence_counters[s], nxt[s]) for s in nxt]))


@task("rewind", PROP, functions=[f"{Q}.rewind", f"{Q}.monitor", f"{Q}.open_run", f"{Q}._describe_collect", f"{Q}.collect", f"{Q}._prepare_stream"],
      expect=[f"{Q}.rewind#ensures[replayable streams: next' = snap (1 if created after the checkpoint); bundling' = False]",
              f"{Q}.rewind#ensures[never-replayed streams (interruptions, monitors, collect) keep next' = next]",
              f"{Q}.rewind#ensures[a second rewind before the next checkpoint ends in the same state: the snapshot survives a rewind]",
              f"{Q}.rewind#ensures[the events after a rewind are numbered from the restored counters (interruptions: next, replayed stream: snap)]",
              f"{Q}.collect#ensures[a collect without events counts the frames its stream datums declare]"],
      covers=[f"no snapshot of {s}" for s in ("primary", "mon", "interruptions", "fly", "sd", "sd2")])
def rewind(I):
    """pre-state: every kind of stream the statement names, each brought into existence by the real operation that creates it -
    'primary' (create/read/save: replayable), 'mon' (monitor), 'interruptions' (open_run), 'fly' (events handed over by a flyer,
    old-style describe_collect), 'sd' (pre-declared stream fed by stream datums only) - with arbitrary counters 1 <= snap <= next,
    and any one of them (or all) without a snapshot entry: created after the last checkpoint (a fly section without a checkpoint;
    'interruptions' is created after open_run's own snapshot)"""
    w = I.w
    env = Env(I)
    collect_stubs(I, env)
    b, uid = opened_bundler(I, env, record_interruptions=True)
    declare(I, env, b, "primary")
    # events handed over by a flyer (doubly nested describe_collect): the stream is described by the real _describe_collect
    fl = make_flyer("events", {"fly": {"fx": DK()}}, [])
    r = call_async(I, I.getattr(b, "_describe_collect"), fl)
    if r[0] != "ok":
        raise EngineError(f"_describe_collect failed in harness: {r[1].attrs}")
    # a pre-declared stream whose detector writes stream datums only: one real collect (the no-event branch counts the frames itself)
    det = Opaque("sd_det", {"token": "dev", "truth": True, "isinstance_default": False, "isinstance": {"Collectable": True, "WritesStreamAssets": True, "Flyable": True},
                            "attrs": {"name": "sd_det", "parent": None}, "hasattr_default": False, "hasattr": {"name": True}})
    for cache in ("_config_values_cache", "_config_ts_cache", "_config_desc_cache"):
        b.attrs[cache][det] = {}
    r = call_async(I, I.getattr(b, "_prepare_stream"), "sd", {det: {"img": {"dtype": "array", "shape": [1], "source": "x", "external": "STREAM:"}}})
    if r[0] != "ok":
        raise EngineError(f"_prepare_stream failed in harness: {r[1].attrs}")
    b._declared_stream_names[frozenset([det])] = ["sd"]
    w.stubs[(MB, "StreamRange")] = native(lambda I_, a, k: dict(k))
    w.stubs[(MB, "EventModelValueError")] = env.value_error
    sd_docs = [("stream_resource", {"uid": "sr", "data_key": "img", "mimetype": "x", "uri": "file://x", "parameters": {}}),
               ("stream_datum", {"uid": "sr/0", "stream_resource": "sr", "descriptor": "", "indices": {"start": 0, "stop": 3}, "seq_nums": {"start": 0, "stop": 0}})]
    env.asset_docs[id(det)] = sd_docs
    r = call_async(I, I.getattr(b, "collect"), MsgVal("collect", det, (), {"name": "sd"}, None))
    if r[0] != "ok":
        raise EngineError(f"collect failed in harness: {r[1].attrs}")
    # ... and one whose single detector is neither event-collectable nor WritesStreamAssets (the other no-event branch of collect)
    det2 = Opaque("sd2_det", {"token": "dev", "truth": True, "isinstance_default": False, "isinstance": {"Collectable": True, "Flyable": True},
                              "attrs": {"name": "sd2_det", "parent": None}, "hasattr_default": False, "hasattr": {"name": True}})
    for cache in ("_config_values_cache", "_config_ts_cache", "_config_desc_cache"):
        b.attrs[cache][det2] = {}
    r = call_async(I, I.getattr(b, "_prepare_stream"), "sd2", {det2: {"img2": {"dtype": "array", "shape": [1], "source": "x", "external": "STREAM:"}}})
    if r[0] != "ok":
        raise EngineError(f"_prepare_stream failed in harness: {r[1].attrs}")
    b._declared_stream_names[frozenset([det2])] = ["sd2"]
    sd2_docs = [("stream_resource", {"uid": "sr2", "data_key": "img2", "mimetype": "x", "uri": "file://x", "parameters": {}}),
                ("stream_datum", {"uid": "sr2/0", "stream_resource": "sr2", "descriptor": "", "indices": {"start": 0, "stop": 2}, "seq_nums": {"start": 0, "stop": 0}})]
    env.asset_docs[id(det2)] = sd2_docs
    r = call_async(I, I.getattr(b, "collect"), MsgVal("collect", det2, (), {"name": "sd2"}, None))
    if r[0] != "ok":
        raise EngineError(f"collect failed in harness: {r[1].attrs}")
    w.check(f"{Q}.collect#ensures[a collect without events counts the frames its stream datums declare]",
            And(Eq(b._sequence_counters["sd"], 4), Eq(b._sequence_counters["sd2"], 3)))
    # a monitor stream, created through the real monitor()
    sig = Opaque("sig", {"token": "dev", "attrs": {"name": "sig", "hints": {}}, "truth": True, "isinstance": {"Subscribable": True, "Readable": True, "Configurable": False},
                         "isinstance_default": False, "hasattr": {"hints": False},
                         "methods": {"subscribe": lambda I_, o, a, k: None, "describe": lambda I_, o, a, k: {"sig": {"dtype": "number", "shape": [], "source": "s"}}}})
    r = call_async(I, I.getattr(b, "monitor"), MsgVal("monitor", sig, (), {"name": "mon"}, None))
    if r[0] != "ok":
        raise EngineError(f"monitor failed in harness: {r[1].attrs}")
    never = ["mon", "interruptions", "fly", "sd", "sd2"]
    no_snapshot = w.choose([None, "primary"] + never + ["all"], "stream(s) created after the last checkpoint (no snapshot entry)")
    nxt, snap = symbolic_state(I, env, b, ["primary"] + never)
    b.attrs["_interruptions_counter"] = nxt["interruptions"] - 1       # (invariant: records emitted so far)
    gone = list(nxt) if no_snapshot == "all" else [no_snapshot] if no_snapshot else []
    for s in gone:
        del b._sequence_counters_copy[s]
        w.cover(f"no snapshot of {s}")
    b.attrs["bundling"] = w.choose([True, False], "bundle open")
    rp = {"replay": "bundler.rewind_state", "no_snapshot": gone}
    call_method(I, b, "rewind")
    want_primary = 1 if "primary" in gone else snap["primary"]
    w.check(f"{Q}.rewind#ensures[replayable streams: next' = snap (1 if created after the checkpoint); bundling' = False]",
            And(Eq(b._sequence_counters.get("primary", 0), want_primary), b.bundling is False), rp)
    w.check_kf(f"{Q}.rewind#ensures[never-replayed streams (interruptions, monitors, collect) keep next' = next]",
               And(*[Eq(b._sequence_counters.get(s, 0), nxt[s]) for s in never]), KF, True, rp)
    # the snapshot itself survives the rewind (lemma: snap' = snap): a second interruption before the next checkpoint ends in the same state
    first = dict(b._sequence_counters)
    call_method(I, b, "rewind")
    w.check(f"{Q}.rewind#ensures[a second rewind before the next checkpoint ends in the same state: the snapshot survives a rewind]",
            And(set(b._sequence_counters) == set(first), *[Eq(b._sequence_counters.get(s, 0), v) for s, v in first.items()]), rp)
    # the counters restored are the ones the next events are numbered from (the dictionary is shared with event_model's composers)
    env.emitted.clear()
    r1 = catch(I, I.getattr(b, "record_interruption"), "resume")
    I.call_hooks[f"{Q}._ensure_cached"] = lambda I_, f, a, k: ret(Ready(None))
    dev = list(b._descriptor_objs["primary"])[0]
    r2 = call_async(I, I.getattr(b, "create"), MsgVal("create", None, (), {"name": "primary"}, None))
    r3 = call_async(I, I.getattr(b, "read"), MsgVal("read", dev, (), {}, None), {"x": {"value": w.real("v"), "timestamp": w.real("ts")}})
    r4 = call_async(I, I.getattr(b, "save"), MsgVal("save", None, (), {}, None))
    evs = events(env)
    ok = all(r[0] == "ok" for r in (r1, r2, r3, r4)) and len(evs) == 2
    w.check(f"{Q}.rewind#ensures[the events after a rewind are numbered from the restored counters (interruptions: next, replayed stream: snap)]",
            And(ok, *([Eq(evs[0]["seq_num"], nxt["interruptions"]), Eq(evs[1]["seq_num"], want_primary),
                       Eq(b._sequence_counters.get("interruptions", 0), nxt["interruptions"] + 1),
                       Eq(b._sequence_counters.get("primary", 0), want_primary + 1)] if ok else [False])), rp)


EMIT = f"{Q}#ensures[a monitor update / an interruption record is exactly one event of its stream with seq_num == next(stream); next' = next + 1; other streams and the snapshot untouched]"


@task("emission.never-replayed", PROP, functions=[f"{Q}.monitor", f"{Q}.monitor.emit_event", f"{Q}.record_interruption", f"{Q}.open_run"], expect=[EMIT],
      covers=["monitor update", "interruption record"])
def emission(I):
    w = I.w
    env = Env(I)
    collect_stubs(I, env)
    b, uid = opened_bundler(I, env, record_interruptions=True)
    declare(I, env, b, "primary")
    cbs = []
    sig = Opaque("sig", {"token": "dev", "attrs": {"name": "sig", "hints": {}}, "truth": True, "isinstance": {"Subscribable": True, "Readable": True, "Configurable": False},
                         "isinstance_default": False, "hasattr": {"hints": False},
                         "methods": {"subscribe": lambda I_, o, a, k: cbs.append(a[0]), "describe": lambda I_, o, a, k: {"sig": {"dtype": "number", "shape": [], "source": "s"}},
                                     "read": lambda I_, o, a, k: {"sig": {"value": I_.w.real("mon_v", fresh=True), "timestamp": I_.w.real("mon_ts", fresh=True)}}}})
    r = call_async(I, I.getattr(b, "monitor"), MsgVal("monitor", sig, (), {"name": "mon"}, None))
    if r[0] != "ok" or len(cbs) != 1:
        raise EngineError(f"monitor failed in harness: {r!r}")
    descs = {d["name"]: d["uid"] for n, d in env.emitted if n == "descriptor"}
    nxt, snap = symbolic_state(I, env, b, ["primary", "mon", "interruptions"])
    b.attrs["_interruptions_counter"] = nxt["interruptions"] - 1       # (invariant: records emitted so far; kept below)
    what = w.choose(["monitor update: the device is read", "monitor update: the readings are passed", "interruption record"], "event")
    env.emitted.clear()
    if what == "interruption record":
        s = "interruptions"
        r = catch(I, I.getattr(b, "record_interruption"), w.choose(["pause", "resume", "suspend"], "content"))
        w.cover("interruption record")
    else:
        s = "mon"
        args = () if what.endswith("read") else ({"sig": {"value": w.real("passed_v"), "timestamp": w.real("passed_ts")}},)
        r = catch(I, cbs[0], *args)
        w.cover("monitor update")
    evs = events(env)
    ok = r[0] == "ok" and len(env.emitted) == 1 and len(evs) == 1 and evs[0]["descriptor"] == descs.get(s)
    w.check(EMIT, And(ok, Eq(evs[0]["seq_num"], nxt[s]) if ok else False, *[Eq(b._sequence_counters.get(x, 0), nxt[x] + (1 if x == s else 0)) for x in nxt],
                      Eq(I.getattr(b, "_interruptions_counter"), b._sequence_counters.get("interruptions", 0) - 1),
                      *[Eq(b._sequence_counters_copy.get(x, 0), snap[x]) for x in snap]), {"replay": "bundler.emission", "what": what})


@task("_pack_seq_nums_into_stream_datum", PROP, functions=[f"{Q}._pack_seq_nums_into_stream_datum"],
      expect=[f"{Q}._pack_seq_nums_into_stream_datum#ensures[seq_nums = [next, next + width); counters unchanged]",
              f"{Q}._pack_seq_nums_into_stream_datum#raises[EventModelValueError iff seq_nums pre-filled or width differs from the previous datum]"])
def pack_seq_nums(I):
    w = I.w
    env = Env(I)
    b, uid = opened_bundler(I, env)
    nxt, snap = symbolic_state(I, env, b, ["fly"])
    w.stubs[(MB, "StreamRange")] = native(lambda I_, a, k: dict(k))
    w.stubs[(MB, "EventModelValueError")] = env.value_error
    i0, i1 = w.int("idx_start"), w.int("idx_stop")
    s0, s1 = w.int("seq_start"), w.int("seq_stop")
    prev = w.int("previous_width")
    w.add(And(i0 <= i1, prev >= 0))
    known = w.choose([True, False], "stream resource known")
    b._stream_resource_data_keys.update({"sr1": "img"} if known else {})
    doc = {"uid": "sd1", "stream_resource": "sr1", "descriptor": "", "indices": {"start": i0, "stop": i1}, "seq_nums": {"start": s0, "stop": s1}}
    r = call_async(I, I.getattr(b, "_pack_seq_nums_into_stream_datum"), doc, "fly", prev)
    width = i1 - i0
    prefilled = Not(And(Eq(s0, 0), Eq(s1, 0)))
    mismatch = And(Not(Eq(prev, 0)), Not(Eq(prev, width)))
    name_r = f"{Q}._pack_seq_nums_into_stream_datum#raises[EventModelValueError iff seq_nums pre-filled or width differs from the previous datum]"
    if r[0] == "raise":
        if exc_is(I, r[1], "RuntimeError") and not isinstance(r[1].cls, type(None)) and not r[1].cls.issubclass(env.value_error):
            w.check(f"{Q}._pack_seq_nums_into_stream_datum#raises[RuntimeError only for an unknown stream resource]", not known)
            return
        w.check(name_r, And(r[1].cls.issubclass(env.value_error), Or(prefilled, mismatch)), {"replay": "bundler.counters"})
        return
    w.check(name_r, And(Not(prefilled), Not(mismatch), known), {"replay": "bundler.counters"})
    w.check(f"{Q}._pack_seq_nums_into_stream_datum#ensures[seq_nums = [next, next + width); counters unchanged]",
            And(Eq(doc["seq_nums"]["start"], nxt["fly"]), Eq(doc["seq_nums"]["stop"], nxt["fly"] + width), Eq(r[1], width),
                Eq(b._sequence_counters["fly"], nxt["fly"])), {"replay": "bundler.counters"})


# ------------------------------------------------------------------------------------------------ events handed over by a flyer
# `collect` on an EventCollectable / EventPageCollectable flyer: the flyer hands over *partial* events (data, timestamps, time and
# whatever else the device chooses to put in: filled, uid, its own seq_num ...).  From the statement: the numbering of a stream is
# 1..N by the engine's counter of that stream - so the events handed over are numbered next, next + 1, ... in hand-over order
# whatever the device says, the counter advances by exactly their number, and - the flyer hands over new data at every collect,
# nothing of it is re-taken - a rewind must not roll such a stream back.
E_NUM = (f"{Q}.collect#ensures[events handed over by a flyer are numbered next, next + 1, ... per stream in hand-over order by the engine's counter, "
         "whatever numbering the device supplies; next' = next + n; other streams untouched]")
E_NEW = f"{Q}.collect#ensures[a stream first described by collect is numbered from 1]"
E_REW = f"{Q}.collect#ensures[a rewind after the collect keeps the stream's numbering: events handed over by a flyer are not re-taken]"
KF_DECL = "C05-declared-collect-events-renumbered"
DK = lambda: {"dtype": "number", "shape": [], "source": "sim"}   # noqa: E731
KEYS_OF = {"fly": ["fx"], "fly2": ["fy", "fz"]}


def collect_stubs(I, env):
    import itertools
    w = I.w
    w.stubs[(MB, "check_supports")] = native(lambda I_, a, k: a[0])
    w.stubs[(MB, "maybe_await")] = native(lambda I_, a, k: Ready(a[0]))
    w.stubs[(MB, "maybe_update_hints")] = native(lambda I_, a, k: None)
    w.stubs["asyncio.gather"] = lambda I_, a, k: Ready([run_coro(I_, c) if isinstance(c, GenObj) else c for c in a])
    w.stubs["itertools.combinations"] = lambda I_, a, k: list(itertools.combinations(list(a[0]), a[1]))
    w.stubs[(MB, "iterate_maybe_async")] = native(lambda I_, a, k: list(a[0]))       # yields the items of the device's iterator, in order
    # asset documents per device (none unless a harness registers some: flyers handing over events write no external assets; C45)
    env.asset_docs = {}
    w.stubs[(MB, "maybe_collect_asset_docs")] = native(lambda I_, a, k: list(env.asset_docs.get(id(a[1]), [])))


def make_flyer(kind, describe_collect, batches):
    """a flyer that is EventCollectable (kind 'events') or EventPageCollectable ('pages'); the k-th collect() / collect_pages()
    hands over batches[k]"""
    calls = [0]

    def hand_over(I_, o, a, k):
        calls[0] += 1
        return list(batches[calls[0] - 1])
    return Opaque("flyer", {"token": "dev", "truth": True, "isinstance_default": False,
                            "isinstance": {"Collectable": True, "Flyable": True, "EventCollectable": kind == "events",
                                           "EventPageCollectable": kind == "pages", "WritesStreamAssets": False,
                                           "WritesExternalAssets": False, "Configurable": False},
                            "attrs": {"name": "flyer", "parent": None}, "hasattr_default": False, "hasattr": {"name": True},
                            "methods": {"describe_collect": lambda I_, o, a, k: describe_collect, "collect": hand_over, "collect_pages": hand_over}})


def hand_over_batch(w, kind, tag, shape, keys_of, extras):
    """the documents of one collect.  shape: kind 'events': a tuple of stream names, one partial event each; kind 'pages': a tuple
    of (stream, number of points), one partial event page each.  Values, device times and - with 'seq_num' among the extras - the
    device's own numbering are unconstrained symbols.  -> (documents, {stream: [the data symbols in hand-over order]})"""
    docs, order = [], {}
    for i, item in enumerate(shape):
        s, n = (item, None) if kind == "events" else item
        keys = keys_of[s]
        pts = [{key: w.real(f"v_{tag}_{i}_{j}_{key}") for key in keys} for j in range(n or 1)]
        order.setdefault(s, []).extend(p[keys[0]] for p in pts)
        dev_seq = [w.int(f"dev_seq_{tag}_{i}_{j}") for j in range(n or 1)]
        if kind == "events":
            d = {"data": dict(pts[0]), "timestamps": {key: w.real(f"ts_{tag}_{i}_{key}") for key in keys}, "time": w.real(f"time_{tag}_{i}")}
            if "filled" in extras:
                d["filled"] = {key: True for key in keys}
            if "seq_num" in extras:
                d["seq_num"] = dev_seq[0]
        else:
            d = {"data": {key: [p[key] for p in pts] for key in keys}, "timestamps": {key: [w.real(f"ts_{tag}_{i}_{j}_{key}") for j in range(n)] for key in keys},
                 "time": [w.real(f"time_{tag}_{i}_{j}") for j in range(n)]}
            if "filled" in extras:
                d["filled"] = {key: [True] * n for key in keys}
            if "seq_num" in extras:
                d["seq_num"] = list(dev_seq)
        docs.append(d)
    return docs, order


def numbered_as(I, env, b, desc_uid, order, start):
    """the event pages emitted (env.emitted) number, per stream, the points handed over as start[s], start[s] + 1, ... in order"""
    pages = [d for n, d in env.emitted if n == "event_page"]
    if any(n == "event" for n, d in env.emitted):
        return False
    cond = True
    for s, vals in order.items():
        mine = [p for p in pages if p["descriptor"] == desc_uid[s]]
        seqs = [x for p in mine for x in p["seq_num"]]
        key = KEYS_OF[s][0]
        got =[x for p in mine for x in p["data"].get(key, [])]
        if len(seqs) != len(vals) or len(got) != len(vals) or any(g is not v for g, v in zip(got, vals)):
            return False
        cond = And(cond, *[Eq(q, start[s] + j) for j, q in enumerate(seqs)], Eq(b._sequence_counters[s], start[s] + len(vals)))
    if {p["descriptor"] for p in pages} - {desc_uid[s] for s in order}:
        return False
    return cond


SHAPES = {
    ("events", False): [("fly",), ("fly", "fly"), ("fly", "fly2"), ("fly2", "fly", "fly"), ()],
    ("events", True): [("fly",), ("fly", "fly"), ()],
    ("pages", False): [(("fly", 1),), (("fly", 2),), (("fly", 1), ("fly2", 2)), (("fly", 2), ("fly", 1)), ()],
    ("pages", True): [(("fly", 1),), (("fly", 2), ("fly", 1)), ()],
}
EXTRAS = [(), ("filled",), ("seq_num",), ("filled", "seq_num")]


def _mk_collect(kind, declared):
    label = f"collect.{kind}[{'pre-declared stream' if declared else 'old-style describe_collect'}]"

    @task(label, PROP, functions=[f"{Q}.collect", f"{Q}._collect_events" if kind == "events" else f"{Q}._collect_event_pages", f"{Q}._describe_collect",
                                  f"{Q}.declare_stream", f"{Q}._prepare_stream", f"{Q}._pack_external_assets", f"{Q}.rewind",
                                  f"{Q}._format_datakeys_with_stream_name", f"{Q}.get_external_data_keys"],
          expect=[E_NUM, E_NEW, E_REW], covers=["device numbering supplied", "stream created after the checkpoint", "nothing handed over"],
          bounded=None)
    def t(I):
        w = I.w
        env = Env(I)
        collect_stubs(I, env)
        b, uid = opened_bundler(I, env)
        declare(I, env, b, "primary")
        streams = ["fly"] if declared else ["fly", "fly2"]
        keys_of = KEYS_OF
        extras = w.choose(EXTRAS, "what the device adds to its partial events")
        shape2 = w.choose(SHAPES[(kind, declared)], "second collect hands over")
        shape1 = (("fly", "fly2", "fly") if kind == "events" else (("fly", 2), ("fly2", 1)))
        if declared:
            shape1 = ("fly", "fly") if kind == "events" else (("fly", 2),)
        docs1, order1 = hand_over_batch(w, kind, "a", shape1, keys_of, extras)
        docs2, order2 = hand_over_batch(w, kind, "b", shape2, keys_of, extras)
        dc = {"fx": DK()} if declared else {s: {key: DK() for key in keys_of[s]} for s in streams}
        fl = make_flyer(kind, dc, [docs1, docs2])
        kw = {}
        if declared:
            r = call_async(I, I.getattr(b, "declare_stream"), MsgVal("declare_stream", None, (fl,), {"name": "fly", "collect": True}, None))
            if r[0] != "ok":
                raise EngineError(f"declare_stream failed in harness: {r[1].attrs}")
            if w.choose([True, False], "collect names the stream"):
                kw = {"name": "fly"}
        rp = {"replay": "bundler.collect_events", "kind": kind, "declared": declared, "named": bool(kw), "extras": list(extras),
              "shape1": shape1, "shape2": shape2}
        # --- first collect: the streams are new
        env.emitted.clear()
        r = call_async(I, I.getattr(b, "collect"), MsgVal("collect", fl, (), dict(kw), None))
        if r[0] != "ok":
            w.fail(f"{Q}.collect#raises[nothing for well-formed partial events]", dict(rp, raised=repr(r[1]), args=repr(r[1].attrs.get("args"))[:200]))
            return
        desc_uid = {s: I.getattr(b._descriptors[s], "descriptor_doc")["uid"] for s in streams}
        w.check(E_NEW, numbered_as(I, env, b, desc_uid, order1, {s: 1 for s in streams}), dict(rp, clause="new"))
        # --- a later collect, from an arbitrary state of the counters
        nxt, snap = symbolic_state(I, env, b, ["primary"] + streams)
        env.emitted.clear()
        r = call_async(I, I.getattr(b, "collect"), MsgVal("collect", fl, (), dict(kw), None))
        if r[0] != "ok":
            w.fail(f"{Q}.collect#raises[nothing for well-formed partial events]", dict(rp, raised=repr(r[1]), args=repr(r[1].attrs.get("args"))[:200]))
            return
        if "seq_num" in extras and shape2:
            w.cover("device numbering supplied")
        if not shape2:
            w.cover("nothing handed over")
        untouched = [s for s in ["primary"] + streams if s not in order2]
        w.check(E_NUM, And(numbered_as(I, env, b, desc_uid, order2, nxt), *[Eq(b._sequence_counters[s], nxt[s]) for s in untouched],
                           *[Eq(b._sequence_counters_copy[s], snap[s]) for s in snap]), dict(rp, clause="numbering"))
        # --- an interruption before the next checkpoint
        absent = w.choose([False, True], "the collect streams were created after the last checkpoint (no snapshot entry)")
        if absent:
            for s in streams:
                del b._sequence_counters_copy[s]
            w.cover("stream created after the checkpoint")
        after = {s: b._sequence_counters[s] for s in streams}
        rr = catch(I, I.getattr(b, "rewind"))
        keeps = And(rr[0] == "ok", *[Eq(b._sequence_counters.get(s, 0), after[s]) for s in streams], Eq(b._sequence_counters.get("primary", 0), snap["primary"]))
        w.check_kf(E_REW, keeps, KF_DECL, declared, dict(rp, clause="rewind", absent=absent))
    return t


for _kind in ("events", "pages"):
    for _declared in (False, True):
        _mk_collect(_kind, _declared)


@task("collect.twin", PROP, twin="twin:the events handed over by a flyer all carry the same seq_num and do not advance the counter")
def collect_twin(I):
    w = I.w
    env = Env(I)
    collect_stubs(I, env)
    b, uid = opened_bundler(I, env)
    docs, order = hand_over_batch(w, "events", "a", ("fly", "fly"), {"fly": ["fx"]}, ("seq_num",))
    fl = make_flyer("events", {"fly": {"fx": DK()}}, [docs, docs])
    call_async(I, I.getattr(b, "collect"), MsgVal("collect", fl, (), {}, None))
    nxt, snap = symbolic_state(I, env, b, ["fly"])
    env.emitted.clear()
    r = call_async(I, I.getattr(b, "collect"), MsgVal("collect", fl, (), {}, None))
    pages = [d for n, d in env.emitted if n == "event_page"]
    w.check("twin:the events handed over by a flyer all carry the same seq_num and do not advance the counter",
            And(r[0] == "ok", len(pages) == 1, *[Eq(q, nxt["fly"]) for q in (pages[0]["seq_num"] if pages else [])], Eq(b._sequence_counters["fly"], nxt["fly"])))


@task("close_run.num_events", PROP, functions=[f"{Q}.close_run"],
      expect=[f"{Q}.close_run#ensures[stop.num_events[s] == next(s) - 1 for every stream]"])
def close_num_events(I):
    w = I.w
    env = Env(I)
    b, uid = opened_bundler(I, env)
    declare(I, env, b, "primary")
    nxt, snap = symbolic_state(I, env, b, ["primary", "mon"])
    env.emitted.clear()
    r = call_async(I, I.getattr(b, "close_run"), MsgVal("close_run", None, (), {"exit_status": None, "reason": None}, None))
    stops = [d for n, d in env.emitted if n == "stop"]
    ok = r[0] == "ok" and len(stops) == 1 and set(stops[0]["num_events"]) == {"primary", "mon"}
    w.check(f"{Q}.close_run#ensures[stop.num_events[s] == next(s) - 1 for every stream]",
            And(ok, *([Eq(stops[0]["num_events"][s], nxt[s] - 1) for s in nxt] if ok else [False])), {"replay": "bundler.counters"})


@task("lemma.numbering", PROP, expect=["lemma:C05.seq_nums are exactly 1..N, duplicates only after a rewind of a replayable stream"])
def lemma(I):
    """inductive invariant over the abstract transition system whose transitions are the step contracts above.
    State of one stream: next, snap, hi (ghost: 1 + largest seq_num emitted so far; emitted == [1, hi))."""
    import z3
    w = I.w
    nxt, snap, hi = z3.Ints("next snap hi")
    replayable = z3.Bool("replayable")
    inv = lambda n, s, h: z3.And(n >= 1, s >= 1, s <= n, n <= h, z3.Implies(z3.Not(replayable), n == h))
    n2, s2, h2 = z3.Ints("next2 snap2 hi2")
    width = z3.Int("width")
    emit_one = z3.And(n2 == nxt + 1, s2 == snap, h2 == z3.If(nxt == hi, hi + 1, hi))    # seq_num = next; fills [1,hi) or extends it
    # a collect handing over `width` events (numbered next .. next + width - 1) or a stream datum with seq_nums [next, next + width)
    emit_many = z3.And(width >= 0, n2 == nxt + width, s2 == snap, h2 == z3.If(nxt + width > hi, nxt + width, hi))
    emit = z3.Or(emit_one, emit_many)
    checkpoint = z3.And(n2 == nxt, s2 == nxt, h2 == hi)
    rew = z3.And(n2 == z3.If(replayable, snap, nxt), s2 == snap, h2 == hi)
    step = z3.Or(emit, checkpoint, rew)
    init = z3.And(nxt == 1, snap == 1, hi == 1)
    no_gap = z3.Implies(emit, z3.And(nxt >= 1, nxt <= hi))                                # the first emitted number is <= hi: never leaves a gap
    fresh_for_never_replayed = z3.Implies(z3.And(emit, z3.Not(replayable)), nxt == hi)     # always fresh numbers, contiguous with what was emitted
    w.check("lemma:C05.seq_nums are exactly 1..N, duplicates only after a rewind of a replayable stream",
            Sym(z3.And(z3.Implies(init, inv(nxt, snap, hi)),
                       z3.Implies(z3.And(inv(nxt, snap, hi), step), inv(n2, s2, h2)),
                       z3.Implies(inv(nxt, snap, hi), z3.And(no_gap, fresh_for_never_replayed)))))


# ------------------------------------------------------------------------------------------------ the engine side of a checkpoint
# The bundler contracts above speak of reset_checkpoint_state / rewind; that a 'checkpoint' message (and every implicit checkpoint)
# really reaches every open run's reset_checkpoint_state - from any state of the engine's message cache, an empty one included - is
# the handler contract proved under C04, re-used here: without it the snapshot used by a later rewind is stale and seq_nums repeat.
from . import C04 as _c04   # noqa: E402

for _h in ("_checkpoint", "_stage", "_close_run"):
    task(f"engine.handler{_h}", PROP, functions=[f"{_c04.RE}.{_h}", f"{_c04.RE}._reset_checkpoint_state_meth"])(_c04.HANDLER_TASKS[_h])
